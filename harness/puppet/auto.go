package puppet

import (
	"strings"
	"sync"
	"sync/atomic"
	"time"
)

// Event is one entry of the totally ordered event log of an Auto backend.
type Event struct {
	Seq   int64    `json:"seq"`
	Ev    string   `json:"ev"` // enter | exit
	Call  int64    `json:"call"`
	K     string   `json:"k"`
	F     int      `json:"file"`
	F2    int      `json:"file2,omitempty"`
	Path  []string `json:"path"`
	Path2 []string `json:"path2,omitempty"`
	Names []string `json:"names,omitempty"`
	Res   string   `json:"res,omitempty"`
	G     int64    `json:"g"`
	NF    int      `json:"nf,omitempty"` // file created by the call (exit events)
}

// Auto is a permissive self-answering controller: every call succeeds (new
// handles get fresh ids; names starting with "f" are regular files, "l"
// symlinks, everything else directories) unless Gate says the call is to be
// held, in which case it stays inside the backend until Release is called.
type Auto struct {
	C *Controller

	mu     sync.Mutex
	Gate   func(c *Call) bool            // hold this call?
	Answer func(c *Call) (Result, bool)  // custom answer (ok=false: default)
	Delay  func(c *Call) time.Duration   // scheduling perturbation
	held   map[int64]*Call
	seq    int64
	Log    []Event
	Notify chan *Call // every call that becomes held is also sent here
	stop   chan struct{}
}

// NewAuto starts the answering goroutine.
func NewAuto() *Auto {
	a := &Auto{C: NewController(), held: map[int64]*Call{}, Notify: make(chan *Call, 4096), stop: make(chan struct{})}
	a.C.nextID = 0
	go a.loop()
	return a
}

// Stop ends the answering goroutine.
func (a *Auto) Stop() { close(a.stop) }

func (a *Auto) paths(c *Call) ([]string, []string) {
	var p, p2 []string
	if f := a.C.File(c.F); f != nil {
		p = f.Path()
	}
	if c.F2 > 0 {
		if f := a.C.File(c.F2); f != nil {
			p2 = f.Path()
		}
	}
	return p, p2
}

func (a *Auto) logEv(ev string, c *Call, res string, nf ...int) {
	p, p2 := a.paths(c)
	a.seq++
	n := 0
	if len(nf) > 0 {
		n = nf[0]
	}
	a.Log = append(a.Log, Event{NF: n, Seq: a.seq, Ev: ev, Call: c.Seq, K: c.K, F: c.F, F2: c.F2, Path: p, Path2: p2, Names: c.Names, Res: res, G: c.G})
}

// ModeForName is the file type the permissive backend gives a name.
func ModeForName(n string) string {
	switch {
	case strings.HasPrefix(n, "f"):
		return "reg"
	case strings.HasPrefix(n, "l"):
		return "sym"
	}
	return "dir"
}

func (a *Auto) defaultResult(c *Call) Result {
	r := Result{Res: "ok"}
	switch c.K {
	case "Attach":
		r.NF, r.Mode = a.C.AutoID(), "dir"
	case "Walk":
		r.NF = a.C.AutoID()
		if len(c.Names) > 0 {
			r.Mode = ModeForName(c.Names[len(c.Names)-1])
		}
	case "WalkGetAttr":
		r.Res = "ENOSYS"
	case "Create":
		r.NF, r.Mode = a.C.AutoID(), "reg"
	case "ReadAt":
		n := c.Args["len"].(int)
		for i := 0; i < n; i++ {
			c.Buf[i] = byte(c.F)
		}
		r.N = n
	case "WriteAt":
		r.Vals = map[string]any{"all": true}
	case "GetXattr":
		r.N = 2
	case "ListXattrs":
		r.N = 2
	}
	return r
}

func (a *Auto) answer(c *Call) {
	r, ok := Result{}, false
	if a.Answer != nil {
		r, ok = a.Answer(c)
	}
	if !ok {
		r = a.defaultResult(c)
	}
	a.mu.Lock()
	a.logEv("exit", c, r.Res, r.NF)
	a.mu.Unlock()
	c.Reply <- r
}

func (a *Auto) loop() {
	for {
		select {
		case <-a.stop:
			return
		case c := <-a.C.Calls:
			a.mu.Lock()
			a.logEv("enter", c, "")
			hold := a.Gate != nil && a.Gate(c)
			if hold {
				a.held[c.Seq] = c
			}
			var d time.Duration
			if a.Delay != nil && !hold {
				d = a.Delay(c)
			}
			a.mu.Unlock()
			if hold {
				a.Notify <- c
				continue
			}
			if d > 0 {
				go func(c *Call) { time.Sleep(d); a.answer(c) }(c)
			} else {
				a.answer(c)
			}
		}
	}
}

// Held returns the calls currently parked at the gate.
func (a *Auto) Held() []*Call {
	a.mu.Lock()
	defer a.mu.Unlock()
	out := make([]*Call, 0, len(a.held))
	for _, c := range a.held {
		out = append(out, c)
	}
	return out
}

// Release lets held calls matching pred return (with the default or custom answer).
func (a *Auto) Release(pred func(c *Call) bool) int {
	a.mu.Lock()
	var rel []*Call
	for k, c := range a.held {
		if pred == nil || pred(c) {
			rel = append(rel, c)
			delete(a.held, k)
		}
	}
	a.mu.Unlock()
	for _, c := range rel {
		a.answer(c)
	}
	return len(rel)
}

// ReleaseTogether lets all held calls return at the same instant: each gets its answer and then
// waits on a common barrier, which is closed once all of them have been answered.
func (a *Auto) ReleaseTogether() int {
	a.mu.Lock()
	var rel []*Call
	for k, c := range a.held {
		rel = append(rel, c)
		delete(a.held, k)
	}
	a.mu.Unlock()
	bar := new(int32)
	for _, c := range rel {
		r, ok := Result{}, false
		if a.Answer != nil {
			r, ok = a.Answer(c)
		}
		if !ok {
			r = a.defaultResult(c)
		}
		r.Barrier = bar
		a.mu.Lock()
		a.logEv("exit", c, r.Res, r.NF)
		a.mu.Unlock()
		c.Reply <- r
	}
	time.Sleep(300 * time.Microsecond) // let every caller reach the barrier
	atomic.StoreInt32(bar, 1)
	return len(rel)
}

// ReleaseWith lets matching held calls return the given result.
func (a *Auto) ReleaseWith(pred func(c *Call) bool, r Result) int {
	a.mu.Lock()
	var rel []*Call
	for k, c := range a.held {
		if pred == nil || pred(c) {
			rel = append(rel, c)
			delete(a.held, k)
		}
	}
	for _, c := range rel {
		a.logEv("exit", c, r.Res)
	}
	a.mu.Unlock()
	for _, c := range rel {
		c.Reply <- r
	}
	return len(rel)
}

// Events returns a copy of the event log.
func (a *Auto) Events() []Event {
	a.mu.Lock()
	defer a.mu.Unlock()
	return append([]Event{}, a.Log...)
}

// SetGate replaces the gate predicate.
func (a *Auto) SetGate(g func(c *Call) bool) {
	a.mu.Lock()
	a.Gate = g
	a.mu.Unlock()
}
