// Package puppet is a remote-controlled p9.Attacher / p9.File. It implements
// no file system: every method call is posted to a Controller and blocks until
// the controller answers with the result to return (success with values, an
// errno, or "panic"). Gating, fault injection, lifetime counting and argument
// recording are therefore one mechanism.
package puppet

import (
	"fmt"
	"runtime"
	"sync"
	"sync/atomic"

	"github.com/hugelgupf/p9/linux"
	"github.com/hugelgupf/p9/p9"
)

// Errnos maps Linux errno names to numbers (independent of p9/linux).
var Errnos = map[string]uint32{
	"EPERM": 1, "ENOENT": 2, "EIO": 5, "EBADF": 9, "EAGAIN": 11, "EACCES": 13, "EFAULT": 14,
	"EBUSY": 16, "EEXIST": 17, "EXDEV": 18, "ENOTDIR": 20, "EISDIR": 21, "EINVAL": 22, "ENOSPC": 28,
	"EROFS": 30, "ERANGE": 34, "ENOSYS": 38, "ENOTEMPTY": 39, "ENODATA": 61, "ENOBUFS": 105,
	"ENAMETOOLONG": 36, "ELOOP": 40, "EOPNOTSUPP": 95,
}

// ErrnoName returns the name for a number ("E<n>" if not in the table).
func ErrnoName(n uint32) string {
	for k, v := range Errnos {
		if v == n {
			return k
		}
	}
	return fmt.Sprintf("E%d", n)
}

// Call is one backend call waiting for its result.
type Call struct {
	Seq   int64
	K     string         // method name
	F     int            // receiver handle (0 = Attacher)
	Names []string       // name arguments
	F2    int            // second handle argument (Link target, RenameAt / Renamed directory)
	Args  map[string]any // all arguments by name
	Buf   []byte         // ReadAt destination (so the controller may fill it)
	Reply chan Result
	// G is the id of the goroutine that made the call (the handler goroutine
	// of one request).
	G int64
	// AfterClose is set when the receiver (or F2) had already been closed.
	AfterClose bool
}

// Result is what the controller makes the call return.
type Result struct {
	Res  string // "ok", an errno name, "panic", or "raw" (Err is returned as is)
	Err  error
	NF   int    // id for the File created by the call
	Mode string // type of that File: dir reg sym sock fifo chr blk
	N    int    // count (ReadAt/WriteAt), xattr length
	Vals map[string]any
	// Barrier, if set, is spun on after the reply has been received: setting it to 1 lets
	// several calls return at the same instant.
	Barrier *int32
}

// Controller receives the calls of all puppet files of one server.
type Controller struct {
	Calls chan *Call
	seq   int64

	mu    sync.Mutex
	files map[int]*File
	// UAC lists calls made on a handle after its Close had begun.
	UAC []string
	// Closes counts Close calls per handle.
	Closes map[int]int
	// ClosePanicked: handles whose Close was made to panic (such a Close never finished; the
	// server may legitimately try again)
	ClosePanicked map[int]bool
	nextID int64
}

// NewController returns a controller with a buffered call channel.
func NewController() *Controller {
	return &Controller{Calls: make(chan *Call, 4096), files: map[int]*File{}, Closes: map[int]int{}}
}

// File looks up a handle by id.
func (c *Controller) File(id int) *File {
	c.mu.Lock()
	defer c.mu.Unlock()
	return c.files[id]
}

// Files returns a snapshot of all handles.
func (c *Controller) Files() map[int]*File {
	c.mu.Lock()
	defer c.mu.Unlock()
	m := make(map[int]*File, len(c.files))
	for k, v := range c.files {
		m[k] = v
	}
	return m
}

// AutoID hands out handle ids for controllers that do not script them.
// CloseCounts returns a copy of the Close calls entered per handle.
func (c *Controller) CloseCounts() map[int]int {
	c.mu.Lock()
	defer c.mu.Unlock()
	m := make(map[int]int, len(c.Closes))
	for k, v := range c.Closes {
		m[k] = v
	}
	return m
}

// UACs returns a copy of the use-after-close list.
func (c *Controller) UACs() []string {
	c.mu.Lock()
	defer c.mu.Unlock()
	return append([]string{}, c.UAC...)
}

func (c *Controller) AutoID() int { return int(atomic.AddInt64(&c.nextID, 1)) }

func (c *Controller) newFile(id int, mode string, path []string) *File {
	f := &File{C: c, ID: id, Mode: mode, path: append([]string{}, path...)}
	c.mu.Lock()
	if id != 0 {
		c.files[id] = f
	}
	c.mu.Unlock()
	return f
}

// goid returns the current goroutine's id (from the stack header).
func goid() int64 {
	var buf [64]byte
	n := runtime.Stack(buf[:], false)
	// "goroutine 123 [running]:"
	var id int64
	for _, ch := range buf[10:n] {
		if ch < '0' || ch > '9' {
			break
		}
		id = id*10 + int64(ch-'0')
	}
	return id
}

func (c *Controller) do(call *Call) Result {
	call.G = goid()
	call.Seq = atomic.AddInt64(&c.seq, 1)
	call.Reply = make(chan Result, 1)
	c.Calls <- call
	r := <-call.Reply
	if r.Barrier != nil {
		// released together with other calls (see Auto.ReleaseTogether): spin, so that every
		// caller is running on a processor of its own when the flag flips
		for atomic.LoadInt32(r.Barrier) == 0 {
		}
	}
	if r.Res == "panic" {
		panic(fmt.Sprintf("puppet: injected panic in %s on file %d", call.K, call.F))
	}
	return r
}

func resErr(r Result) error {
	switch r.Res {
	case "ok", "":
		return nil
	case "raw":
		return r.Err
	}
	n, ok := Errnos[r.Res]
	if !ok {
		panic("puppet: unknown result " + r.Res)
	}
	return linux.Errno(n)
}

// Attacher is the p9.Attacher.
type Attacher struct{ C *Controller }

// Attach implements p9.Attacher.
func (a *Attacher) Attach() (p9.File, error) {
	r := a.C.do(&Call{K: "Attach"})
	if err := resErr(r); err != nil {
		return nil, err
	}
	mode := r.Mode
	if mode == "" {
		mode = "dir"
	}
	return a.C.newFile(r.NF, mode, nil), nil
}

// File is a puppet p9.File.
type File struct {
	C    *Controller
	ID   int
	Mode string

	mu     sync.Mutex
	path   []string // where the backend believes it lives
	closed int32
}

// Path returns the believed path.
func (f *File) Path() []string {
	f.mu.Lock()
	defer f.mu.Unlock()
	return append([]string{}, f.path...)
}

// ModeBits converts a type name to FileMode type bits.
func ModeBits(m string) p9.FileMode {
	switch m {
	case "dir":
		return p9.ModeDirectory
	case "reg":
		return p9.ModeRegular
	case "sym":
		return p9.ModeSymlink
	case "sock":
		return p9.ModeSocket
	case "fifo":
		return p9.ModeNamedPipe
	case "chr":
		return p9.ModeCharacterDevice
	case "blk":
		return p9.ModeBlockDevice
	}
	return 0
}

func (f *File) qid() p9.QID {
	return p9.QID{Type: ModeBits(f.Mode).QIDType(), Path: uint64(f.ID)}
}

func (f *File) call(c *Call) Result {
	c.F = f.ID
	if atomic.LoadInt32(&f.closed) != 0 {
		c.AfterClose = true
		f.C.mu.Lock()
		f.C.UAC = append(f.C.UAC, fmt.Sprintf("%s on closed file %d", c.K, f.ID))
		f.C.mu.Unlock()
	}
	return f.C.do(c)
}

func id(x p9.File) int {
	if pf, ok := x.(*File); ok && pf != nil {
		return pf.ID
	}
	return -1
}

func (f *File) noteArg(x p9.File, k string) {
	if pf, ok := x.(*File); ok && pf != nil && atomic.LoadInt32(&pf.closed) != 0 {
		f.C.mu.Lock()
		f.C.UAC = append(f.C.UAC, fmt.Sprintf("%s with closed file %d as argument", k, pf.ID))
		f.C.mu.Unlock()
	}
}

// Walk implements p9.File.
func (f *File) Walk(names []string) ([]p9.QID, p9.File, error) {
	r := f.call(&Call{K: "Walk", Names: append([]string{}, names...), Args: map[string]any{"names": append([]string{}, names...), "nil": names == nil}})
	if err := resErr(r); err != nil {
		return nil, nil, err
	}
	return f.walked(names, r)
}

func (f *File) walked(names []string, r Result) ([]p9.QID, p9.File, error) {
	mode := r.Mode
	if mode == "" {
		mode = f.Mode
	}
	nf := f.C.newFile(r.NF, mode, append(f.Path(), names...))
	nq := len(names)
	if v, ok := r.Vals["nqids"]; ok {
		nq = v.(int)
	}
	qids := make([]p9.QID, nq)
	for i := range qids {
		qids[i] = nf.qid()
	}
	if v, ok := r.Vals["qids"]; ok {
		qids = v.([]p9.QID)
	}
	return qids, nf, nil
}

func (f *File) attr() (p9.QID, p9.AttrMask, p9.Attr) {
	return f.qid(), p9.AttrMask{Mode: true, INo: true, Size: true}, p9.Attr{Mode: ModeBits(f.Mode) | 0o644, Size: 7}
}

// WalkGetAttr implements p9.File.
func (f *File) WalkGetAttr(names []string) ([]p9.QID, p9.File, p9.AttrMask, p9.Attr, error) {
	r := f.call(&Call{K: "WalkGetAttr", Names: append([]string{}, names...), Args: map[string]any{"names": append([]string{}, names...)}})
	if err := resErr(r); err != nil {
		return nil, nil, p9.AttrMask{}, p9.Attr{}, err
	}
	q, nf, _ := f.walked(names, r)
	_, m, a := nf.(*File).attr()
	return q, nf, m, a, nil
}

// StatFS implements p9.File.
func (f *File) StatFS() (p9.FSStat, error) {
	r := f.call(&Call{K: "StatFS"})
	if v, ok := r.Vals["fsstat"]; ok {
		return v.(p9.FSStat), resErr(r)
	}
	return p9.FSStat{Type: 0x01021997, BlockSize: 4096, NameLength: 255}, resErr(r)
}

// GetAttr implements p9.File.
func (f *File) GetAttr(req p9.AttrMask) (p9.QID, p9.AttrMask, p9.Attr, error) {
	r := f.call(&Call{K: "GetAttr", Args: map[string]any{"mask": req}})
	if err := resErr(r); err != nil {
		return p9.QID{}, p9.AttrMask{}, p9.Attr{}, err
	}
	q, m, a := f.attr()
	if v, ok := r.Vals["qid"]; ok {
		q = v.(p9.QID)
	}
	if v, ok := r.Vals["valid"]; ok {
		m = v.(p9.AttrMask)
	}
	if v, ok := r.Vals["attr"]; ok {
		a = v.(p9.Attr)
	}
	return q, m, a, nil
}

// SetAttr implements p9.File.
func (f *File) SetAttr(valid p9.SetAttrMask, attr p9.SetAttr) error {
	return resErr(f.call(&Call{K: "SetAttr", Args: map[string]any{"valid": valid, "attr": attr}}))
}

// Close implements p9.File.
func (f *File) Close() error {
	// The handle counts as closed from the moment Close is entered.
	n := atomic.AddInt32(&f.closed, 1)
	f.C.mu.Lock()
	f.C.Closes[f.ID]++
	if n > 1 {
		f.C.UAC = append(f.C.UAC, fmt.Sprintf("Close on closed file %d", f.ID))
	}
	f.C.mu.Unlock()
	c := &Call{K: "Close", F: f.ID, AfterClose: n > 1}
	defer func() {
		// A Close that panics never finished closing: later calls on the
		// handle are not held against the server as use after close.
		if p := recover(); p != nil {
			atomic.StoreInt32(&f.closed, 0)
			f.C.mu.Lock()
			if f.C.ClosePanicked == nil {
				f.C.ClosePanicked = map[int]bool{}
			}
			f.C.ClosePanicked[f.ID] = true
			f.C.mu.Unlock()
			panic(p)
		}
	}()
	return resErr(f.C.do(c))
}

// Open implements p9.File.
func (f *File) Open(mode p9.OpenFlags) (p9.QID, uint32, error) {
	r := f.call(&Call{K: "Open", Args: map[string]any{"flags": mode}})
	if err := resErr(r); err != nil {
		return p9.QID{}, 0, err
	}
	q := f.qid()
	iou := uint32(0)
	if v, ok := r.Vals["qid"]; ok {
		q = v.(p9.QID)
	}
	if v, ok := r.Vals["iounit"]; ok {
		iou = v.(uint32)
	}
	return q, iou, nil
}

// ReadAt implements p9.File. The controller may fill Call.Buf before
// answering; N is the count returned.
func (f *File) ReadAt(p []byte, offset int64) (int, error) {
	r := f.call(&Call{K: "ReadAt", Buf: p, Args: map[string]any{"len": len(p), "offset": offset}})
	return r.N, resErr(r)
}

// WriteAt implements p9.File.
func (f *File) WriteAt(p []byte, offset int64) (int, error) {
	r := f.call(&Call{K: "WriteAt", Args: map[string]any{"data": append([]byte{}, p...), "offset": offset}})
	n := r.N
	if v, ok := r.Vals["all"]; ok && v.(bool) {
		n = len(p)
	}
	return n, resErr(r)
}

// SetXattr implements p9.File.
func (f *File) SetXattr(attr string, data []byte, flags p9.XattrFlags) error {
	return resErr(f.call(&Call{K: "SetXattr", Args: map[string]any{"name": attr, "data": append([]byte{}, data...), "flags": flags}}))
}

// GetXattr implements p9.File.
func (f *File) GetXattr(attr string) ([]byte, error) {
	r := f.call(&Call{K: "GetXattr", Args: map[string]any{"name": attr}})
	if err := resErr(r); err != nil {
		return nil, err
	}
	if v, ok := r.Vals["data"]; ok {
		return v.([]byte), nil
	}
	b := make([]byte, r.N)
	for i := range b {
		b[i] = byte('x' + i%3)
	}
	return b, nil
}

// ListXattrs implements p9.File.
func (f *File) ListXattrs() ([]string, error) {
	r := f.call(&Call{K: "ListXattrs"})
	if err := resErr(r); err != nil {
		return nil, err
	}
	if v, ok := r.Vals["names"]; ok {
		return v.([]string), nil
	}
	// N is the length of the joined, NUL-terminated list the server builds.
	if r.N <= 1 {
		return nil, nil
	}
	b := make([]byte, r.N-1)
	for i := range b {
		b[i] = 'u'
	}
	return []string{string(b)}, nil
}

// RemoveXattr implements p9.File.
func (f *File) RemoveXattr(attr string) error {
	return resErr(f.call(&Call{K: "RemoveXattr", Args: map[string]any{"name": attr}}))
}

// FSync implements p9.File.
func (f *File) FSync() error { return resErr(f.call(&Call{K: "FSync"})) }

// Lock implements p9.File.
func (f *File) Lock(pid int, locktype p9.LockType, flags p9.LockFlags, start, length uint64, client string) (p9.LockStatus, error) {
	r := f.call(&Call{K: "Lock", Args: map[string]any{"pid": pid, "type": locktype, "flags": flags, "start": start, "length": length, "client": client}})
	st := p9.LockStatusOK
	if v, ok := r.Vals["status"]; ok {
		st = v.(p9.LockStatus)
	}
	return st, resErr(r)
}

// Create implements p9.File.
func (f *File) Create(name string, flags p9.OpenFlags, permissions p9.FileMode, uid p9.UID, gid p9.GID) (p9.File, p9.QID, uint32, error) {
	r := f.call(&Call{K: "Create", Names: []string{name}, Args: map[string]any{"name": name, "flags": flags, "perm": permissions, "uid": uid, "gid": gid}})
	if err := resErr(r); err != nil {
		return nil, p9.QID{}, 0, err
	}
	nf := f.C.newFile(r.NF, "reg", append(f.Path(), name))
	q := nf.qid()
	iou := uint32(0)
	if v, ok := r.Vals["qid"]; ok {
		q = v.(p9.QID)
	}
	if v, ok := r.Vals["iounit"]; ok {
		iou = v.(uint32)
	}
	return nf, q, iou, nil
}

func (f *File) mkres(r Result) (p9.QID, error) {
	if err := resErr(r); err != nil {
		return p9.QID{}, err
	}
	if v, ok := r.Vals["qid"]; ok {
		return v.(p9.QID), nil
	}
	return p9.QID{Path: 9999}, nil
}

// Mkdir implements p9.File.
func (f *File) Mkdir(name string, permissions p9.FileMode, uid p9.UID, gid p9.GID) (p9.QID, error) {
	return f.mkres(f.call(&Call{K: "Mkdir", Names: []string{name}, Args: map[string]any{"name": name, "perm": permissions, "uid": uid, "gid": gid}}))
}

// Symlink implements p9.File.
func (f *File) Symlink(oldName string, newName string, uid p9.UID, gid p9.GID) (p9.QID, error) {
	return f.mkres(f.call(&Call{K: "Symlink", Names: []string{newName}, Args: map[string]any{"target": oldName, "name": newName, "uid": uid, "gid": gid}}))
}

// Link implements p9.File.
func (f *File) Link(target p9.File, newName string) error {
	f.noteArg(target, "Link")
	return resErr(f.call(&Call{K: "Link", Names: []string{newName}, F2: id(target), Args: map[string]any{"name": newName}}))
}

// Mknod implements p9.File.
func (f *File) Mknod(name string, mode p9.FileMode, major uint32, minor uint32, uid p9.UID, gid p9.GID) (p9.QID, error) {
	return f.mkres(f.call(&Call{K: "Mknod", Names: []string{name}, Args: map[string]any{"name": name, "mode": mode, "major": major, "minor": minor, "uid": uid, "gid": gid}}))
}

// Rename implements p9.File; the server never calls it.
func (f *File) Rename(newDir p9.File, newName string) error {
	return resErr(f.call(&Call{K: "Rename", Names: []string{newName}, F2: id(newDir)}))
}

// RenameAt implements p9.File.
func (f *File) RenameAt(oldName string, newDir p9.File, newName string) error {
	f.noteArg(newDir, "RenameAt")
	return resErr(f.call(&Call{K: "RenameAt", Names: []string{oldName, newName}, F2: id(newDir), Args: map[string]any{"oldname": oldName, "newname": newName}}))
}

// UnlinkAt implements p9.File.
func (f *File) UnlinkAt(name string, flags uint32) error {
	return resErr(f.call(&Call{K: "UnlinkAt", Names: []string{name}, Args: map[string]any{"name": name, "flags": flags}}))
}

// Readdir implements p9.File.
func (f *File) Readdir(offset uint64, count uint32) (p9.Dirents, error) {
	r := f.call(&Call{K: "Readdir", Args: map[string]any{"offset": offset, "count": count}})
	if err := resErr(r); err != nil {
		return nil, err
	}
	if v, ok := r.Vals["entries"]; ok {
		return v.(p9.Dirents), nil
	}
	return nil, nil
}

// Readlink implements p9.File.
func (f *File) Readlink() (string, error) {
	r := f.call(&Call{K: "Readlink"})
	if err := resErr(r); err != nil {
		return "", err
	}
	if v, ok := r.Vals["target"]; ok {
		return v.(string), nil
	}
	return "tgt", nil
}

// Renamed implements p9.File: the backend's belief about its location changes
// here and only here.
func (f *File) Renamed(newDir p9.File, newName string) {
	f.noteArg(newDir, "Renamed")
	r := f.call(&Call{K: "Renamed", Names: []string{newName}, F2: id(newDir)})
	_ = r
	if pd, ok := newDir.(*File); ok && pd != nil {
		np := append(pd.Path(), newName)
		f.mu.Lock()
		f.path = np
		f.mu.Unlock()
	}
}
