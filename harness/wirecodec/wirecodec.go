// Package wirecodec is the reference 9P2000.L codec of the verification
// harness. It contains no message knowledge of its own: it interprets the
// layout table exported by TLC from spec/Wire.tla (layout.json).
//
// Values are generic: integers are uint64, strings are string (arbitrary
// bytes), "strs" is []string, "qid"/"attr"/"setattr"/"fsstat" are
// map[string]any of their fields, "qids" is []map[string]any, "attrmask" and
// "setattrmask" are []string (sorted bit names) , "data" is []byte and
// "dirents" is []map[string]any.
package wirecodec

import (
	"encoding/binary"
	"encoding/json"
	"errors"
	"fmt"
	"os"
	"sort"
)

// Field is one (name, kind) pair of a layout.
type Field struct {
	Name string
	Kind string
}

// UnmarshalJSON decodes ["name","kind"].
func (f *Field) UnmarshalJSON(b []byte) error {
	var a []string
	if err := json.Unmarshal(b, &a); err != nil {
		return err
	}
	if len(a) != 2 {
		return fmt.Errorf("field wants 2 elements, got %d", len(a))
	}
	f.Name, f.Kind = a[0], a[1]
	return nil
}

// Msg is the layout of one message type.
type Msg struct {
	ID      uint8   `json:"id"`
	F       []Field `json:"f"`
	MinV    int     `json:"minv"`
	MinBody int     `json:"minbody"`
}

// Table is the exported layout table.
type Table struct {
	Layout       map[string]Msg     `json:"layout"`
	Struct       map[string][]Field `json:"struct"`
	AttrMask     []string           `json:"attrmask"`
	SetAttrMask  []string           `json:"setattrmask"`
	LargestFixed int                `json:"largestfixed"`
	byID         map[uint8]string
}

// Load reads layout.json.
func Load(path string) (*Table, error) {
	b, err := os.ReadFile(path)
	if err != nil {
		return nil, err
	}
	t := &Table{}
	if err := json.Unmarshal(b, t); err != nil {
		return nil, err
	}
	t.byID = map[uint8]string{}
	for n, m := range t.Layout {
		t.byID[m.ID] = n
	}
	return t, nil
}

// MustLoad loads the table from $VERIF_LAYOUT or panics.
func MustLoad() *Table {
	p := os.Getenv("VERIF_LAYOUT")
	if p == "" {
		panic("VERIF_LAYOUT not set")
	}
	t, err := Load(p)
	if err != nil {
		panic(err)
	}
	return t
}

// NameOf returns the type name for a type byte ("" if unknown).
func (t *Table) NameOf(id uint8) string { return t.byID[id] }

// Values is a decoded message body.
type Values = map[string]any

// Frame is a decoded frame.
type Frame struct {
	Size uint32
	Type uint8
	Name string
	Tag  uint16
	V    Values
}

const permMask = 0o7777

func u(v any) uint64 {
	switch x := v.(type) {
	case nil:
		return 0
	case uint64:
		return x
	case int:
		return uint64(x)
	case int64:
		return uint64(x)
	case uint32:
		return uint64(x)
	case uint16:
		return uint64(x)
	case uint8:
		return uint64(x)
	case float64:
		return uint64(x)
	case json.Number:
		n, _ := x.Int64()
		return uint64(n)
	}
	panic(fmt.Sprintf("wirecodec: not an integer: %T %v", v, v))
}

// U extracts an integer field.
func U(v Values, name string) uint64 { return u(v[name]) }

func str(v any) string {
	switch x := v.(type) {
	case nil:
		return ""
	case string:
		return x
	case []byte:
		return string(x)
	}
	panic(fmt.Sprintf("wirecodec: not a string: %T", v))
}

func (t *Table) encStruct(b []byte, name string, v any) []byte {
	m, _ := v.(Values)
	for _, f := range t.Struct[name] {
		var fv any
		if m != nil {
			fv = m[f.Name]
		}
		b = t.encField(b, f.Kind, fv)
	}
	return b
}

func encStr(b []byte, s string) []byte {
	b = binary.LittleEndian.AppendUint16(b, uint16(len(s)))
	return append(b, s...)
}

func maskBits(names []string, v any) uint64 {
	var set []string
	switch x := v.(type) {
	case nil:
	case []string:
		set = x
	case []any:
		for _, e := range x {
			set = append(set, e.(string))
		}
	case uint64:
		return x
	default:
		panic(fmt.Sprintf("wirecodec: bad mask %T", v))
	}
	var m uint64
	for _, s := range set {
		found := false
		for i, n := range names {
			if n == s {
				m |= 1 << uint(i)
				found = true
			}
		}
		if !found {
			panic("wirecodec: unknown mask bit " + s)
		}
	}
	return m
}

func bitsMask(names []string, m uint64) []string {
	out := []string{}
	for i, n := range names {
		if m&(1<<uint(i)) != 0 {
			out = append(out, n)
		}
	}
	sort.Strings(out)
	return out
}

func (t *Table) encField(b []byte, kind string, v any) []byte {
	switch kind {
	case "u8":
		return append(b, uint8(u(v)))
	case "u16":
		return binary.LittleEndian.AppendUint16(b, uint16(u(v)))
	case "u32":
		return binary.LittleEndian.AppendUint32(b, uint32(u(v)))
	case "perm":
		return binary.LittleEndian.AppendUint32(b, uint32(u(v))&permMask)
	case "u64":
		return binary.LittleEndian.AppendUint64(b, u(v))
	case "str":
		return encStr(b, str(v))
	case "strs":
		var l []string
		switch x := v.(type) {
		case nil:
		case []string:
			l = x
		case []any:
			for _, e := range x {
				l = append(l, str(e))
			}
		}
		b = binary.LittleEndian.AppendUint16(b, uint16(len(l)))
		for _, s := range l {
			b = encStr(b, s)
		}
		return b
	case "qid", "attr", "setattr", "fsstat":
		return t.encStruct(b, kind, v)
	case "qids":
		var l []Values
		switch x := v.(type) {
		case nil:
		case []Values:
			l = x
		case []any:
			for _, e := range x {
				l = append(l, e.(Values))
			}
		}
		b = binary.LittleEndian.AppendUint16(b, uint16(len(l)))
		for _, q := range l {
			b = t.encStruct(b, "qid", q)
		}
		return b
	case "attrmask":
		return binary.LittleEndian.AppendUint64(b, maskBits(t.AttrMask, v))
	case "setattrmask":
		return binary.LittleEndian.AppendUint32(b, uint32(maskBits(t.SetAttrMask, v)))
	case "data":
		var d []byte
		switch x := v.(type) {
		case nil:
		case []byte:
			d = x
		case string:
			d = []byte(x)
		}
		b = binary.LittleEndian.AppendUint32(b, uint32(len(d)))
		return append(b, d...)
	case "dirents":
		var l []Values
		switch x := v.(type) {
		case nil:
		case []Values:
			l = x
		case []any:
			for _, e := range x {
				l = append(l, e.(Values))
			}
		}
		var body []byte
		for _, d := range l {
			body = t.encStruct(body, "dirent", d)
		}
		b = binary.LittleEndian.AppendUint32(b, uint32(len(body)))
		return append(b, body...)
	}
	panic("wirecodec: unknown kind " + kind)
}

// EncodeBody encodes the body of a message.
func (t *Table) EncodeBody(name string, v Values) []byte {
	m, ok := t.Layout[name]
	if !ok {
		panic("wirecodec: unknown message " + name)
	}
	var b []byte
	for _, f := range m.F {
		b = t.encField(b, f.Kind, v[f.Name])
	}
	return b
}

// Encode builds a whole frame: size[4] type[1] tag[2] body.
func (t *Table) Encode(name string, tag uint16, v Values) []byte {
	body := t.EncodeBody(name, v)
	b := make([]byte, 0, 7+len(body))
	b = binary.LittleEndian.AppendUint32(b, uint32(7+len(body)))
	b = append(b, t.Layout[name].ID)
	b = binary.LittleEndian.AppendUint16(b, tag)
	return append(b, body...)
}

// ErrShort is returned when a body ends before its layout does.
var ErrShort = errors.New("wirecodec: body too short")

// ErrTrailing is returned when bytes remain after the layout is complete.
var ErrTrailing = errors.New("wirecodec: trailing bytes")

type rd struct {
	b   []byte
	err error
}

func (r *rd) take(n int) []byte {
	if r.err != nil {
		return make([]byte, n)
	}
	if len(r.b) < n {
		r.err = ErrShort
		return make([]byte, n)
	}
	x := r.b[:n]
	r.b = r.b[n:]
	return x
}

func (t *Table) decStruct(r *rd, name string) Values {
	v := Values{}
	for _, f := range t.Struct[name] {
		v[f.Name] = t.decField(r, f.Kind)
	}
	return v
}

func (r *rd) str() string {
	n := int(binary.LittleEndian.Uint16(r.take(2)))
	if r.err != nil {
		return ""
	}
	if len(r.b) < n {
		r.err = ErrShort
		return ""
	}
	return string(r.take(n))
}

func (t *Table) decField(r *rd, kind string) any {
	switch kind {
	case "u8":
		return uint64(r.take(1)[0])
	case "u16":
		return uint64(binary.LittleEndian.Uint16(r.take(2)))
	case "u32":
		return uint64(binary.LittleEndian.Uint32(r.take(4)))
	case "perm":
		return uint64(binary.LittleEndian.Uint32(r.take(4)))
	case "u64":
		return binary.LittleEndian.Uint64(r.take(8))
	case "str":
		return r.str()
	case "strs":
		n := int(binary.LittleEndian.Uint16(r.take(2)))
		l := []string{}
		for i := 0; i < n && r.err == nil; i++ {
			l = append(l, r.str())
		}
		return l
	case "qid", "attr", "setattr", "fsstat":
		return t.decStruct(r, kind)
	case "qids":
		n := int(binary.LittleEndian.Uint16(r.take(2)))
		l := []Values{}
		for i := 0; i < n && r.err == nil; i++ {
			l = append(l, t.decStruct(r, "qid"))
		}
		return l
	case "attrmask":
		return bitsMask(t.AttrMask, binary.LittleEndian.Uint64(r.take(8)))
	case "setattrmask":
		return bitsMask(t.SetAttrMask, uint64(binary.LittleEndian.Uint32(r.take(4))))
	case "data":
		n := int(binary.LittleEndian.Uint32(r.take(4)))
		if r.err != nil {
			return []byte{}
		}
		if len(r.b) < n {
			r.err = ErrShort
			return []byte{}
		}
		return append([]byte{}, r.take(n)...)
	case "dirents":
		n := int(binary.LittleEndian.Uint32(r.take(4)))
		if r.err != nil {
			return []Values{}
		}
		if len(r.b) < n {
			r.err = ErrShort
			return []Values{}
		}
		sub := &rd{b: r.take(n)}
		l := []Values{}
		for len(sub.b) > 0 && sub.err == nil {
			l = append(l, t.decStruct(sub, "dirent"))
		}
		if sub.err != nil {
			r.err = sub.err
		}
		return l
	}
	panic("wirecodec: unknown kind " + kind)
}

// DecodeBody decodes a body according to the layout of name.
func (t *Table) DecodeBody(name string, body []byte) (Values, error) {
	m, ok := t.Layout[name]
	if !ok {
		return nil, fmt.Errorf("wirecodec: unknown message %q", name)
	}
	r := &rd{b: body}
	v := Values{}
	for _, f := range m.F {
		v[f.Name] = t.decField(r, f.Kind)
	}
	if r.err != nil {
		return v, r.err
	}
	if len(r.b) != 0 {
		return v, ErrTrailing
	}
	return v, nil
}

// Decode decodes one whole frame (exactly len(b) bytes).
func (t *Table) Decode(b []byte) (*Frame, error) {
	if len(b) < 7 {
		return nil, ErrShort
	}
	f := &Frame{
		Size: binary.LittleEndian.Uint32(b[0:4]),
		Type: b[4],
		Tag:  binary.LittleEndian.Uint16(b[5:7]),
	}
	if int(f.Size) != len(b) {
		return f, fmt.Errorf("wirecodec: size field %d, frame has %d bytes", f.Size, len(b))
	}
	f.Name = t.NameOf(f.Type)
	if f.Name == "" {
		return f, fmt.Errorf("wirecodec: unknown type %d", f.Type)
	}
	v, err := t.DecodeBody(f.Name, b[7:])
	f.V = v
	return f, err
}
