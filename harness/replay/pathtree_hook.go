//go:build verif

package replay

import "github.com/hugelgupf/p9/p9"

// HaveTreeHook reports whether the path-tree snapshot hook is compiled in.
const HaveTreeHook = true

func snapshotTree(s *p9.Server) *TreeNode {
	return conv(p9.VerifPathTree(s))
}

func conv(n *p9.VerifPathNode) *TreeNode {
	t := &TreeNode{Deleted: n.Deleted, Kids: map[string]*TreeNode{}, Refs: map[string]int{}, names: n.Names}
	for k, c := range n.Kids {
		t.Kids[k] = conv(c)
	}
	for k, c := range n.Refs {
		t.Refs[k] = c
	}
	return t
}
