//go:build !verif

package replay

import "github.com/hugelgupf/p9/p9"

// HaveTreeHook reports whether the path-tree snapshot hook is compiled in.
const HaveTreeHook = false

func snapshotTree(s *p9.Server) *TreeNode { return nil }
