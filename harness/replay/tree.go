package replay

import (
	"encoding/json"
	"fmt"
	"sort"
)

// TreeNode is a node of the path tree (model side: from Session.tla's
// TreeSnap; implementation side: from the verif snapshot hook).
type TreeNode struct {
	Deleted bool
	Kids    map[string]*TreeNode
	Refs    map[string]int
	names   int
}

// UnmarshalJSON accepts TLC's rendering: a function with an empty domain is
// written as [] rather than {}.
func (t *TreeNode) UnmarshalJSON(b []byte) error {
	var raw struct {
		Deleted bool            `json:"deleted"`
		Kids    json.RawMessage `json:"kids"`
		Refs    json.RawMessage `json:"refs"`
	}
	if len(b) > 0 && b[0] == '[' { // <<>>: no tree recorded
		return nil
	}
	if err := json.Unmarshal(b, &raw); err != nil {
		return err
	}
	t.Deleted = raw.Deleted
	t.Kids = map[string]*TreeNode{}
	t.Refs = map[string]int{}
	if len(raw.Kids) > 0 && raw.Kids[0] == '{' {
		if err := json.Unmarshal(raw.Kids, &t.Kids); err != nil {
			return err
		}
	}
	if len(raw.Refs) > 0 && raw.Refs[0] == '{' {
		if err := json.Unmarshal(raw.Refs, &t.Refs); err != nil {
			return err
		}
	}
	t.names = -1
	return nil
}

// diffTree returns "" if the implementation's tree equals the model's.
func diffTree(path string, model, impl *TreeNode) string {
	if model.Deleted != impl.Deleted {
		return fmt.Sprintf("node %q: deleted=%v in the server, %v in the model", path, impl.Deleted, model.Deleted)
	}
	mk := map[string]bool{}
	for k := range model.Kids {
		mk[Concretise(k)] = true
	}
	var names []string
	for k := range impl.Kids {
		names = append(names, k)
		if !mk[k] {
			return fmt.Sprintf("node %q: the server has a child node %q the model does not have", path, short(k))
		}
	}
	sort.Strings(names)
	for k, c := range model.Kids {
		ic, ok := impl.Kids[Concretise(k)]
		if !ok {
			return fmt.Sprintf("node %q: the server lacks child node %q", path, short(k))
		}
		if d := diffTree(path+"/"+short(k), c, ic); d != "" {
			return d
		}
	}
	sum := 0
	for k, n := range model.Refs {
		sum += n
		if impl.Refs[Concretise(k)] != n {
			return fmt.Sprintf("node %q: %d references registered under %q in the server, %d in the model", path, impl.Refs[Concretise(k)], short(k), n)
		}
	}
	for k, n := range impl.Refs {
		found := false
		for mk := range model.Refs {
			if Concretise(mk) == k {
				found = true
			}
		}
		if !found {
			return fmt.Sprintf("node %q: %d references registered under %q in the server, none in the model", path, n, short(k))
		}
	}
	if impl.names >= 0 && impl.names != sum {
		return fmt.Sprintf("node %q: reverse name map has %d entries, forward map %d", path, impl.names, sum)
	}
	return ""
}

func short(s string) string {
	if len(s) > 12 {
		return s[:12] + "..."
	}
	return s
}
