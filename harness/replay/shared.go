package replay

import (
	"fmt"
	"io"
	"runtime"
	"strings"
	"sync"
	"time"

	"github.com/hugelgupf/p9/p9"

	"verifharness/peer"
	"verifharness/puppet"
	"verifharness/wirecodec"
)

// Shared lets several runs (clients) replay their histories concurrently
// against ONE server: every client has its own fid numbers, tags, file ids and
// names (disjoint subtrees below the shared root), so each must observe exactly
// what its own history predicts (C16 isolation).
type Shared struct {
	Ctl *puppet.Controller
	Srv *p9.Server
	opt Options

	mu          sync.Mutex
	routes      map[int]chan *puppet.Call
	attachOwner int
	attachMu    sync.Mutex
	conns       []*sharedConn
	stop        chan struct{}
	tearing     bool
	// Stray counts calls that could not be attributed to any client.
	Stray []string
}

type sharedConn struct {
	raw    *peer.Raw
	done   chan struct{}
	mu     sync.Mutex
	routes map[int]chan []byte // client -> frames
}

const (
	fileStride = 1000
	fidStride  = 10
	tagStride  = 1000
)

// NewShared starts a server with nconn negotiated connections.
func NewShared(opt Options, nconn int) (*Shared, error) {
	s := &Shared{Ctl: puppet.NewController(), opt: opt, routes: map[int]chan *puppet.Call{}, stop: make(chan struct{})}
	s.Srv = p9.NewServer(&puppet.Attacher{C: s.Ctl})
	for i := 0; i < nconn; i++ {
		sc := &sharedConn{raw: peer.NewRaw(opt.Table), done: make(chan struct{}), routes: map[int]chan []byte{}}
		t, w := sc.raw.ServerEnds()
		if opt.Perturb > 0 {
			w = &pausingWriter{w}
		}
		go func() { s.Srv.Handle(t, w); close(sc.done) }()
		sc.raw.Send("Tversion", 0xFFFE, wirecodec.Values{"msize": 1 << 20, "version": "9P2000.L.Google.7"})
		b, ok, to := sc.raw.FR.Next(5 * time.Second)
		if to || !ok {
			return nil, fmt.Errorf("no Rversion")
		}
		if f, err := opt.Table.Decode(b); err != nil || f.Name != "Rversion" {
			return nil, fmt.Errorf("negotiation failed: %v", err)
		}
		s.conns = append(s.conns, sc)
		go sc.demux()
	}
	go s.dispatch()
	return s, nil
}

func (sc *sharedConn) demux() {
	for b := range sc.raw.FR.C {
		if len(b) < 7 {
			continue
		}
		tag := int(b[5]) | int(b[6])<<8
		sc.mu.Lock()
		ch := sc.routes[tag/tagStride]
		sc.mu.Unlock()
		if ch != nil {
			ch <- b
		}
	}
	sc.mu.Lock()
	for _, ch := range sc.routes {
		close(ch)
	}
	sc.routes = map[int]chan []byte{}
	sc.mu.Unlock()
}

func (s *Shared) setAttachOwner(k int) {
	s.mu.Lock()
	s.attachOwner = k
	s.mu.Unlock()
}

func (s *Shared) dispatch() {
	for {
		select {
		case <-s.stop:
			return
		case c := <-s.Ctl.Calls:
			s.mu.Lock()
			owner := c.F / fileStride
			if c.F == 0 {
				owner = s.attachOwner
			}
			ch := s.routes[owner]
			if ch == nil && !s.tearing {
				s.Stray = append(s.Stray, fmt.Sprintf("%s on file %d", c.K, c.F))
			}
			s.mu.Unlock()
			if ch != nil {
				ch <- c
			} else {
				c.Reply <- puppet.Result{Res: "ok"}
			}
		}
	}
}

func suffixName(n string, k int) string {
	if n == "" || n == "." || n == ".." || strings.Contains(n, "/") {
		return n // unsafe names stay what they are
	}
	return fmt.Sprintf("%s_%d", n, k)
}

func suffixAll(ns []string, k int) []string {
	out := make([]string, len(ns))
	for i, n := range ns {
		out[i] = suffixName(n, k)
	}
	return out
}

func offID(x, off int) int {
	if x <= 0 {
		return x
	}
	return x + off
}

// Relabel gives client k its own fids, file ids and names.
func Relabel(h *History, k int) *History {
	out := &History{}
	conv := func(in []Step) []Step {
		res := make([]Step, len(in))
		for i, st := range in {
			n := st
			n.Req.Fid = offID(st.Req.Fid, k*fidStride)
			n.Req.NewFid = offID(st.Req.NewFid, k*fidStride)
			n.Req.Fid2 = offID(st.Req.Fid2, k*fidStride)
			n.Req.Names = suffixAll(st.Req.Names, k)
			n.Req.Name = suffixName(st.Req.Name, k)
			n.Req.Name2 = suffixName(st.Req.Name2, k)
			if st.Req.AName != "" {
				parts := strings.Split(st.Req.AName, "/")
				for j, p := range parts {
					if p != "" && p != "." && p != ".." {
						parts[j] = fmt.Sprintf("%s_%d", p, k)
					}
				}
				n.Req.AName = strings.Join(parts, "/")
			}
			n.Calls = make([]ExpCall, len(st.Calls))
			for j, c := range st.Calls {
				c.F = offID(c.F, k*fileStride)
				c.F2 = offID(c.F2, k*fileStride)
				c.NF = offID(c.NF, k*fileStride)
				c.Names = suffixAll(c.Names, k)
				n.Calls[j] = c
			}
			n.Closes = make([]int, len(st.Closes))
			for j, c := range st.Closes {
				n.Closes[j] = offID(c, k*fileStride)
			}
			n.Paths = make([][]string, len(st.Paths))
			for j, p := range st.Paths {
				n.Paths[j] = suffixAll(p, k)
			}
			n.Tree = nil
			res[i] = n
		}
		return res
	}
	out.H = conv(h.H)
	out.P = conv(h.P)
	return out
}

func (r *Run) idOff() int {
	if r.shared == nil {
		return 0
	}
	return r.client * fileStride
}

// fill is the byte a client's reads are filled with.
func (r *Run) fill() byte { return byte('A' + r.client%26) }

// RunClient replays a (relabelled) history as client k on connection ci of a
// shared server. The connection stays up; lifecycle is judged by Teardown.
func (s *Shared) RunClient(k, ci int, hist *History) []*Mismatch {
	r := &Run{opt: s.opt, ctl: s.Ctl, srv: s.Srv, conns: map[int]*conn{}, shared: s, client: k}
	r.calls = make(chan *puppet.Call, 256)
	r.rnd = uint64(k)*7919 + 1
	s.mu.Lock()
	s.routes[k] = r.calls
	s.mu.Unlock()
	sc := s.conns[ci%len(s.conns)]
	frames := make(chan []byte, 256)
	sc.mu.Lock()
	sc.routes[k] = frames
	sc.mu.Unlock()
	cn := &conn{raw: sc.raw, frames: frames, done: sc.done, up: true, shared: true}
	r.conns[1] = cn
	r.tag = uint16(k * tagStride)
	for i := range hist.H {
		st := &hist.H[i]
		if st.Req.T == "Disconnect" {
			break
		}
		st.C = 1
		if mm := r.DoStep(i, st); mm != nil {
			if mm.Prop == "*" || mm.Tag == "hang" {
				mm.Prop = "C16"
			}
			r.drain(cn, 100*time.Millisecond)
			return append(r.Soft, mm)
		}
	}
	for i := range hist.P {
		st := &hist.P[i]
		st.C = 1
		if mm := r.DoStep(len(hist.H)+i, st); mm != nil {
			mm.Tag = "probe-" + mm.Tag
			r.drain(cn, 100*time.Millisecond)
			return append(r.Soft, mm)
		}
	}
	return r.Soft
}

// Teardown ends all connections, answers the remaining Close calls and checks
// that Handle returns and every File was closed exactly once.
func (s *Shared) Teardown() []*Mismatch {
	var out []*Mismatch
	// from now on every call is answered ok by a catch-all route
	s.mu.Lock()
	s.routes = map[int]chan *puppet.Call{}
	s.tearing = true
	s.mu.Unlock()
	for _, sc := range s.conns {
		sc.raw.Hangup()
	}
	for _, sc := range s.conns {
		select {
		case <-sc.done:
		case <-time.After(5 * time.Second):
			out = append(out, &Mismatch{Tag: "handle-not-returning", Prop: "C16,C05", Detail: "Server.Handle did not return after end of stream (shared server)"})
		}
	}
	close(s.stop)
	if len(s.Ctl.UAC) > 0 {
		out = append(out, &Mismatch{Tag: "use-after-close", Prop: "C05,C16", Detail: strings.Join(s.Ctl.UAC, "; ")})
	}
	for id := range s.Ctl.Files() {
		if n := s.Ctl.Closes[id]; n != 1 {
			out = append(out, &Mismatch{Tag: "close-count", Prop: "C05,C16", Detail: fmt.Sprintf("file %d closed %d times by the end of the shared session", id, n)})
			break
		}
	}
	return out
}

// pausingWriter yields inside a frame (after the 7-byte header): transport-side
// scheduling perturbation.
type pausingWriter struct{ w io.WriteCloser }

func (p *pausingWriter) Write(b []byte) (int, error) {
	n, err := p.w.Write(b)
	if len(b) == 7 {
		runtime.Gosched()
		time.Sleep(20 * time.Microsecond)
	}
	return n, err
}

func (p *pausingWriter) Close() error { return p.w.Close() }
