// Package peer provides in-memory transports and a raw 9P peer that talks
// frames (encoded/decoded by wirecodec) to a real p9.Server or p9.Client.
package peer

import (
	"encoding/binary"
	"errors"
	"io"
	"sync"
	"time"

	"verifharness/wirecodec"
)

// Pipe is a unidirectional in-memory byte stream with an unbounded buffer:
// Write never blocks, Read blocks until data, EOF (CloseWrite) or Close.
type Pipe struct {
	mu     sync.Mutex
	cond   *sync.Cond
	buf    []byte
	wclose bool // writer closed: reader sees EOF after draining
	rclose bool // reader closed: writes fail
	// counters
	NRead    int64 // bytes handed to the reader
	ReadReqs int64 // Read calls
}

// NewPipe returns an empty pipe.
func NewPipe() *Pipe {
	p := &Pipe{}
	p.cond = sync.NewCond(&p.mu)
	return p
}

// ErrClosedPipe is returned by Write after the read side was closed.
var ErrClosedPipe = errors.New("peer: write on closed pipe")

// Write appends to the buffer.
func (p *Pipe) Write(b []byte) (int, error) {
	p.mu.Lock()
	defer p.mu.Unlock()
	if p.rclose || p.wclose {
		return 0, ErrClosedPipe
	}
	p.buf = append(p.buf, b...)
	p.cond.Broadcast()
	return len(b), nil
}

// Read blocks for data.
func (p *Pipe) Read(b []byte) (int, error) {
	p.mu.Lock()
	defer p.mu.Unlock()
	p.ReadReqs++
	for len(p.buf) == 0 {
		if p.rclose {
			return 0, io.ErrClosedPipe
		}
		if p.wclose {
			return 0, io.EOF
		}
		p.cond.Wait()
	}
	n := copy(b, p.buf)
	p.buf = p.buf[n:]
	p.NRead += int64(n)
	return n, nil
}

// CloseWrite signals end of stream to the reader.
func (p *Pipe) CloseWrite() {
	p.mu.Lock()
	p.wclose = true
	p.cond.Broadcast()
	p.mu.Unlock()
}

// CloseRead makes pending and future reads and writes fail.
func (p *Pipe) CloseRead() {
	p.mu.Lock()
	p.rclose = true
	p.cond.Broadcast()
	p.mu.Unlock()
}

// Buffered returns the number of unread bytes.
func (p *Pipe) Buffered() int {
	p.mu.Lock()
	defer p.mu.Unlock()
	return len(p.buf)
}

// ReadEnd adapts the read side to io.ReadCloser.
type ReadEnd struct{ P *Pipe }

func (r ReadEnd) Read(b []byte) (int, error) { return r.P.Read(b) }

// Close closes the read side.
func (r ReadEnd) Close() error { r.P.CloseRead(); return nil }

// WriteEnd adapts the write side to io.WriteCloser.
type WriteEnd struct{ P *Pipe }

func (w WriteEnd) Write(b []byte) (int, error) { return w.P.Write(b) }

// Close closes the write side (EOF for the reader).
func (w WriteEnd) Close() error { w.P.CloseWrite(); return nil }

// Duplex is an io.ReadWriteCloser made of two pipes.
type Duplex struct {
	R *Pipe
	W *Pipe
}

func (d *Duplex) Read(b []byte) (int, error)  { return d.R.Read(b) }
func (d *Duplex) Write(b []byte) (int, error) { return d.W.Write(b) }

// Close closes both directions.
func (d *Duplex) Close() error {
	d.R.CloseRead()
	d.W.CloseWrite()
	return nil
}

// NewDuplexPair returns two connected endpoints.
func NewDuplexPair() (*Duplex, *Duplex) {
	a, b := NewPipe(), NewPipe()
	return &Duplex{R: a, W: b}, &Duplex{R: b, W: a}
}

// FrameReader splits a byte stream into frames on a goroutine and delivers
// them (raw bytes) on C. It closes C at end of stream.
type FrameReader struct {
	C   chan []byte
	Err error
}

// NewFrameReader starts reading frames from r.
func NewFrameReader(r io.Reader) *FrameReader {
	fr := &FrameReader{C: make(chan []byte, 1024)}
	go func() {
		defer close(fr.C)
		for {
			var hdr [4]byte
			if _, err := io.ReadFull(r, hdr[:]); err != nil {
				fr.Err = err
				return
			}
			size := binary.LittleEndian.Uint32(hdr[:])
			if size < 7 || size > 64<<20 {
				fr.Err = errors.New("peer: bad frame size from implementation")
				b := make([]byte, 4)
				copy(b, hdr[:])
				fr.C <- b
				return
			}
			b := make([]byte, size)
			copy(b, hdr[:])
			if _, err := io.ReadFull(r, b[4:]); err != nil {
				fr.Err = err
				return
			}
			fr.C <- b
		}
	}()
	return fr
}

// Next waits for the next frame; ok=false on end of stream, timeout=true
// when nothing arrived within d.
func (fr *FrameReader) Next(d time.Duration) (b []byte, ok bool, timeout bool) {
	select {
	case b, ok := <-fr.C:
		return b, ok, false
	case <-time.After(d):
		return nil, false, true
	}
}

// Raw is a raw peer of a p9.Server: it owns the client ends of two pipes.
type Raw struct {
	T   *wirecodec.Table
	ToS *Pipe // peer -> server
	FrS *Pipe // server -> peer
	FR  *FrameReader
}

// NewRaw creates the pipes; pass ServerEnds() to Server.Handle.
func NewRaw(t *wirecodec.Table) *Raw {
	r := &Raw{T: t, ToS: NewPipe(), FrS: NewPipe()}
	r.FR = NewFrameReader(ReadEnd{r.FrS})
	return r
}

// ServerEnds returns the (t, r) arguments of Server.Handle.
func (r *Raw) ServerEnds() (io.ReadCloser, io.WriteCloser) {
	return ReadEnd{r.ToS}, WriteEnd{r.FrS}
}

// Send writes one encoded message.
func (r *Raw) Send(name string, tag uint16, v wirecodec.Values) error {
	_, err := r.ToS.Write(r.T.Encode(name, tag, v))
	return err
}

// SendBytes writes raw bytes.
func (r *Raw) SendBytes(b []byte) error {
	_, err := r.ToS.Write(b)
	return err
}

// Hangup ends the peer->server stream (the server sees EOF).
func (r *Raw) Hangup() { r.ToS.CloseWrite() }
