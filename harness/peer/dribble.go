package peer

import (
	"encoding/binary"
	"io"
	"net"
	"os"
	"syscall"
	"time"
	"unsafe"
)

// Dribble is a pair of connected unix stream sockets whose bytes travel
// through a frame-aware relay: every 9P frame is forwarded as its 7-byte
// header, then a short piece that ends a few bytes into the payload, then the
// rest in two pieces, and after each piece the relay waits until the
// receiver has taken it out of its socket. The receiver therefore sees the
// partial recvmsg results that a slow network produces (the vectored receive
// path of vecnet on Linux), on real socket connections (syscall.Conn).
// A correct receiver is indifferent to the segmentation.
type Dribble struct {
	A, B  net.Conn
	files []*os.File
	conns []net.Conn
}

func fionread(fd int) int {
	var n int32
	syscall.Syscall(syscall.SYS_IOCTL, uintptr(fd), 0x541B, uintptr(unsafe.Pointer(&n)))
	return int(n)
}

func sockpair() (x, y net.Conn, fx, fy *os.File, err error) {
	// (the raw descriptor numbers are used for FIONREAD: os.File.Fd() would switch the shared
	// open file description to blocking mode)
	fds, err := syscall.Socketpair(syscall.AF_UNIX, syscall.SOCK_STREAM, 0)
	if err != nil {
		return nil, nil, nil, nil, err
	}
	lastFds = fds
	fx = os.NewFile(uintptr(fds[0]), "x")
	fy = os.NewFile(uintptr(fds[1]), "y")
	x, err = net.FileConn(fx)
	if err != nil {
		return nil, nil, nil, nil, err
	}
	y, err = net.FileConn(fy)
	if err != nil {
		return nil, nil, nil, nil, err
	}
	return x, y, fx, fy, nil
}

var lastFds [2]int

// firstPieces: lengths of the piece that follows the header, cycled per frame.
var firstPieces = []int{5, 9, 17, 21, 120, 4, 16, 700}

func relay(from, to net.Conn, rcvfd int) {
	defer func() {
		if c, ok := to.(*net.UnixConn); ok {
			c.CloseWrite()
		}
	}()
	put := func(b []byte) bool {
		if len(b) == 0 {
			return true
		}
		if _, err := to.Write(b); err != nil {
			return false
		}
		dl := time.Now().Add(2 * time.Second)
		for fionread(rcvfd) > 0 && time.Now().Before(dl) {
			time.Sleep(20 * time.Microsecond)
		}
		time.Sleep(30 * time.Microsecond)
		return true
	}
	hdr := make([]byte, 4)
	for k := 0; ; k++ {
		if _, err := io.ReadFull(from, hdr); err != nil {
			return
		}
		size := int(binary.LittleEndian.Uint32(hdr))
		if size < 7 || size > 16<<20 {
			// not a frame: pass the bytes on as they are
			put(hdr)
			io.Copy(to, from)
			return
		}
		frame := make([]byte, size)
		copy(frame, hdr)
		if _, err := io.ReadFull(from, frame[4:]); err != nil {
			put(frame[:4])
			return
		}
		cuts := []int{7, 7 + firstPieces[k%len(firstPieces)]}
		pos := 0
		for _, c := range cuts {
			if c >= size {
				break
			}
			if !put(frame[pos:c]) {
				return
			}
			pos = c
		}
		if rest := size - pos; rest > 64 {
			mid := pos + rest/2 + k%3
			if !put(frame[pos:mid]) {
				return
			}
			pos = mid
		}
		if !put(frame[pos:]) {
			return
		}
	}
}

// NewDribble builds the two socket pairs and starts the relays.
func NewDribble() (*Dribble, error) {
	a, ra, fa, fra, err := sockpair()
	if err != nil {
		return nil, err
	}
	afd := lastFds[0]
	rb, b, frb, fb, err := sockpair()
	if err != nil {
		return nil, err
	}
	bfd := lastFds[1]
	d := &Dribble{A: a, B: b, files: []*os.File{fa, fra, frb, fb}, conns: []net.Conn{a, ra, rb, b}}
	go relay(ra, rb, bfd)
	go relay(rb, ra, afd)
	return d, nil
}

// Close closes both ends and the relay's sockets.
func (d *Dribble) Close() {
	for _, c := range d.conns {
		c.Close()
	}
	for _, f := range d.files {
		f.Close()
	}
}
