// Command pairs forces pairs of requests to rendezvous inside the backend of a
// real p9.Server (binding B4 of DESIGN.md): request A is held inside one of
// its backend calls, request B is issued (other fid on the same path, parent,
// child, sibling, other connection) and the driver observes whether B reaches
// the backend while A is still inside. The cells and their plan descriptors
// follow spec/PathLocks.tla; the expected outcome is the may-overlap matrix
// TLC derives from it, and the recorded enter/exit log is validated by TLC
// against spec/Trace_Overlap.tla.
package main

import (
	"encoding/json"
	"flag"
	"fmt"
	"os"
	"time"

	"github.com/hugelgupf/p9/p9"

	"verifharness/peer"
	"verifharness/puppet"
	"verifharness/wirecodec"
)

// Op is a concrete request bound to a plan instance of PathLocks.tla.
type Op struct {
	Name string `json:"op"`   // concrete request
	P    string `json:"p"`    // plan
	N    int    `json:"n"`    // node
	E    int    `json:"e"`    // entry / child node
	K    string `json:"k"`    // model call kind the cell is about (A: where it is held; B: first call)
	Hold string `json:"hold"` // backend method at which A is held
	Idx  int    `json:"holdidx"` // which occurrence of that method (1 = first)
	I    int    `json:"i"`       // step index of the call in the plan (PathLocks.tla)
}

// Cell is one experiment.
type Cell struct {
	ID    int  `json:"id"`
	A     Op   `json:"a"`
	B     Op   `json:"b"`
	Cross bool `json:"cross"` // B on a second connection
	Racy  bool `json:"racy"`  // the two fids are created by walks that return from the backend together
	// SameFid: request B names the fid of request A (same connection)
	SameFid bool `json:"samefid"`
	// Triple: three requests - a rename of a/fs onto a/ft held inside RenameAt, then Tunlinkat(a, "ft")
	// and a Tread through a fid on a/fs, both queued behind it; when the rename returns, the unlink of
	// the entry and the read of that entry must still exclude each other (the unlink has to lock the
	// path node the entry has AFTER the rename)
	Triple bool `json:"triple"`
}

// Result of a cell.
type Result struct {
	ID      int    `json:"id"`
	AHeld   bool   `json:"a_held"`
	Overlap bool   `json:"overlap"`
	BFirst  string `json:"b_first"` // backend method B entered first
	ARep    string `json:"a_reply"`
	BRep    string `json:"b_reply"`
	Hang    bool   `json:"hang"`
	Err     string `json:"err,omitempty"`
	EvFrom  int    `json:"ev_from"`
	EvTo    int    `json:"ev_to"`
}

var nodePath = map[int][]string{1: {}, 2: {"a"}, 3: {"a", "b"}, 4: {"c"}}
var nodeName = map[int]string{2: "a", 3: "b", 4: "c"}

type session struct {
	t    *wirecodec.Table
	raw  *peer.Raw
	done chan struct{}
	tag  uint16
}

func (s *session) call(name string, v wirecodec.Values) (*wirecodec.Frame, error) {
	s.tag++
	if err := s.raw.Send(name, s.tag, v); err != nil {
		return nil, err
	}
	b, ok, to := s.raw.FR.Next(5 * time.Second)
	if to || !ok {
		return nil, fmt.Errorf("setup: no reply to %s", name)
	}
	f, err := s.t.Decode(b)
	if err != nil {
		return nil, err
	}
	if f.Name == "Rlerror" {
		return f, fmt.Errorf("setup: %s -> Rlerror %d", name, wirecodec.U(f.V, "ecode"))
	}
	return f, nil
}

func newSession(t *wirecodec.Table, srv *p9.Server) (*session, error) {
	s := &session{t: t, raw: peer.NewRaw(t), done: make(chan struct{}), tag: 100}
	r, w := s.raw.ServerEnds()
	go func() { srv.Handle(r, w); close(s.done) }()
	if _, err := s.call("Tversion", wirecodec.Values{"msize": 65536, "version": "9P2000.L.Google.7"}); err != nil {
		return nil, err
	}
	if _, err := s.call("Tattach", wirecodec.Values{"fid": 1, "afid": uint64(0xFFFFFFFF), "uname": "u", "aname": "", "n_uname": uint64(0xFFFFFFFF)}); err != nil {
		return nil, err
	}
	return s, nil
}

// prepare creates the fid an op needs (fid base+0 on its node) and returns the request to send later.
func prepare(s *session, op Op, base int, walked bool) (string, wirecodec.Values, error) {
	fid := base
	names := nodePath[op.N]
	if op.P != "attach" && !walked {
		if _, err := s.call("Twalk", wirecodec.Values{"fid": 1, "newfid": fid, "names": names}); err != nil {
			return "", nil, err
		}
	}
	open := func() error {
		_, err := s.call("Tlopen", wirecodec.Values{"fid": fid, "flags": 0})
		return err
	}
	switch op.Name {
	case "getattr":
		return "Tgetattr", wirecodec.Values{"fid": fid, "request_mask": []string{"mode"}}, nil
	case "lopen":
		return "Tlopen", wirecodec.Values{"fid": fid, "flags": 0}, nil
	case "xlopen":
		// Tlopen of a fid made by Txattrwalk: it shares the File of the fid it was walked from and must
		// never reach File.Open (refused with EINVAL)
		if _, err := s.call("Txattrwalk", wirecodec.Values{"fid": fid, "newfid": base + 5, "name": "user.x"}); err != nil {
			return "", nil, err
		}
		return "Tlopen", wirecodec.Values{"fid": base + 5, "flags": 0}, nil
	case "read":
		return "Tread", wirecodec.Values{"fid": fid, "offset": 0, "count": 5}, open()
	case "readdir":
		return "Treaddir", wirecodec.Values{"fid": fid, "offset": 0, "count": 100}, open()
	case "fsync":
		return "Tfsync", wirecodec.Values{"fid": fid}, open()
	case "xattrwalk":
		return "Txattrwalk", wirecodec.Values{"fid": fid, "newfid": base + 5, "name": "user.x"}, nil
	case "setattr":
		return "Tsetattr", wirecodec.Values{"fid": fid, "valid": []string{"size"}}, nil
	case "mkdir":
		return "Tmkdir", wirecodec.Values{"dfid": fid, "name": "new", "mode": 0o755, "gid": 0}, nil
	case "create":
		return "Tlcreate", wirecodec.Values{"fid": fid, "name": "fnew", "flags": 1, "mode": 0o644, "gid": 0}, nil
	case "symlink":
		return "Tsymlink", wirecodec.Values{"dfid": fid, "name": "lnew", "target": "t", "gid": 0}, nil
	case "mknod":
		return "Tmknod", wirecodec.Values{"dfid": fid, "name": "fnod", "mode": 0o644, "major": 1, "minor": 2, "gid": 0}, nil
	case "link":
		// the link's target is a fid of its own on a file outside the cell's nodes: Tlink is a write-class
		// call on the DIRECTORY (with directory and target the same fid, locking either looks alike)
		if _, err := s.call("Twalk", wirecodec.Values{"fid": 1, "newfid": base + 6, "names": []string{"flinktarget"}}); err != nil {
			return "", nil, err
		}
		return "Tlink", wirecodec.Values{"dfid": fid, "fid": base + 6, "name": "hl"}, nil
	case "unlinkat":
		return "Tunlinkat", wirecodec.Values{"dirfd": fid, "name": nodeName[op.E], "flags": 0}, nil
	case "walk":
		return "Twalk", wirecodec.Values{"fid": fid, "newfid": base + 5, "names": []string{nodeName[op.E]}}, nil
	case "walkgetattr":
		return "Twalkgetattr", wirecodec.Values{"fid": fid, "newfid": base + 5, "names": []string{nodeName[op.E]}}, nil
	case "walk2":
		return "Twalk", wirecodec.Values{"fid": fid, "newfid": base + 5, "names": []string{"a", "b"}}, nil
	case "clone":
		return "Twalk", wirecodec.Values{"fid": fid, "newfid": base + 5, "names": []string{}}, nil
	case "renameat":
		return "Trenameat", wirecodec.Values{"olddirfid": fid, "oldname": "x", "newdirfid": fid, "newname": "y"}, nil
	case "rename":
		// rename the fid's own entry inside its parent; needs a fid on the parent
		if _, err := s.call("Twalk", wirecodec.Values{"fid": 1, "newfid": base + 6, "names": nodePath[op.N][:len(nodePath[op.N])-1]}); err != nil {
			return "", nil, err
		}
		return "Trename", wirecodec.Values{"fid": fid, "dfid": base + 6, "name": "renamed"}, nil
	case "remove":
		return "Tremove", wirecodec.Values{"fid": fid}, nil
	case "statfs":
		return "Tstatfs", wirecodec.Values{"fid": fid}, nil
	case "lock":
		return "Tlock", wirecodec.Values{"fid": fid, "type": 1, "flags": 0, "start": 0, "length": 1, "proc_id": 1, "client_id": "c"}, nil
	case "attach":
		return "Tattach", wirecodec.Values{"fid": base + 7, "afid": uint64(0xFFFFFFFF), "uname": "u", "aname": "", "n_uname": uint64(0xFFFFFFFF)}, nil
	}
	return "", nil, fmt.Errorf("unknown op %q", op.Name)
}

func runTriple(t *wirecodec.Table, c Cell, wait time.Duration, evlog *[]map[string]any) Result {
	res := Result{ID: c.ID}
	auto := puppet.NewAuto()
	defer auto.Stop()
	srv := p9.NewServer(&puppet.Attacher{C: auto.C})
	s1, err := newSession(t, srv)
	if err != nil {
		res.Err = err.Error()
		return res
	}
	for _, st := range []struct {
		n string
		v wirecodec.Values
	}{
		{"Twalk", wirecodec.Values{"fid": 1, "newfid": 10, "names": []string{"a"}}},
		{"Twalk", wirecodec.Values{"fid": 1, "newfid": 11, "names": []string{"a", "fs"}}},
		{"Tlopen", wirecodec.Values{"fid": 11, "flags": 0}},
	} {
		if _, err := s1.call(st.n, st.v); err != nil {
			res.Err = "triple setup: " + err.Error()
			return res
		}
	}
	setupEvents := len(auto.Events())
	auto.SetGate(func(call *puppet.Call) bool { return call.K == "RenameAt" })
	s1.tag++
	tA := s1.tag
	s1.raw.Send("Trenameat", tA, wirecodec.Values{"olddirfid": 10, "oldname": "fs", "newdirfid": 10, "newname": "ft"})
	select {
	case <-auto.Notify:
		res.AHeld = true
	case <-time.After(3 * time.Second):
		res.Err = "triple: the rename never reached RenameAt"
		return res
	}
	// B and C queue behind the rename
	s1.tag++
	tB := s1.tag
	s1.raw.Send("Tunlinkat", tB, wirecodec.Values{"dirfd": 10, "name": "ft", "flags": 0})
	time.Sleep(10 * time.Millisecond)
	s1.tag++
	tC := s1.tag
	s1.raw.Send("Tread", tC, wirecodec.Values{"fid": 11, "offset": 0, "count": 5})
	time.Sleep(20 * time.Millisecond)
	// everything that enters the backend from now on stays inside; let the rename return
	auto.SetGate(func(call *puppet.Call) bool { return call.K == "UnlinkAt" || call.K == "ReadAt" })
	auto.Release(func(call *puppet.Call) bool { return call.K == "RenameAt" })
	inside := 0
	deadline := time.After(wait + 100*time.Millisecond)
wait:
	for {
		select {
		case call := <-auto.Notify:
			inside++
			res.BFirst += call.K + " "
		case <-deadline:
			break wait
		}
	}
	res.Overlap = inside >= 2
	auto.SetGate(nil)
	auto.Release(nil)
	got := map[uint16]string{}
	dl := time.After(3 * time.Second)
loop:
	for len(got) < 3 {
		select {
		case b, ok := <-s1.raw.FR.C:
			if !ok {
				break loop
			}
			if f, err := t.Decode(b); err == nil {
				got[f.Tag] = f.Name
			}
		case <-dl:
			break loop
		}
	}
	res.ARep, res.BRep = got[tA], got[tB]
	res.Hang = len(got) < 3
	s1.raw.Hangup()
	select {
	case <-s1.done:
	case <-time.After(2 * time.Second):
		res.Hang = true
	}
	evs := auto.Events()
	res.EvFrom = len(*evlog) + 1
	*evlog = append(*evlog, map[string]any{"ev": "reset", "cell": c.ID})
	for _, e := range evs[setupEvents:] {
		entry := ""
		if e.K == "UnlinkAt" && len(e.Names) > 0 {
			entry = e.Names[0]
		}
		path := e.Path
		if path == nil {
			path = []string{}
		}
		req := map[string]string{"RenameAt": "renameat", "Renamed": "renameat", "UnlinkAt": "unlinkat", "ReadAt": "read"}[e.K]
		*evlog = append(*evlog, map[string]any{"ev": e.Ev, "cell": c.ID, "call": e.Call, "k": e.K, "file": e.F,
			"path": path, "entry": entry, "nonames": len(e.Names) == 0, "req": req})
	}
	res.EvTo = len(*evlog)
	return res
}

func runCell(t *wirecodec.Table, c Cell, wait time.Duration, evlog *[]map[string]any) Result {
	if c.Triple {
		return runTriple(t, c, wait, evlog)
	}
	res := Result{ID: c.ID}
	auto := puppet.NewAuto()
	defer auto.Stop()
	srv := p9.NewServer(&puppet.Attacher{C: auto.C})
	s1, err := newSession(t, srv)
	if err != nil {
		res.Err = err.Error()
		return res
	}
	sB := s1
	if c.Cross {
		if sB, err = newSession(t, srv); err != nil {
			res.Err = err.Error()
			return res
		}
	}
	if c.Racy {
		// both setup walks are held at their first walk-time GetAttr and released together
		if len(nodePath[c.A.N]) > 1 {
			// intermediate components exist in the tree already; the race is for the last one
			if _, err := s1.call("Twalk", wirecodec.Values{"fid": 1, "newfid": 9, "names": nodePath[c.A.N][:1]}); err != nil {
				res.Err = "racy setup: " + err.Error()
				return res
			}
		}
		seen := 0
		auto.SetGate(func(call *puppet.Call) bool {
			if call.K != "GetAttr" {
				return false
			}
			seen++
			return seen <= 2
		})
		s1.tag++
		t1 := s1.tag
		s1.raw.Send("Twalk", t1, wirecodec.Values{"fid": 1, "newfid": 10, "names": nodePath[c.A.N]})
		sB.tag++
		t2 := sB.tag
		sB.raw.Send("Twalk", t2, wirecodec.Values{"fid": 1, "newfid": 20, "names": nodePath[c.B.N]})
		deadline := time.Now().Add(3 * time.Second)
		for len(auto.Held()) < 2 && time.Now().Before(deadline) {
			time.Sleep(200 * time.Microsecond)
		}
		if len(auto.Held()) < 2 {
			res.Err = "racy setup: the two walks did not meet"
			return res
		}
		auto.SetGate(nil)
		auto.ReleaseTogether()
	drain:
		for {
			select {
			case <-auto.Notify:
			default:
				break drain
			}
		}
		for _, x := range []struct {
			s *session
			t uint16
		}{{s1, t1}, {sB, t2}} {
			for {
				b, ok, to := x.s.raw.FR.Next(3 * time.Second)
				if to || !ok {
					res.Err = "racy setup: no Rwalk"
					return res
				}
				f, err := t.Decode(b)
				if err != nil || f.Name == "Rlerror" {
					res.Err = "racy setup: walk failed"
					return res
				}
				if f.Tag == x.t || !c.Cross {
					break
				}
			}
		}
	}
	aName, aVals, err := prepare(s1, c.A, 10, c.Racy)
	if err != nil {
		res.Err = "prepare A: " + err.Error()
		return res
	}
	bBase, bWalked := 20, c.Racy
	if c.SameFid {
		bBase, bWalked = 10, true
	}
	bName, bVals, err := prepare(sB, c.B, bBase, bWalked)
	if err != nil {
		res.Err = "prepare B: " + err.Error()
		return res
	}
	setupEvents := len(auto.Events())
	// Phase 1: A runs until its hold point.
	phase := 1
	seenHold := 0
	auto.SetGate(func(call *puppet.Call) bool {
		if call.K == "WalkGetAttr" && phase == 1 {
			return false // answered ENOSYS at once; the plans start at Walk
		}
		if phase == 1 {
			if call.K == c.A.Hold {
				seenHold++
				return seenHold >= c.A.Idx
			}
			return false
		}
		return true // phase 2: everything B does stays inside
	})
	s1.tag++
	aTag := s1.tag
	s1.raw.Send(aName, aTag, aVals)
	var gA int64
	select {
	case call := <-auto.Notify:
		res.AHeld = true
		gA = call.G
	case <-time.After(3 * time.Second):
		res.Err = "A never reached " + c.A.Hold
		return res
	}
	// Phase 2: B.
	auto.SetGate(func(call *puppet.Call) bool { return true })
	phase = 2
	sB.tag++
	bTag := sB.tag
	sB.raw.Send(bName, bTag, bVals)
	select {
	case call := <-auto.Notify:
		res.Overlap = true
		res.BFirst = call.K
	case <-time.After(wait):
	}
	// Release everything and collect both replies.
	auto.SetGate(nil)
	auto.Release(nil)
	get := func(s *session, tag uint16) (string, bool) {
		deadline := time.After(3 * time.Second)
		for {
			select {
			case b, ok := <-s.raw.FR.C:
				if !ok {
					return "closed", false
				}
				f, err := t.Decode(b)
				if err != nil {
					return "garbage", false
				}
				if f.Tag == tag {
					return f.Name, true
				}
			case <-deadline:
				return "", false
			}
		}
	}
	var okA, okB bool
	if c.Cross {
		res.ARep, okA = get(s1, aTag)
		res.BRep, okB = get(sB, bTag)
	} else {
		// both on one connection, any order
		got := map[uint16]string{}
		deadline := time.After(3 * time.Second)
	loop:
		for len(got) < 2 {
			select {
			case b, ok := <-s1.raw.FR.C:
				if !ok {
					break loop
				}
				if f, err := t.Decode(b); err == nil {
					got[f.Tag] = f.Name
				}
			case <-deadline:
				break loop
			}
		}
		res.ARep, okA = got[aTag], got[aTag] != ""
		res.BRep, okB = got[bTag], got[bTag] != ""
	}
	res.Hang = !okA || !okB
	s1.raw.Hangup()
	if c.Cross {
		sB.raw.Hangup()
	}
	select {
	case <-s1.done:
	case <-time.After(2 * time.Second):
		res.Hang = true
	}
	// event log of the two requests (setup excluded)
	evs := auto.Events()
	res.EvFrom = len(*evlog) + 1
	*evlog = append(*evlog, map[string]any{"ev": "reset", "cell": c.ID})
	for _, e := range evs[setupEvents:] {
		req := c.B.Name
		if e.G == gA {
			req = c.A.Name
		}
		entry := ""
		if e.K == "UnlinkAt" && len(e.Names) > 0 {
			entry = e.Names[0]
		}
		path := e.Path
		if path == nil {
			path = []string{}
		}
		*evlog = append(*evlog, map[string]any{"ev": e.Ev, "cell": c.ID, "call": e.Call, "k": e.K, "file": e.F,
			"path": path, "entry": entry, "nonames": len(e.Names) == 0, "req": req})
	}
	res.EvTo = len(*evlog)
	return res
}

func main() {
	in := flag.String("in", "", "cells json")
	out := flag.String("out", "", "results json")
	trace := flag.String("trace", "", "event log ndjson")
	shard := flag.Int("shard", 0, "")
	nshard := flag.Int("nshard", 1, "")
	wait := flag.Duration("wait", 120*time.Millisecond, "how long B may take to reach the backend")
	flag.Parse()
	b, err := os.ReadFile(*in)
	if err != nil {
		fmt.Fprintln(os.Stderr, err)
		os.Exit(2)
	}
	var cells []Cell
	if err := json.Unmarshal(b, &cells); err != nil {
		fmt.Fprintln(os.Stderr, err)
		os.Exit(2)
	}
	t := wirecodec.MustLoad()
	var results []Result
	var evlog []map[string]any
	for i, c := range cells {
		if i%*nshard != *shard {
			continue
		}
		results = append(results, runCell(t, c, *wait, &evlog))
	}
	ob, _ := json.Marshal(results)
	if err := os.WriteFile(*out, ob, 0o644); err != nil {
		fmt.Fprintln(os.Stderr, err)
		os.Exit(2)
	}
	if *trace != "" {
		f, err := os.Create(*trace)
		if err != nil {
			fmt.Fprintln(os.Stderr, err)
			os.Exit(2)
		}
		enc := json.NewEncoder(f)
		for _, e := range evlog {
			enc.Encode(e)
		}
		f.Close()
	}
}
