// Command listing replays the cases enumerated by TLC from spec/Readdir.tla
// against the real file systems: localfs (temporary directories), staticfs and
// composefs (mounts, nested), directly on the p9.File and through a real
// client/server pair. A directory is listed by repeated Readdir calls, each
// starting at the Offset of the last entry received, with the byte count of
// every call chosen so that exactly fitseq[i] whole entries fit. The listing
// must return every entry exactly once, and each entry's QID and type must
// equal what Walk + GetAttr report.
package main

import (
	"bufio"
	"encoding/json"
	"flag"
	"fmt"
	"os"
	"path/filepath"
	"sort"
	"strings"

	"github.com/hugelgupf/p9/fsimpl/composefs"
	"github.com/hugelgupf/p9/fsimpl/localfs"
	"github.com/hugelgupf/p9/fsimpl/staticfs"
	"github.com/hugelgupf/p9/p9"

	"verifharness/peer"
)

type vec struct {
	N       int    `json:"n"`
	Backend string `json:"backend"`
	FitSeq  []int  `json:"fitseq"`
}

type out struct {
	Cases    int      `json:"cases"`
	Listings int      `json:"listings"`
	Entries  int      `json:"entries"`
	Findings []string `json:"findings"`
	Samples  []any    `json:"samples"`
}

func names(n, l int) []string {
	out := make([]string, n)
	for i := range out {
		s := fmt.Sprintf("%05d", i)
		if l < len(s) {
			s = s[len(s)-l:]
			if n > pow10(l) {
				s = fmt.Sprintf("%05d", i)
			}
		}
		out[i] = "e" + s + strings.Repeat("x", max(0, l-len(s)-1))
	}
	return out
}

func pow10(k int) int {
	r := 1
	for i := 0; i < k; i++ {
		r *= 10
	}
	return r
}

// list pages through dir (already opened) and returns the entries.
func list(dir p9.File, fit []int, entrySize int, viaServer bool) (p9.Dirents, []string) {
	var all p9.Dirents
	var problems []string
	off := uint64(0)
	for call := 0; call < 100000; call++ {
		k := fit[call%len(fit)]
		var count uint32
		if viaServer {
			if k >= 99 {
				count = 1 << 20
			} else {
				count = uint32(k*entrySize + entrySize/2)
			}
		} else {
			count = uint32(k)
			if k >= 99 {
				count = 1 << 20
			}
		}
		page, err := dir.Readdir(off, count)
		if err != nil {
			problems = append(problems, fmt.Sprintf("Readdir(%d, %d): %v", off, count, err))
			return all, problems
		}
		if len(page) == 0 {
			return all, problems
		}
		if viaServer {
			sz := 0
			for _, d := range page {
				sz += 24 + len(d.Name)
			}
			if sz > int(count) {
				problems = append(problems, fmt.Sprintf("page of %d bytes for count %d", sz, count))
			}
			if k < 99 && len(page) != k && len(all)+len(page) < cap(all)+1<<30 {
				// fewer is only right at the end of the directory (checked by completeness)
			}
		}
		for _, d := range page {
			if d.Offset <= off {
				problems = append(problems, fmt.Sprintf("entry %q has Offset %d, not beyond the previous %d", d.Name, d.Offset, off))
				return all, problems
			}
			off = d.Offset
		}
		all = append(all, page...)
	}
	problems = append(problems, "listing does not terminate")
	return all, problems
}

func checkListing(desc string, dir p9.File, parent p9.File, want []string, fit []int, entrySize int, viaServer bool, o *out) {
	o.Listings++
	ents, problems := list(dir, fit, entrySize, viaServer)
	o.Entries += len(ents)
	if len(problems) > 0 {
		o.Findings = append(o.Findings, desc+": "+problems[0])
		return
	}
	got := map[string]int{}
	for _, d := range ents {
		got[d.Name]++
	}
	for _, w := range want {
		if got[w] != 1 {
			o.Findings = append(o.Findings, fmt.Sprintf("%s: entry %q listed %d times (%d of %d entries returned)", desc, w, got[w], len(ents), len(want)))
			return
		}
	}
	if len(ents) != len(want) {
		o.Findings = append(o.Findings, fmt.Sprintf("%s: %d entries returned, the directory has %d", desc, len(ents), len(want)))
		return
	}
	// QID / type agreement with Walk + GetAttr (sampled for big directories)
	step := 1
	if len(ents) > 60 {
		step = len(ents) / 40
	}
	for i := 0; i < len(ents); i += step {
		d := ents[i]
		qids, f, err := parent.Walk([]string{d.Name})
		if err != nil || len(qids) != 1 {
			o.Findings = append(o.Findings, fmt.Sprintf("%s: Walk(%q): %v", desc, d.Name, err))
			return
		}
		q2, _, attr, err := f.GetAttr(p9.AttrMask{Mode: true})
		f.Close()
		if err != nil {
			o.Findings = append(o.Findings, fmt.Sprintf("%s: GetAttr(%q): %v", desc, d.Name, err))
			return
		}
		if d.QID != qids[0] || d.QID != q2 || d.Type != d.QID.Type || d.QID.Type != attr.Mode.QIDType() {
			o.Findings = append(o.Findings, fmt.Sprintf("%s: entry %q (position %d) listed with QID %+v type %#x; Walk says %+v, GetAttr %+v, mode type %#x", desc, d.Name, i, d.QID, d.Type, qids[0], q2, attr.Mode.QIDType()))
			return
		}
	}
}

// open a directory of the file system for listing, directly and through a client/server pair
func withFS(att p9.Attacher, path []string, fn func(dir, parent p9.File, viaServer bool)) error {
	for _, via := range []bool{false, true} {
		var root p9.File
		var cleanup func()
		if via {
			a, b := peer.NewDuplexPair()
			srv := p9.NewServer(att)
			go srv.Handle(b, b)
			cl, err := p9.NewClient(a)
			if err != nil {
				return err
			}
			root, err = cl.Attach("")
			if err != nil {
				return err
			}
			cleanup = func() { cl.Close() }
		} else {
			var err error
			root, err = att.Attach()
			if err != nil {
				return err
			}
			cleanup = func() {}
		}
		_, dir, err := root.Walk(path)
		if err != nil {
			cleanup()
			return fmt.Errorf("walk %v: %v", path, err)
		}
		_, parent, err := root.Walk(path)
		if err != nil {
			cleanup()
			return err
		}
		if _, _, err := dir.Open(p9.ReadOnly); err != nil {
			cleanup()
			return fmt.Errorf("open: %v", err)
		}
		fn(dir, parent, via)
		dir.Close()
		parent.Close()
		cleanup()
	}
	return nil
}

func run(v *vec, work string, idx int, o *out) {
	o.Cases++
	sizes := []int{v.N}
	if v.N >= 6 {
		sizes = append(sizes, 6+idx%5*61, 1200+idx%300)
	}
	for si, n := range sizes {
		l := []int{1, 8, 40, 255}[(idx+si)%4]
		if l < 6 {
			l = 6
		}
		nm := names(n, l)
		entrySize := 24 + len("e") + 0
		if n > 0 {
			entrySize = 24 + len(nm[0])
		}
		switch v.Backend {
		case "local":
			d := filepath.Join(work, fmt.Sprintf("d%d_%d", idx, si))
			os.MkdirAll(d, 0o755)
			for i, x := range nm {
				if i%5 == 4 {
					os.Mkdir(filepath.Join(d, x), 0o755)
				} else {
					os.WriteFile(filepath.Join(d, x), []byte("c"), 0o644)
				}
			}
			err := withFS(localfs.Attacher(d), nil, func(dir, parent p9.File, via bool) {
				checkListing(fmt.Sprintf("localfs, %d entries of %d-byte names, fits %v, via server %v", n, l, v.FitSeq, via), dir, parent, nm, v.FitSeq, entrySize, via, o)
			})
			if err != nil {
				o.Findings = append(o.Findings, "localfs setup: "+err.Error())
			}
			os.RemoveAll(d)
		default:
			// staticfs alone, composefs with files, composefs with a (nested) staticfs mount
			var opts []staticfs.Option
			for _, x := range nm {
				opts = append(opts, staticfs.WithFile(x, "content of "+x))
			}
			st, err := staticfs.New(opts...)
			if err != nil {
				o.Findings = append(o.Findings, "staticfs: "+err.Error())
				return
			}
			if err := withFS(st, nil, func(dir, parent p9.File, via bool) {
				checkListing(fmt.Sprintf("staticfs, %d entries, fits %v, via server %v", n, v.FitSeq, via), dir, parent, nm, v.FitSeq, entrySize, via, o)
			}); err != nil {
				o.Findings = append(o.Findings, "staticfs setup: "+err.Error())
			}
			st2, _ := staticfs.New(opts...)
			var copts []composefs.Opt
			for i, x := range nm {
				if i%3 == 0 {
					copts = append(copts, composefs.WithFile(x, staticfs.ReadOnlyFile("f "+x)))
				} else {
					other, _ := staticfs.New(staticfs.WithFile("inner", "x"))
					copts = append(copts, composefs.WithMount(x, other))
				}
			}
			copts = append(copts, composefs.WithMount("zmount", st2))
			st3, _ := staticfs.New(opts...)
			copts = append(copts, composefs.WithDir("znest", composefs.WithMount("deep", st3)))
			cfs, err := composefs.New(copts...)
			if err != nil {
				o.Findings = append(o.Findings, "composefs: "+err.Error())
				return
			}
			rootWant := append(append([]string{}, nm...), "zmount", "znest")
			sort.Strings(rootWant)
			for _, tc := range []struct {
				path []string
				want []string
				what string
			}{{nil, rootWant, "composefs root"}, {[]string{"zmount"}, nm, "staticfs mounted in composefs"}, {[]string{"znest", "deep"}, nm, "staticfs mounted in a nested composefs directory"}} {
				es := entrySize
				if tc.path == nil && n == 0 {
					es = 24 + 6
				}
				if err := withFS(cfs, tc.path, func(dir, parent p9.File, via bool) {
					checkListing(fmt.Sprintf("%s, %d entries, fits %v, via server %v", tc.what, len(tc.want), v.FitSeq, via), dir, parent, tc.want, v.FitSeq, max(es, 24+6), via, o)
				}); err != nil {
					o.Findings = append(o.Findings, tc.what+" setup: "+err.Error())
				}
			}
		}
		if len(o.Findings) > 25 {
			return
		}
	}
	if len(o.Samples) < 2 && v.N >= 4 {
		o.Samples = append(o.Samples, map[string]any{"case": v, "real_sizes": sizes})
	}
}

// msizeSweep: a listing through client and server with a small msize (4096) and a byte count far beyond
// it, for entry sizes 25..88 bytes: the server shortens every page to what a reply frame can carry; a page
// that is a few bytes too long makes the client drop the connection and the listing is lost (Readdir.tla:
// Complete, with the page size chosen by the environment).
func msizeSweep(o *out, lfrom, lto int) {
	for l := lfrom; l <= lto; l++ {
		n := 200
		nm := make([]string, n)
		var opts []staticfs.Option
		for i := range nm {
			nm[i] = fmt.Sprintf("e%04d", i) + strings.Repeat("y", l-5)
			opts = append(opts, staticfs.WithFile(nm[i], "x"))
		}
		st, err := staticfs.New(opts...)
		if err != nil {
			o.Findings = append(o.Findings, "staticfs: "+err.Error())
			return
		}
		a, b := peer.NewDuplexPair()
		srv := p9.NewServer(st)
		go srv.Handle(b, b)
		cl, err := p9.NewClient(a, p9.WithMessageSize(4096))
		if err != nil {
			o.Findings = append(o.Findings, "msize sweep: NewClient: "+err.Error())
			return
		}
		root, err := cl.Attach("")
		if err == nil {
			_, _, err = root.Open(p9.ReadOnly)
		}
		if err != nil {
			o.Findings = append(o.Findings, "msize sweep: setup: "+err.Error())
			cl.Close()
			return
		}
		o.Listings++
		desc := fmt.Sprintf("staticfs via server with msize 4096, %d entries of %d-byte names (%d bytes each), count 2^20", n, l, 24+l)
		got := map[string]int{}
		off := uint64(0)
		for page := 0; page < 4*n; page++ {
			ents, err := root.Readdir(off, 1<<20)
			if err != nil {
				o.Findings = append(o.Findings, fmt.Sprintf("%s: Readdir(%d): %v after %d entries (a page the reply frame cannot carry?)", desc, off, err, len(got)))
				break
			}
			if len(ents) == 0 {
				break
			}
			for _, d := range ents {
				got[d.Name]++
				off = d.Offset
			}
			o.Entries += len(ents)
		}
		for _, w := range nm {
			if got[w] != 1 {
				o.Findings = append(o.Findings, fmt.Sprintf("%s: entry %q listed %d times", desc, w, got[w]))
				break
			}
		}
		cl.Close()
		if len(o.Findings) > 5 {
			return
		}
	}
}

func main() {
	in := flag.String("in", "", "")
	outp := flag.String("out", "", "")
	work := flag.String("work", "", "scratch directory for localfs trees")
	shard := flag.Int("shard", 0, "")
	nshard := flag.Int("nshard", 1, "")
	flag.Parse()
	f, err := os.Open(*in)
	if err != nil {
		fmt.Fprintln(os.Stderr, err)
		os.Exit(2)
	}
	o := &out{}
	// the msize sweep is spread over the shards: names of 5..68 bytes
	for l := 5 + *shard; l <= 68; l += *nshard {
		msizeSweep(o, l, l)
	}
	w := filepath.Join(*work, fmt.Sprintf("s%d", *shard))
	os.MkdirAll(w, 0o755)
	defer os.RemoveAll(w)
	sc := bufio.NewScanner(f)
	i := 0
	for sc.Scan() {
		i++
		if (i-1)%*nshard != *shard {
			continue
		}
		b := sc.Bytes()
		if len(b) > 0 && b[0] == '"' {
			var s string
			json.Unmarshal(b, &s)
			b = []byte(s)
		}
		var v vec
		if err := json.Unmarshal(b, &v); err != nil {
			o.Findings = append(o.Findings, "bad vector: "+err.Error())
			continue
		}
		run(&v, w, i, o)
		if len(o.Findings) > 25 {
			break
		}
	}
	b, _ := json.Marshal(o)
	if *outp == "" {
		os.Stdout.Write(b)
	} else {
		os.WriteFile(*outp, b, 0o644)
	}
}
