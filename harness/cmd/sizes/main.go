// Command sizes replays the vectors TLC derives from spec/Version.tla:
//
//	-mode version : Tversion(msize, version string) at a raw peer of p9.Server -> Rversion as specified
//	-mode client  : NewClient against a scripted server offering (version, msize) after k EAGAIN answers ->
//	                adoption of version and msize, message families, request sizes
//	-mode size    : Tread/Treaddir with every count class under every negotiated msize (incl. re-negotiation)
//	                -> no frame longer than the announced msize
package main

import (
	"bufio"
	"encoding/json"
	"flag"
	"fmt"
	"io"
	"os"
	"strings"
	"sync"
	"time"

	"github.com/hugelgupf/p9/p9"

	"verifharness/peer"
	"verifharness/puppet"
	"verifharness/wirecodec"
)

type out struct {
	Cases    int      `json:"cases"`
	Findings []string `json:"findings"`
	Samples  []any    `json:"samples"`
	Distinct int      `json:"distinct"`
}

func u32(x int64) uint64 {
	if x < 0 {
		return 0xFFFFFFFF
	}
	return uint64(x)
}

func lines(path string, shard, nshard int, fn func(raw []byte)) {
	f, err := os.Open(path)
	if err != nil {
		fmt.Fprintln(os.Stderr, err)
		os.Exit(2)
	}
	defer f.Close()
	sc := bufio.NewScanner(f)
	sc.Buffer(make([]byte, 1<<20), 64<<20)
	i := 0
	for sc.Scan() {
		i++
		if (i-1)%nshard != shard {
			continue
		}
		b := sc.Bytes()
		if len(b) > 0 && b[0] == '"' {
			var s string
			json.Unmarshal(b, &s)
			b = []byte(s)
		}
		fn(append([]byte{}, b...))
	}
}

// ---------------------------------------------------------------- version

type vcase struct {
	Msize   int64  `json:"msize"`
	Base    string `json:"base"`
	Ext     string `json:"ext"`
	Replies []struct {
		Msize int64  `json:"msize"`
		V     string `json:"v"`
	} `json:"replies"`
}

func modeVersion(t *wirecodec.Table, path string, shard, nshard int, o *out) {
	lines(path, shard, nshard, func(raw []byte) {
		var c vcase
		if err := json.Unmarshal(raw, &c); err != nil {
			o.Findings = append(o.Findings, "bad vector: "+err.Error())
			return
		}
		o.Cases++
		auto := puppet.NewAuto()
		defer auto.Stop()
		srv := p9.NewServer(&puppet.Attacher{C: auto.C})
		raw2 := peer.NewRaw(t)
		r, w := raw2.ServerEnds()
		go srv.Handle(r, w)
		defer raw2.Hangup()
		vs := c.Base + c.Ext
		raw2.Send("Tversion", 0xFFFF, wirecodec.Values{"msize": u32(c.Msize), "version": vs})
		b, ok, to := raw2.FR.Next(3 * time.Second)
		if to || !ok {
			o.Findings = append(o.Findings, fmt.Sprintf("Tversion(%d, %q): no reply", c.Msize, vs))
			return
		}
		f, err := t.Decode(b)
		if err != nil || f.Name != "Rversion" {
			name := ""
			if f != nil {
				name = f.Name
			}
			o.Findings = append(o.Findings, fmt.Sprintf("Tversion(%d, %q) answered %s %v, must be Rversion", c.Msize, vs, name, err))
			return
		}
		gm, gv := int64(wirecodec.U(f.V, "msize")), f.V["version"].(string)
		for _, rp := range c.Replies {
			if rp.Msize == gm && rp.V == gv {
				if len(o.Samples) < 2 && c.Ext != "" {
					o.Samples = append(o.Samples, map[string]any{"tversion": []any{c.Msize, vs}, "rversion": []any{gm, gv}})
				}
				return
			}
		}
		o.Findings = append(o.Findings, fmt.Sprintf("Tversion(%d, %q) answered Rversion(%d, %q); Version.tla allows %v", c.Msize, vs, gm, gv, c.Replies))
	})
}

// ---------------------------------------------------------------- client

type ccase struct {
	Reqm    int64  `json:"reqm"`
	V       string `json:"v"`
	M       int64  `json:"m"`
	Retries int    `json:"retries"`
	Err     bool   `json:"err"`
	Version int    `json:"version"`
	Msize   int64  `json:"msize"`
	Payload int64  `json:"payload"`
	WGA     bool   `json:"wga"`
	UCreate bool   `json:"ucreate"`
}

func modeClient(t *wirecodec.Table, path string, shard, nshard int, o *out) {
	lines(path, shard, nshard, func(raw []byte) {
		var c ccase
		if err := json.Unmarshal(raw, &c); err != nil {
			o.Findings = append(o.Findings, "bad vector: "+err.Error())
			return
		}
		o.Cases++
		cliEnd, srvEnd := peer.NewDuplexPair()
		fr := peer.NewFrameReader(srvEnd)
		var mu sync.Mutex
		var seen []*wirecodec.Frame
		var maxFrame int64
		tvers := 0
		var asked []string
		done := make(chan struct{})
		go func() {
			defer close(done)
			for b := range fr.C {
				f, err := t.Decode(b)
				if err != nil {
					mu.Lock()
					o.Findings = append(o.Findings, "client sent an undecodable frame: "+err.Error())
					mu.Unlock()
					continue
				}
				mu.Lock()
				if f.Name != "Tversion" {
					seen = append(seen, f)
					if int64(f.Size) > maxFrame {
						maxFrame = int64(f.Size)
					}
				}
				mu.Unlock()
				var name string
				v := wirecodec.Values{}
				switch f.Name {
				case "Tversion":
					tvers++
					asked = append(asked, f.V["version"].(string))
					if tvers <= c.Retries {
						name, v = "Rlerror", wirecodec.Values{"ecode": 11} // EAGAIN
					} else {
						name, v = "Rversion", wirecodec.Values{"msize": uint64(c.M), "version": c.V}
					}
				case "Tattach":
					name, v = "Rattach", wirecodec.Values{"qid": wirecodec.Values{"type": 0x80, "path": 1}}
				case "Twalk":
					name, v = "Rwalk", wirecodec.Values{"qids": []wirecodec.Values{{"path": 2}}}
				case "Twalkgetattr":
					name, v = "Rwalkgetattr", wirecodec.Values{"valid": []string{"mode"}, "attr": wirecodec.Values{"mode": 0o100644}, "qids": []wirecodec.Values{{"path": 2}}}
				case "Tgetattr":
					name, v = "Rgetattr", wirecodec.Values{"valid": []string{"mode"}, "attr": wirecodec.Values{"mode": 0o100644}}
				case "Tmkdir":
					name = "Rmkdir"
				case "Tumkdir":
					name = "Rumkdir"
				case "Tlopen":
					name = "Rlopen"
				case "Tclunk":
					name = "Rclunk"
				case "Tread":
					n := int(wirecodec.U(f.V, "count"))
					name, v = "Rread", wirecodec.Values{"data": make([]byte, n)}
				case "Twrite":
					name, v = "Rwrite", wirecodec.Values{"count": uint64(len(f.V["data"].([]byte)))}
				default:
					name, v = "Rlerror", wirecodec.Values{"ecode": 38}
				}
				srvEnd.Write(t.Encode(name, f.Tag, v))
			}
		}()
		cl, err := p9.NewClient(cliEnd, p9.WithMessageSize(uint32(c.Reqm)))
		desc := fmt.Sprintf("client asks msize %d; server answers %d x EAGAIN then Rversion(%d, %q)", c.Reqm, c.Retries, c.M, c.V)
		defer func() { cliEnd.Close(); srvEnd.Close(); <-done }()
		if c.Err {
			if err == nil {
				o.Findings = append(o.Findings, desc+": NewClient succeeded, must fail (not a 9P2000.L version)")
			}
			return
		}
		if err != nil {
			o.Findings = append(o.Findings, desc+": NewClient failed: "+err.Error())
			return
		}
		if int(cl.Version()) != c.Version {
			o.Findings = append(o.Findings, fmt.Sprintf("%s: client uses version %d, must adopt %d", desc, cl.Version(), c.Version))
			return
		}
		root, err := cl.Attach("")
		if err != nil {
			o.Findings = append(o.Findings, desc+": attach failed: "+err.Error())
			return
		}
		_, f, _, _, err := root.WalkGetAttr([]string{"x"})
		if err != nil {
			o.Findings = append(o.Findings, desc+": WalkGetAttr failed: "+err.Error())
			return
		}
		root.Mkdir("d", 0o755, 5, 6)
		f.Open(p9.ReadWrite)
		buf := make([]byte, 2*int(c.Payload)+13)
		f.ReadAt(buf, 0)
		f.WriteAt(buf, 0)
		mu.Lock()
		defer mu.Unlock()
		types := map[string]int{}
		firstRead, firstWrite := int64(-1), int64(-1)
		for _, fr := range seen {
			types[fr.Name]++
			if fr.Name == "Tread" && firstRead < 0 {
				firstRead = int64(wirecodec.U(fr.V, "count"))
			}
			if fr.Name == "Twrite" && firstWrite < 0 {
				firstWrite = int64(len(fr.V["data"].([]byte)))
			}
			if fr.Name == "Tread" && int64(wirecodec.U(fr.V, "count"))+11 > c.Msize {
				o.Findings = append(o.Findings, fmt.Sprintf("%s: Tread asks for %d bytes, the reply would not fit msize %d", desc, wirecodec.U(fr.V, "count"), c.Msize))
				return
			}
		}
		if maxFrame > c.Msize {
			o.Findings = append(o.Findings, fmt.Sprintf("%s: client sent a frame of %d bytes, the agreed msize is %d", desc, maxFrame, c.Msize))
			return
		}
		if c.WGA != (types["Twalkgetattr"] > 0) {
			o.Findings = append(o.Findings, fmt.Sprintf("%s: version %d, Twalkgetattr used: %v", desc, c.Version, types["Twalkgetattr"] > 0))
			return
		}
		if c.UCreate != (types["Tumkdir"] > 0) || c.UCreate == (types["Tmkdir"] > 0) {
			o.Findings = append(o.Findings, fmt.Sprintf("%s: version %d, messages used: %v", desc, c.Version, types))
			return
		}
		if firstRead != c.Payload || firstWrite != c.Payload {
			o.Findings = append(o.Findings, fmt.Sprintf("%s: first chunk sizes read %d / write %d, Version.tla: payload %d for msize %d", desc, firstRead, firstWrite, c.Payload, c.Msize))
			return
		}
		if len(o.Samples) < 2 && c.Retries > 0 {
			o.Samples = append(o.Samples, map[string]any{"case": c, "asked": asked, "types": types})
		}
	})
}

// ---------------------------------------------------------------- size

type scase struct {
	Ms      int64  `json:"ms"`
	Count   int64  `json:"count"`
	Kind    string `json:"kind"`
	Reneg   string `json:"reneg"`
	MaxData int64  `json:"maxdata"`
}

func modeSize(t *wirecodec.Table, path string, shard, nshard int, o *out) {
	lines(path, shard, nshard, func(raw []byte) {
		var c scase
		if err := json.Unmarshal(raw, &c); err != nil {
			o.Findings = append(o.Findings, "bad vector: "+err.Error())
			return
		}
		o.Cases++
		auto := puppet.NewAuto()
		defer auto.Stop()
		auto.Answer = func(call *puppet.Call) (puppet.Result, bool) {
			switch call.K {
			case "ReadAt":
				for i := range call.Buf {
					call.Buf[i] = 'r'
				}
				return puppet.Result{Res: "ok", N: len(call.Buf)}, true
			case "GetXattr":
				// an attribute value as large as the limit allows (4 MiB)
				n := c.Ms
				if n > 4<<20 {
					n = 4 << 20
				}
				return puppet.Result{Res: "ok", Vals: map[string]any{"data": make([]byte, n)}}, true
			case "Readdir":
				cnt := int64(call.Args["count"].(uint32))
				if cnt > 6<<20 {
					cnt = 6 << 20
				}
				n := int(cnt/33) + 3
				ents := make(p9.Dirents, n)
				for i := range ents {
					ents[i] = p9.Dirent{QID: p9.QID{Path: uint64(i + 10)}, Offset: uint64(i + 1), Name: fmt.Sprintf("entry%04d", i%10000)}
				}
				return puppet.Result{Res: "ok", Vals: map[string]any{"entries": ents}}, true
			}
			return puppet.Result{}, false
		}
		srv := p9.NewServer(&puppet.Attacher{C: auto.C})
		rp := peer.NewRaw(t)
		r, w := rp.ServerEnds()
		go srv.Handle(r, w)
		defer rp.Hangup()
		desc := fmt.Sprintf("msize %d (%s), %s count %d", c.Ms, c.Reneg, c.Kind, c.Count)
		tag := uint16(0)
		rpc := func(name string, v wirecodec.Values) (*wirecodec.Frame, []byte) {
			tag++
			rp.Send(name, tag, v)
			b, ok, to := rp.FR.Next(5 * time.Second)
			if to || !ok {
				return nil, nil
			}
			f, _ := t.Decode(b)
			return f, b
		}
		announced := int64(0)
		negotiate := func(ms int64) bool {
			f, _ := rpc("Tversion", wirecodec.Values{"msize": uint64(ms), "version": "9P2000.L"})
			if f == nil || f.Name != "Rversion" {
				o.Findings = append(o.Findings, desc+": negotiation failed")
				return false
			}
			announced = int64(wirecodec.U(f.V, "msize"))
			return true
		}
		switch c.Reneg {
		case "smaller":
			first := c.Ms * 4
			if first > 4<<20 {
				first = 4 << 20
			}
			if !negotiate(first) {
				return
			}
		case "larger":
			if !negotiate(c.Ms/2 + 16) {
				return
			}
		}
		if !negotiate(c.Ms) {
			return
		}
		nouid := uint64(0xFFFFFFFF)
		if f, _ := rpc("Tattach", wirecodec.Values{"fid": 1, "afid": nouid, "uname": "", "aname": "", "n_uname": nouid}); f == nil || f.Name != "Rattach" {
			o.Findings = append(o.Findings, desc+": attach failed")
			return
		}
		name := "f1"
		if c.Kind == "readdir" {
			name = "d1"
		}
		rpc("Twalk", wirecodec.Values{"fid": 1, "newfid": 2, "names": []string{name}})
		var f *wirecodec.Frame
		var b []byte
		if c.Kind == "xread" {
			if g, _ := rpc("Txattrwalk", wirecodec.Values{"fid": 2, "newfid": 5, "name": "user.big"}); g == nil || g.Name != "Rxattrwalk" {
				o.Findings = append(o.Findings, desc+": xattrwalk failed")
				return
			}
			f, b = rpc("Tread", wirecodec.Values{"fid": 5, "offset": 0, "count": u32(c.Count)})
		} else {
			if g, _ := rpc("Tlopen", wirecodec.Values{"fid": 2, "flags": 0}); g == nil || g.Name != "Rlopen" {
				o.Findings = append(o.Findings, desc+": open failed")
				return
			}
			if c.Kind == "read" {
				f, b = rpc("Tread", wirecodec.Values{"fid": 2, "offset": 0, "count": u32(c.Count)})
			} else {
				f, b = rpc("Treaddir", wirecodec.Values{"fid": 2, "offset": 0, "count": u32(c.Count)})
			}
		}
		if b == nil {
			o.Findings = append(o.Findings, desc+": no reply (stream error: "+fmt.Sprint(rp.FR.Err)+")")
			return
		}
		if int64(len(b)) > announced {
			o.Findings = append(o.Findings, fmt.Sprintf("%s: the server sent a frame of %d bytes, it announced msize %d", desc, len(b), announced))
			return
		}
		if f != nil && f.Name == "Rread" {
			if d := int64(len(f.V["data"].([]byte))); c.Count >= 0 && d > c.Count {
				o.Findings = append(o.Findings, fmt.Sprintf("%s: Rread carries %d bytes, more than asked", desc, d))
			}
		}
		// the connection must still be usable
		if g, _ := rpc("Tclunk", wirecodec.Values{"fid": 2}); g == nil {
			o.Findings = append(o.Findings, desc+": connection unusable afterwards")
			return
		}
		if len(o.Samples) < 2 && c.Count > c.MaxData {
			nm := ""
			if f != nil {
				nm = f.Name
			}
			o.Samples = append(o.Samples, map[string]any{"case": c, "reply": nm, "frame_bytes": len(b)})
		}
	})
}

type dcase struct {
	Ms       int64   `json:"ms"`
	Count    int64   `json:"count"`
	Limit    int64   `json:"limit"`
	NameLens []int64 `json:"namelens"`
}

// modeDirFit: Treaddir with the count / msize of Version.tla's DirFitCases against a directory whose
// entries' name lengths cycle through DirNameLens: the entries in the reply, sized by DirentSize,
// stay within the requested count ("C01:") and the frame within the announced msize ("C13:").
func modeDirFit(t *wirecodec.Table, path string, shard, nshard int, o *out) {
	lines(path, shard, nshard, func(raw []byte) {
		var c dcase
		if err := json.Unmarshal(raw, &c); err != nil {
			o.Findings = append(o.Findings, "bad vector: "+err.Error())
			return
		}
		o.Cases++
		auto := puppet.NewAuto()
		defer auto.Stop()
		auto.Answer = func(call *puppet.Call) (puppet.Result, bool) {
			if call.K != "Readdir" {
				return puppet.Result{}, false
			}
			n := int(c.Limit/25) + 4
			ents := make(p9.Dirents, n)
			for i := range ents {
				l := int(c.NameLens[i%len(c.NameLens)])
				name := []byte(fmt.Sprintf("%05d", i))
				for len(name) < l {
					name = append(name, 'n')
				}
				ents[i] = p9.Dirent{QID: p9.QID{Path: uint64(i + 10)}, Offset: uint64(i + 1), Name: string(name[:l])}
			}
			return puppet.Result{Res: "ok", Vals: map[string]any{"entries": ents}}, true
		}
		srv := p9.NewServer(&puppet.Attacher{C: auto.C})
		rp := peer.NewRaw(t)
		r, w := rp.ServerEnds()
		go srv.Handle(r, w)
		defer rp.Hangup()
		desc := fmt.Sprintf("msize %d, Treaddir count %d", c.Ms, c.Count)
		tag := uint16(0)
		rpc := func(name string, v wirecodec.Values) (*wirecodec.Frame, []byte) {
			tag++
			rp.Send(name, tag, v)
			b, ok, to := rp.FR.Next(5 * time.Second)
			if to || !ok {
				return nil, nil
			}
			f, _ := t.Decode(b)
			return f, b
		}
		f, _ := rpc("Tversion", wirecodec.Values{"msize": uint64(c.Ms), "version": "9P2000.L"})
		if f == nil || f.Name != "Rversion" {
			o.Findings = append(o.Findings, desc+": negotiation failed")
			return
		}
		announced := int64(wirecodec.U(f.V, "msize"))
		nouid := uint64(0xFFFFFFFF)
		rpc("Tattach", wirecodec.Values{"fid": 1, "afid": nouid, "uname": "", "aname": "", "n_uname": nouid})
		rpc("Twalk", wirecodec.Values{"fid": 1, "newfid": 2, "names": []string{"d1"}})
		if f, _ := rpc("Tlopen", wirecodec.Values{"fid": 2, "flags": 0}); f == nil || f.Name != "Rlopen" {
			o.Findings = append(o.Findings, desc+": open failed")
			return
		}
		f, b := rpc("Treaddir", wirecodec.Values{"fid": 2, "offset": 0, "count": u32(c.Count)})
		if b == nil {
			o.Findings = append(o.Findings, "C13: "+desc+": no reply (stream error: "+fmt.Sprint(rp.FR.Err)+")")
			return
		}
		if int64(len(b)) > announced {
			o.Findings = append(o.Findings, fmt.Sprintf("C13: %s: the server sent a frame of %d bytes, it announced msize %d", desc, len(b), announced))
		}
		if f == nil || f.Name != "Rreaddir" {
			return
		}
		ents, _ := f.V["entries"].([]wirecodec.Values)
		total := int64(0)
		for _, e := range ents {
			total += 13 + 8 + 1 + 2 + int64(len(e["name"].(string)))
		}
		if c.Count >= 0 && total > c.Count {
			o.Findings = append(o.Findings, fmt.Sprintf("C01: %s: the reply carries %d entries of %d bytes in all (DirentSize), more than the requested count", desc, len(ents), total))
		}
		// "cut to whole entries WITHIN the requested count": an entry that ends exactly on the count fits.  A reply
		// without any entry reads as the end of the directory, so it is wrong whenever the first entry fits the
		// count and the frame (a reply that merely carries fewer entries than would fit is not held against the server)
		first := int64(13 + 8 + 1 + 2 + c.NameLens[0])
		if lim := announced - 11; len(ents) == 0 && (c.Count < 0 || first <= c.Count) && first <= lim {
			o.Findings = append(o.Findings, fmt.Sprintf("C03: %s: the reply carries no entry although the first one (%d bytes) fits the requested count: the listing ends there for the caller", desc, first))
		}
		if len(o.Samples) < 1 && len(ents) > 2 {
			o.Samples = append(o.Samples, map[string]any{"case": c, "entries": len(ents), "entry_bytes": total, "frame_bytes": len(b)})
		}
	})
}

func main() {
	mode := flag.String("mode", "", "version | client | size | dirfit")
	in := flag.String("in", "", "")
	outp := flag.String("out", "", "")
	shard := flag.Int("shard", 0, "")
	nshard := flag.Int("nshard", 1, "")
	flag.Parse()
	t := wirecodec.MustLoad()
	o := &out{}
	switch *mode {
	case "version":
		modeVersion(t, *in, *shard, *nshard, o)
	case "client":
		modeClient(t, *in, *shard, *nshard, o)
	case "size":
		modeSize(t, *in, *shard, *nshard, o)
	case "dirfit":
		modeDirFit(t, *in, *shard, *nshard, o)
	default:
		fmt.Fprintln(os.Stderr, "unknown mode")
		os.Exit(2)
	}
	if len(o.Findings) > 30 {
		o.Findings = append(o.Findings[:30], fmt.Sprintf("... and %d more", len(o.Findings)-30))
	}
	b, _ := json.Marshal(o)
	if *outp == "" {
		os.Stdout.Write(b)
	} else {
		os.WriteFile(*outp, b, 0o644)
	}
	_ = io.EOF
	_ = strings.TrimSpace
}
