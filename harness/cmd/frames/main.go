// Command frames feeds the streams enumerated by TLC from spec/Frames.tla to a
// real p9.Server through a counting pipe, one frame at a time, and compares per
// frame: the reply (type class and tag) or the end of the connection, and the
// number of bytes the server consumed. The driver runs in a child-process-safe
// way: a panic of the server is reported as a finding with the stream.
package main

import (
	"bufio"
	"encoding/binary"
	"encoding/json"
	"flag"
	"fmt"
	"math/rand"
	"os"
	"runtime"
	"sort"
	"time"

	"github.com/hugelgupf/p9/p9"

	"verifharness/peer"
	"verifharness/puppet"
	"verifharness/wirecodec"
)

type vec struct {
	Stream   []string `json:"stream"`
	Replies  []string `json:"replies"`
	Consumed []string `json:"consumed"`
}

type out struct {
	Cases    int      `json:"cases"`
	Frames   int      `json:"frames"`
	Findings []string `json:"findings"`
	Samples  []any    `json:"samples"`
}

const msize = 8192

func hdr(size uint32, typ uint8, tag uint16) []byte {
	b := make([]byte, 7)
	binary.LittleEndian.PutUint32(b, size)
	b[4] = typ
	binary.LittleEndian.PutUint16(b[5:], tag)
	return b
}

// build returns the bytes to send for a frame kind and the declared size.
func build(t *wirecodec.Table, kind string, tag uint16, rng *rand.Rand) []byte {
	frame := func(typ uint8, body []byte) []byte { return append(hdr(uint32(7+len(body)), typ, tag), body...) }
	switch kind {
	case "good":
		switch rng.Intn(3) {
		case 0:
			return t.Encode("Tgetattr", tag, wirecodec.Values{"fid": 1, "request_mask": []string{"mode"}})
		case 1:
			return t.Encode("Tstatfs", tag, wirecodec.Values{"fid": 1})
		}
		return t.Encode("Twalk", tag, wirecodec.Values{"fid": 1, "newfid": 50 + int(tag), "names": []string{"d"}})
	case "goodpay":
		return t.Encode("Twrite", tag, wirecodec.Values{"fid": 2, "offset": 3, "data": make([]byte, rng.Intn(40))})
	case "trailing":
		b := t.EncodeBody("Tgetattr", wirecodec.Values{"fid": 1, "request_mask": []string{"size"}})
		return frame(t.Layout["Tgetattr"].ID, append(b, make([]byte, 1+rng.Intn(5))...))
	case "rejver":
		// refused: msize is not adopted (1 MiB would let an oversized frame through, 16 would kill a good one)
		ms := []uint64{1 << 20, 16, 4 << 20, 100}[rng.Intn(4)]
		ver := []string{"9P2000.u", "9P2000", "junk"}[rng.Intn(3)]
		return t.Encode("Tversion", tag, wirecodec.Values{"msize": ms, "version": ver})
	case "unknown":
		typs := []uint8{0, 1, 6, 10, 11, 28, 29, 34, 54, 55, 99, 124, 125, 136, 200, 255}
		return frame(typs[rng.Intn(len(typs))], make([]byte, rng.Intn(30)))
	case "shortfixed":
		return frame(t.Layout["Twrite"].ID, make([]byte, rng.Intn(16)))
	case "empty":
		return frame(t.Layout["Tclunk"].ID, nil)
	case "overcount":
		b := t.EncodeBody("Twalk", wirecodec.Values{"fid": 1, "newfid": 9, "names": []string{"a"}})
		binary.LittleEndian.PutUint16(b[8:], uint16(2+rng.Intn(65000)))
		return frame(t.Layout["Twalk"].ID, b)
	case "overstring":
		if rng.Intn(2) == 0 {
			// the last string of the body claims one or two bytes more than are there
			b := t.EncodeBody("Twalk", wirecodec.Values{"fid": 1, "newfid": 9, "names": []string{"a", "bcd"}})
			binary.LittleEndian.PutUint16(b[len(b)-5:], uint16(4+rng.Intn(2)))
			return frame(t.Layout["Twalk"].ID, b)
		}
		b := t.EncodeBody("Tlcreate", wirecodec.Values{"fid": 1, "name": "abc", "flags": 0, "mode": 0, "gid": 0})
		binary.LittleEndian.PutUint16(b[4:], uint16(len(b)+rng.Intn(60000)))
		return frame(t.Layout["Tlcreate"].ID, b)
	case "truncated":
		names := tNames(t)
		n := names[rng.Intn(len(names))]
		b := t.EncodeBody(n, sampleValues(t, n))
		return frame(t.Layout[n].ID, b[:rng.Intn(len(b))])
	case "paymismatch":
		b := t.EncodeBody("Twrite", wirecodec.Values{"fid": 2, "offset": 0, "data": []byte("0123456789")})
		// the count field differs from the number of payload bytes in the frame, in either direction
		if rng.Intn(2) == 0 {
			binary.LittleEndian.PutUint32(b[12:], uint32(rng.Intn(10)))
		} else {
			binary.LittleEndian.PutUint32(b[12:], uint32(11+rng.Intn(100000)))
		}
		return frame(t.Layout["Twrite"].ID, b)
	case "size3":
		sz := []uint32{0, 1, 3, 6}
		return append(hdr(sz[rng.Intn(4)], t.Layout["Tgetattr"].ID, tag), make([]byte, 20)...)
	case "sizebig":
		return append(hdr(msize+1+uint32(rng.Intn(3)), t.Layout["Tgetattr"].ID, tag), make([]byte, 64)...)
	case "sizehuge":
		sz := []uint32{4<<20 + 1, 1 << 31, 0xFFFFFFFF}
		return append(hdr(sz[rng.Intn(3)], t.Layout["Twrite"].ID, tag), make([]byte, 64)...)
	case "cuthdr":
		return hdr(30, t.Layout["Tgetattr"].ID, tag)[:1+rng.Intn(6)]
	case "cutbody":
		b := t.Encode("Twrite", tag, wirecodec.Values{"fid": 2, "offset": 0, "data": make([]byte, 50)})
		return b[:7+rng.Intn(len(b)-8)]
	}
	panic("unknown kind " + kind)
}

// tNames lists the request types of the table.
func tNames(t *wirecodec.Table) []string {
	var l []string
	for n := range t.Layout {
		if n[0] == 'T' {
			l = append(l, n)
		}
	}
	sort.Strings(l)
	return l
}

// sampleValues gives every variable-length field of a message some content.
func sampleValues(t *wirecodec.Table, name string) wirecodec.Values {
	v := wirecodec.Values{}
	for _, f := range t.Layout[name].F {
		switch f.Kind {
		case "str":
			v[f.Name] = "abc"
		case "strs":
			v[f.Name] = []string{"ab", "c"}
		case "data":
			v[f.Name] = []byte("hello")
		}
	}
	return v
}

// sweep: for every request type, every proper prefix of a well-formed body, and the last
// string's length raised by one and by two, each as a well-delimited frame followed by a
// good request: the bad frame must be answered Rlerror, the good one served (Frames.tla:
// kinds truncated / overstring followed by good).
func sweep(t *wirecodec.Table, shard, nshard int, o *out) {
	for ti, name := range tNames(t) {
		if ti%nshard != shard {
			continue
		}
		body := t.EncodeBody(name, sampleValues(t, name))
		type bad struct {
			desc string
			b    []byte
		}
		var cases []bad
		for k := 0; k < len(body); k++ {
			cases = append(cases, bad{fmt.Sprintf("%s body cut to %d of %d bytes", name, k, len(body)), body[:k]})
		}
		fs := t.Layout[name].F
		if len(fs) > 0 && (fs[len(fs)-1].Kind == "str" || fs[len(fs)-1].Kind == "strs") {
			last := 3
			if fs[len(fs)-1].Kind == "strs" {
				last = 1
			}
			for _, d := range []int{1, 2} {
				b := append([]byte{}, body...)
				binary.LittleEndian.PutUint16(b[len(b)-last-2:], uint16(last+d))
				cases = append(cases, bad{fmt.Sprintf("%s whose last string claims %d bytes with %d present", name, last+d, last), b})
			}
		}
		auto := puppet.NewAuto()
		srv := p9.NewServer(&puppet.Attacher{C: auto.C})
		raw := peer.NewRaw(t)
		r, w := raw.ServerEnds()
		done := make(chan struct{})
		crashed := ""
		go func() {
			defer close(done)
			defer func() {
				if p := recover(); p != nil {
					crashed = fmt.Sprint(p)
				}
			}()
			srv.Handle(r, w)
		}()
		next := func() (*wirecodec.Frame, string) {
			fb, ok, to := raw.FR.Next(5 * time.Second)
			if to || !ok {
				if crashed != "" {
					return nil, "no reply: the server panicked: " + crashed
				}
				return nil, "no reply"
			}
			f, err := t.Decode(fb)
			if err != nil {
				return nil, "malformed reply: " + err.Error()
			}
			return f, ""
		}
		nouid := uint64(0xFFFFFFFF)
		raw.Send("Tversion", 0xFFFF, wirecodec.Values{"msize": msize, "version": "9P2000.L.Google.7"})
		next()
		raw.Send("Tattach", 900, wirecodec.Values{"fid": 1, "afid": nouid, "uname": "", "aname": "", "n_uname": nouid})
		if f, e := next(); e != "" || f.Name != "Rattach" {
			o.Findings = append(o.Findings, "sweep "+name+": setup failed")
			auto.Stop()
			continue
		}
		for i, c := range cases {
			o.Cases++
			o.Frames += 2
			tag := uint16(10 + i%1000)
			raw.SendBytes(append(hdr(uint32(7+len(c.b)), t.Layout[name].ID, tag), c.b...))
			f, e := next()
			if e != "" {
				o.Findings = append(o.Findings, fmt.Sprintf("%s: %s (Frames.tla: Rlerror, connection continues)", c.desc, e))
				break
			}
			if f.Name != "Rlerror" {
				o.Findings = append(o.Findings, fmt.Sprintf("%s: answered %s, Frames.tla: Rlerror", c.desc, f.Name))
				break
			}
			raw.Send("Tgetattr", tag+1, wirecodec.Values{"fid": 1, "request_mask": []string{"mode"}})
			f, e = next()
			if e != "" || f.Name != "Rgetattr" || f.Tag != tag+1 {
				o.Findings = append(o.Findings, fmt.Sprintf("%s: the well-formed request after it was not served (%s %v)", c.desc, e, f))
				break
			}
		}
		raw.Hangup()
		select {
		case <-done:
		case <-time.After(3 * time.Second):
		}
		auto.Stop()
	}
}

func run(t *wirecodec.Table, v *vec, seed int64, o *out) {
	o.Cases++
	rng := rand.New(rand.NewSource(seed))
	auto := puppet.NewAuto()
	defer auto.Stop()
	srv := p9.NewServer(&puppet.Attacher{C: auto.C})
	raw := peer.NewRaw(t)
	r, w := raw.ServerEnds()
	done := make(chan struct{})
	crashed := ""
	go func() {
		defer close(done)
		defer func() {
			if p := recover(); p != nil {
				crashed = fmt.Sprint(p)
			}
		}()
		srv.Handle(r, w)
	}()
	desc := fmt.Sprintf("stream %v (seed %d)", v.Stream, seed)
	rpc := func(name string, tag uint16, vals wirecodec.Values) bool {
		raw.Send(name, tag, vals)
		b, ok, to := raw.FR.Next(5 * time.Second)
		if to || !ok {
			return false
		}
		f, err := t.Decode(b)
		return err == nil && f.Name != "Rlerror"
	}
	nouid := uint64(0xFFFFFFFF)
	if !rpc("Tversion", 0xFFFF, wirecodec.Values{"msize": msize, "version": "9P2000.L"}) ||
		!rpc("Tattach", 900, wirecodec.Values{"fid": 1, "afid": nouid, "uname": "", "aname": "", "n_uname": nouid}) ||
		!rpc("Twalk", 901, wirecodec.Values{"fid": 1, "newfid": 2, "names": []string{"f1"}}) ||
		!rpc("Tlopen", 902, wirecodec.Values{"fid": 2, "flags": 2}) {
		o.Findings = append(o.Findings, desc+": setup failed")
		return
	}
	base := raw.ToS.NRead
	expect := int64(0)
	ended := false
	for i, kind := range v.Stream {
		tag := uint16(10 + i)
		b := build(t, kind, tag, rng)
		o.Frames++
		raw.SendBytes(b)
		if ended {
			continue // the bytes are offered, nothing may be consumed (checked below)
		}
		rep, cons := v.Replies[i], v.Consumed[i]
		switch cons {
		case "all":
			expect += int64(len(b))
		case "hdr":
			expect += 7
		case "avail":
			expect += int64(len(b))
		}
		if rep == "none" {
			ended = true
			if kind == "cuthdr" || kind == "cutbody" {
				raw.Hangup() // the stream really ends here
			}
			// no reply may come and Handle must return
			select {
			case <-done:
			case <-time.After(5 * time.Second):
				o.Findings = append(o.Findings, fmt.Sprintf("%s: after frame %d (%s) the connection must end; Server.Handle is still running", desc, i+1, kind))
				return
			}
			if fb, ok, to := raw.FR.Next(50 * time.Millisecond); ok && !to {
				f, _ := t.Decode(fb)
				o.Findings = append(o.Findings, fmt.Sprintf("%s: frame %d (%s) was answered (%v); it must end the connection unanswered", desc, i+1, kind, f))
				return
			}
			continue
		}
		fb, ok, to := raw.FR.Next(5 * time.Second)
		if to || !ok {
			extra := ""
			if crashed != "" {
				extra = " (the server panicked: " + crashed + ")"
			}
			o.Findings = append(o.Findings, fmt.Sprintf("%s: frame %d (%s) is complete but got no reply%s - the receiver waits for more input or lost frame alignment", desc, i+1, kind, extra))
			return
		}
		f, err := t.Decode(fb)
		if err != nil {
			o.Findings = append(o.Findings, fmt.Sprintf("%s: reply to frame %d (%s) is malformed: %v", desc, i+1, kind, err))
			return
		}
		switch rep {
		case "R":
			if f.Tag != tag || (f.Name == "Rlerror" && false) {
				o.Findings = append(o.Findings, fmt.Sprintf("%s: frame %d (%s) answered %s tag %d, want its reply with tag %d", desc, i+1, kind, f.Name, f.Tag, tag))
				return
			}
			if f.Name == "Rlerror" {
				o.Findings = append(o.Findings, fmt.Sprintf("%s: well-formed frame %d (%s) was rejected with Rlerror %d (alignment lost after an earlier frame?)", desc, i+1, kind, wirecodec.U(f.V, "ecode")))
				return
			}
		case "Etag", "Enotag":
			if f.Name != "Rlerror" {
				o.Findings = append(o.Findings, fmt.Sprintf("%s: frame %d (%s) must be answered with Rlerror, got %s", desc, i+1, kind, f.Name))
				return
			}
			if rep == "Etag" && f.Tag != tag {
				o.Findings = append(o.Findings, fmt.Sprintf("%s: Rlerror for frame %d (%s) has tag %d, want %d", desc, i+1, kind, f.Tag, tag))
				return
			}
		}
	}
	if !ended {
		raw.Hangup()
		select {
		case <-done:
		case <-time.After(5 * time.Second):
			o.Findings = append(o.Findings, desc+": Handle did not return at end of stream")
			return
		}
	}
	if crashed != "" {
		o.Findings = append(o.Findings, desc+": the server panicked: "+crashed)
		return
	}
	if got := raw.ToS.NRead - base; got != expect {
		o.Findings = append(o.Findings, fmt.Sprintf("%s: the server consumed %d bytes of the stream, Frames.tla: %d (a rejected frame consumes exactly its declared size; nothing is read after a fatal size)", desc, got, expect))
		return
	}
	if len(o.Samples) < 2 && len(v.Stream) == 3 && v.Replies[0] != "R" && len(v.Replies) == 3 {
		o.Samples = append(o.Samples, map[string]any{"stream": v.Stream, "replies": v.Replies, "consumed_bytes": expect})
	}
}

type sizeVec struct {
	Msize  int64 `json:"msize"`
	Size   int64 `json:"size"`
	Accept bool  `json:"accept"`
}

// clientSize: p9.Client as receiver of a frame whose size field is sv.Size.
func clientSize(t *wirecodec.Table, sv *sizeVec, o *out) {
	o.Cases++
	cliEnd, srvEnd := peer.NewDuplexPair()
	fr := peer.NewFrameReader(srvEnd)
	desc := fmt.Sprintf("client with msize %d receives a frame with size field %d", sv.Msize, sv.Size)
	go func() {
		for b := range fr.C {
			f, err := t.Decode(b)
			if err != nil {
				continue
			}
			switch f.Name {
			case "Tversion":
				srvEnd.Write(t.Encode("Rversion", f.Tag, wirecodec.Values{"msize": f.V["msize"], "version": f.V["version"]}))
			case "Tattach":
				srvEnd.Write(t.Encode("Rattach", f.Tag, wirecodec.Values{}))
			case "Tgetattr":
				body := t.EncodeBody("Rgetattr", wirecodec.Values{"valid": []string{"mode"}})
				if sv.Size < 7+int64(len(body)) {
					// shorter than a full Rgetattr: an Rlerror-sized or minimal frame
					if sv.Size >= 11 {
						fb := append(hdr(uint32(sv.Size), t.Layout["Rlerror"].ID, f.Tag), make([]byte, sv.Size-7)...)
						srvEnd.Write(fb)
					} else {
						srvEnd.Write(hdr(uint32(sv.Size), t.Layout["Rlerror"].ID, f.Tag))
					}
					continue
				}
				fb := append(hdr(uint32(sv.Size), t.Layout["Rgetattr"].ID, f.Tag), body...)
				fb = append(fb, make([]byte, sv.Size-int64(len(fb)))...)
				srvEnd.Write(fb)
			default:
				srvEnd.Write(t.Encode("Rlerror", f.Tag, wirecodec.Values{"ecode": 38}))
			}
		}
	}()
	cl, err := p9.NewClient(cliEnd, p9.WithMessageSize(uint32(sv.Msize)))
	if err != nil {
		o.Findings = append(o.Findings, desc+": NewClient: "+err.Error())
		return
	}
	defer cliEnd.Close()
	root, err := cl.Attach("")
	if err != nil {
		o.Findings = append(o.Findings, desc+": attach: "+err.Error())
		return
	}
	before := cliEnd.R.NRead
	resc := make(chan error, 1)
	go func() { _, _, _, e := root.GetAttr(p9.AttrMask{Mode: true}); resc <- e }()
	var gerr error
	select {
	case gerr = <-resc:
	case <-time.After(5 * time.Second):
		o.Findings = append(o.Findings, desc+": the call never returned")
		return
	}
	read := cliEnd.R.NRead - before
	// (root must stay reachable up to here: its finalizer clunks the fid, and that call would read on)
	runtime.KeepAlive(root)
	if sv.Accept {
		if sv.Size >= 7+153 && gerr != nil {
			o.Findings = append(o.Findings, fmt.Sprintf("%s: rejected (%v); a frame within min(msize, 4 MiB) must be read", desc, gerr))
		}
		return
	}
	if gerr == nil {
		o.Findings = append(o.Findings, desc+": accepted and delivered; a frame above min(msize, 4 MiB) must end the connection")
		return
	}
	if read > 7 {
		o.Findings = append(o.Findings, fmt.Sprintf("%s: %d bytes of the stream were read; the body of an oversized frame must not be read (buffered)", desc, read))
	}
}

func main() {
	sizes := flag.String("sizes", "", "size vectors (client as receiver)")
	in := flag.String("in", "", "")
	outp := flag.String("out", "", "")
	shard := flag.Int("shard", 0, "")
	nshard := flag.Int("nshard", 1, "")
	seed := flag.Int64("seed", 1, "")
	reps := flag.Int("reps", 1, "concretisations per stream")
	doSweep := flag.Bool("sweep", false, "also sweep every prefix of every request type's body")
	flag.Parse()
	t := wirecodec.MustLoad()
	o := &out{}
	if *doSweep {
		sweep(t, *shard, *nshard, o)
	}
	if *sizes != "" {
		sf, err := os.Open(*sizes)
		if err != nil {
			fmt.Fprintln(os.Stderr, err)
			os.Exit(2)
		}
		ssc := bufio.NewScanner(sf)
		k := 0
		for ssc.Scan() {
			k++
			if (k-1)%*nshard != *shard {
				continue
			}
			b := ssc.Bytes()
			if len(b) > 0 && b[0] == '"' {
				var s string
				json.Unmarshal(b, &s)
				b = []byte(s)
			}
			var sv sizeVec
			if json.Unmarshal(b, &sv) == nil {
				clientSize(t, &sv, o)
			}
		}
	}
	if *in == "" {
		b, _ := json.Marshal(o)
		if *outp == "" {
			os.Stdout.Write(b)
		} else {
			os.WriteFile(*outp, b, 0o644)
		}
		return
	}
	f, err := os.Open(*in)
	if err != nil {
		fmt.Fprintln(os.Stderr, err)
		os.Exit(2)
	}
	sc := bufio.NewScanner(f)
	sc.Buffer(make([]byte, 1<<20), 16<<20)
	i := 0
	for sc.Scan() {
		i++
		if (i-1)%*nshard != *shard {
			continue
		}
		b := sc.Bytes()
		if len(b) > 0 && b[0] == '"' {
			var s string
			json.Unmarshal(b, &s)
			b = []byte(s)
		}
		var v vec
		if err := json.Unmarshal(b, &v); err != nil {
			o.Findings = append(o.Findings, "bad vector: "+err.Error())
			continue
		}
		for r := 0; r < *reps; r++ {
			run(t, &v, *seed*1000003+int64(i)*31+int64(r), o)
		}
		if len(o.Findings) > 25 {
			break
		}
	}
	b, _ := json.Marshal(o)
	if *outp == "" {
		os.Stdout.Write(b)
	} else {
		os.WriteFile(*outp, b, 0o644)
	}
}
