// Command sessionreplay replays TLC-generated Session.tla histories against
// the real p9.Server (see package replay) and writes a JSON summary.
package main

import (
	"bufio"
	"encoding/json"
	"flag"
	"fmt"
	"os"
	"strings"
	"time"

	"verifharness/replay"
	"verifharness/wirecodec"
)

type sample struct {
	History    json.RawMessage    `json:"history"`
	Mismatch   *replay.Mismatch   `json:"mismatch,omitempty"`
	Mismatches []*replay.Mismatch `json:"mismatches,omitempty"`
}

type summary struct {
	Histories   int                 `json:"histories"`
	Steps       int                 `json:"steps"`
	Calls       int                 `json:"backend_calls"`
	Closes      int                 `json:"closes"`
	Agreed      int                 `json:"agreed"`
	Cuts        int                 `json:"cuts"`
	ByProp      map[string]int      `json:"mismatch_by_prop"`
	ByTag       map[string]int      `json:"mismatch_by_tag"`
	Distinct    map[string]int      `json:"distinct_last_steps"`
	Mismatches  []sample            `json:"mismatches"`
	Samples     []json.RawMessage   `json:"samples"`
	Replays     map[string][]string `json:"replays"`
	WallS       float64             `json:"wall_s"`
	TreeHook    bool                `json:"tree_hook"`
	kept        map[string]int
	ParseErrors int                 `json:"parse_errors"`
}

func main() {
	in := flag.String("in", "", "ndjson file of histories")
	out := flag.String("out", "", "summary json")
	shard := flag.Int("shard", 0, "shard index")
	nshard := flag.Int("nshard", 1, "number of shards")
	_ = flag.String("replaydir", "", "unused (kept for compatibility)")
	timeout := flag.Duration("timeout", 10*time.Second, "per-event timeout")
	maxKeep := flag.Int("keep", 20, "mismatches to keep in the summary")
	single := flag.Bool("single", false, "input is one replay file {history, mismatch}")
	cuts := flag.String("cuts", "", "also cut the last frame of every history: sample | all")
	flag.Parse()

	opt := replay.Options{Table: wirecodec.MustLoad(), Timeout: *timeout}
	sum := &summary{ByProp: map[string]int{}, ByTag: map[string]int{}, Distinct: map[string]int{}, Replays: map[string][]string{}, kept: map[string]int{}}
	start := time.Now()

	if *single {
		b, err := os.ReadFile(*in)
		if err != nil {
			fmt.Fprintln(os.Stderr, err)
			os.Exit(2)
		}
		var s sample
		if err := json.Unmarshal(b, &s); err != nil {
			fmt.Fprintln(os.Stderr, err)
			os.Exit(2)
		}
		hist, err := replay.ParseLine(s.History)
		if err != nil {
			fmt.Fprintln(os.Stderr, err)
			os.Exit(2)
		}
		mms, _ := replay.Replay(opt, hist)
		for _, mm := range mms {
			fmt.Printf("MISMATCH prop=%s tag=%s step=%d %s\n", mm.Prop, mm.Tag, mm.Step, mm.Detail)
		}
		if len(mms) > 0 {
			os.Exit(1)
		}
		fmt.Println("history agrees with the model")
		return
	}

	f, err := os.Open(*in)
	if err != nil {
		fmt.Fprintln(os.Stderr, err)
		os.Exit(2)
	}
	defer f.Close()
	sc := bufio.NewScanner(f)
	sc.Buffer(make([]byte, 1<<20), 256<<20)
	line := 0
	for sc.Scan() {
		line++
		if (line-1)%*nshard != *shard {
			continue
		}
		raw := append([]byte{}, sc.Bytes()...)
		hist, err := replay.ParseLine(raw)
		if err != nil {
			sum.ParseErrors++
			continue
		}
		steps := hist.H
		// keep a pristine copy for the report (Replay marks calls as used)
		mms, run := replay.Replay(opt, hist)
		sum.Histories++
		sum.Steps += run.Steps
		sum.Calls += run.CallsSeen
		sum.Closes += run.ClosesSeen
		if len(steps) > 0 {
			sum.Distinct[replay.Key(&steps[len(steps)-1])]++
		}
		if *cuts != "" && len(mms) == 0 {
			if n := replay.FrameLen(opt, hist); n > 0 {
				offs := []int{1, 5, 7, n - 1}
				if *cuts == "all" {
					offs = offs[:0]
					for k := 1; k < n; k++ {
						offs = append(offs, k)
					}
				}
				for _, k := range offs {
					if k <= 0 || k >= n {
						continue
					}
					h2, _ := replay.ParseLine(raw)
					cm, crun := replay.ReplayCut(opt, h2, k)
					sum.Cuts++
					sum.Steps += crun.Steps
					sum.Closes += crun.ClosesSeen
					for _, m := range cm {
						m.Detail = fmt.Sprintf("stream cut after %d of %d bytes of the last frame: %s", k, n, m.Detail)
						m.Tag = "cut-" + m.Tag
						mms = append(mms, m)
					}
					if len(cm) > 0 {
						break
					}
				}
			}
		}
		if len(mms) == 0 {
			sum.Agreed++
			if len(sum.Samples) < 3 && len(steps) >= 2 && len(steps[len(steps)-1].Calls) > 0 && len(steps[len(steps)-2].Calls) > 0 {
				sum.Samples = append(sum.Samples, inner(raw))
			}
			continue
		}
		seen := map[string]bool{}
		for _, mm := range mms {
			for _, owner := range strings.Split(mm.Prop, ",") {
				if seen[owner] {
					continue
				}
				seen[owner] = true
				sum.ByProp[owner]++
				sum.ByTag[mm.Tag]++
				// one sample per owning property, so that every check finds its own
				if sum.kept[owner] < *maxKeep {
					sum.kept[owner]++
					m2 := *mm
					m2.Prop = owner
					sum.Mismatches = append(sum.Mismatches, sample{History: inner(raw), Mismatch: &m2, Mismatches: mms})
				}
			}
		}
	}
	sum.TreeHook = replay.HaveTreeHook
	sum.WallS = time.Since(start).Seconds()
	b, _ := json.MarshalIndent(sum, "", " ")
	if *out == "" {
		os.Stdout.Write(b)
	} else if err := os.WriteFile(*out, b, 0o644); err != nil {
		fmt.Fprintln(os.Stderr, err)
		os.Exit(2)
	}
}

// inner returns the JSON array held by a TLC line.
func inner(raw []byte) json.RawMessage {
	if len(raw) > 0 && raw[0] == '"' {
		var s string
		if json.Unmarshal(raw, &s) == nil {
			return json.RawMessage(s)
		}
	}
	return json.RawMessage(raw)
}
