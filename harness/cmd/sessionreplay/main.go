// Command sessionreplay replays TLC-generated Session.tla histories against
// the real p9.Server (see package replay) and writes a JSON summary.
package main

import (
	"bufio"
	"crypto/sha1"
	"encoding/hex"
	"encoding/json"
	"flag"
	"fmt"
	"os"
	"path/filepath"
	"time"

	"verifharness/replay"
	"verifharness/wirecodec"
)

type sample struct {
	History  json.RawMessage  `json:"history"`
	Mismatch *replay.Mismatch `json:"mismatch,omitempty"`
}

type summary struct {
	Histories   int                 `json:"histories"`
	Steps       int                 `json:"steps"`
	Calls       int                 `json:"backend_calls"`
	Closes      int                 `json:"closes"`
	Agreed      int                 `json:"agreed"`
	ByProp      map[string]int      `json:"mismatch_by_prop"`
	ByTag       map[string]int      `json:"mismatch_by_tag"`
	Distinct    map[string]int      `json:"distinct_last_steps"`
	Mismatches  []sample            `json:"mismatches"`
	Samples     []json.RawMessage   `json:"samples"`
	Replays     map[string][]string `json:"replays"`
	WallS       float64             `json:"wall_s"`
	ParseErrors int                 `json:"parse_errors"`
}

func main() {
	in := flag.String("in", "", "ndjson file of histories")
	out := flag.String("out", "", "summary json")
	shard := flag.Int("shard", 0, "shard index")
	nshard := flag.Int("nshard", 1, "number of shards")
	replayDir := flag.String("replaydir", "", "where to write counterexample histories")
	timeout := flag.Duration("timeout", 10*time.Second, "per-event timeout")
	maxKeep := flag.Int("keep", 20, "mismatches to keep in the summary")
	single := flag.Bool("single", false, "input is one replay file {history, mismatch}")
	flag.Parse()

	opt := replay.Options{Table: wirecodec.MustLoad(), Timeout: *timeout}
	sum := &summary{ByProp: map[string]int{}, ByTag: map[string]int{}, Distinct: map[string]int{}, Replays: map[string][]string{}}
	start := time.Now()

	if *single {
		b, err := os.ReadFile(*in)
		if err != nil {
			fmt.Fprintln(os.Stderr, err)
			os.Exit(2)
		}
		var s sample
		if err := json.Unmarshal(b, &s); err != nil {
			fmt.Fprintln(os.Stderr, err)
			os.Exit(2)
		}
		steps, err := replay.ParseLine(s.History)
		if err != nil {
			fmt.Fprintln(os.Stderr, err)
			os.Exit(2)
		}
		mm, _ := replay.Replay(opt, steps)
		if mm != nil {
			fmt.Printf("MISMATCH prop=%s tag=%s step=%d %s\n", mm.Prop, mm.Tag, mm.Step, mm.Detail)
			os.Exit(1)
		}
		fmt.Println("history agrees with the model")
		return
	}

	f, err := os.Open(*in)
	if err != nil {
		fmt.Fprintln(os.Stderr, err)
		os.Exit(2)
	}
	defer f.Close()
	sc := bufio.NewScanner(f)
	sc.Buffer(make([]byte, 1<<20), 256<<20)
	line := 0
	for sc.Scan() {
		line++
		if (line-1)%*nshard != *shard {
			continue
		}
		raw := append([]byte{}, sc.Bytes()...)
		steps, err := replay.ParseLine(raw)
		if err != nil {
			sum.ParseErrors++
			continue
		}
		// keep a pristine copy for the report (Replay marks calls as used)
		mm, run := replay.Replay(opt, steps)
		sum.Histories++
		sum.Steps += run.Steps
		sum.Calls += run.CallsSeen
		sum.Closes += run.ClosesSeen
		if len(steps) > 0 {
			sum.Distinct[replay.Key(&steps[len(steps)-1])]++
		}
		if mm == nil {
			sum.Agreed++
			if len(sum.Samples) < 3 && len(steps) >= 2 {
				sum.Samples = append(sum.Samples, inner(raw))
			}
			continue
		}
		sum.ByProp[mm.Prop]++
		sum.ByTag[mm.Tag]++
		s := sample{History: inner(raw), Mismatch: mm}
		if len(sum.Mismatches) < *maxKeep {
			sum.Mismatches = append(sum.Mismatches, s)
		}
		if *replayDir != "" && len(sum.Replays[mm.Prop]) < 5 {
			h := sha1.Sum(raw)
			p := filepath.Join(*replayDir, fmt.Sprintf("session-%s-%s.json", mm.Prop, hex.EncodeToString(h[:6])))
			b, _ := json.MarshalIndent(s, "", " ")
			if os.WriteFile(p, b, 0o644) == nil {
				sum.Replays[mm.Prop] = append(sum.Replays[mm.Prop], p)
			}
		}
	}
	sum.WallS = time.Since(start).Seconds()
	b, _ := json.MarshalIndent(sum, "", " ")
	if *out == "" {
		os.Stdout.Write(b)
	} else if err := os.WriteFile(*out, b, 0o644); err != nil {
		fmt.Fprintln(os.Stderr, err)
		os.Exit(2)
	}
}

// inner returns the JSON array held by a TLC line.
func inner(raw []byte) json.RawMessage {
	if len(raw) > 0 && raw[0] == '"' {
		var s string
		if json.Unmarshal(raw, &s) == nil {
			return json.RawMessage(s)
		}
	}
	return json.RawMessage(raw)
}
