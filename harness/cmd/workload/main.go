// Command workload runs seeded random concurrent workloads (walks, creates,
// unlinks, renames, clunks, I/O) from many client goroutines over several
// connections against ONE real p9.Server with a permissive self-answering
// backend and scheduling perturbation in backend calls and in the transport.
// Every client works on its own fids and its own subtree with at most one
// request outstanding per fid, so every request must be answered, must succeed
// and reads must carry exactly the bytes the backend produced for them. The
// backend's enter/exit log is written out for validation by TLC against
// spec/Trace_Overlap.tla.
package main

import (
	"encoding/json"
	"flag"
	"fmt"
	"io"
	"math/rand"
	"os"
	"runtime"
	"sync"
	"sync/atomic"
	"time"

	"github.com/hugelgupf/p9/p9"

	"verifharness/peer"
	"verifharness/puppet"
	"verifharness/wirecodec"
)

type pausingWriter struct{ w io.WriteCloser }

func (p *pausingWriter) Write(b []byte) (int, error) {
	n, err := p.w.Write(b)
	if len(b) == 7 {
		runtime.Gosched()
		time.Sleep(15 * time.Microsecond)
	}
	return n, err
}
func (p *pausingWriter) Close() error { return p.w.Close() }

type connection struct {
	raw    *peer.Raw
	done   chan struct{}
	mu     sync.Mutex
	routes map[uint16]chan *wirecodec.Frame
	t      *wirecodec.Table
	bad    []string
}

func (c *connection) demux() {
	for b := range c.raw.FR.C {
		f, err := c.t.Decode(b)
		if err != nil {
			c.mu.Lock()
			c.bad = append(c.bad, "undecodable frame on the wire: "+err.Error())
			c.mu.Unlock()
			continue
		}
		c.mu.Lock()
		ch := c.routes[f.Tag]
		delete(c.routes, f.Tag)
		c.mu.Unlock()
		if ch == nil {
			c.mu.Lock()
			c.bad = append(c.bad, fmt.Sprintf("reply %s with tag %d that is not outstanding", f.Name, f.Tag))
			c.mu.Unlock()
			continue
		}
		ch <- f
	}
}

func (c *connection) rpc(tag uint16, name string, v wirecodec.Values, d time.Duration) (*wirecodec.Frame, error) {
	ch := make(chan *wirecodec.Frame, 1)
	c.mu.Lock()
	c.routes[tag] = ch
	c.mu.Unlock()
	if err := c.raw.Send(name, tag, v); err != nil {
		return nil, err
	}
	select {
	case f := <-ch:
		return f, nil
	case <-time.After(d):
		return nil, fmt.Errorf("%s (tag %d) was not answered within %v", name, tag, d)
	}
}

type result struct {
	Seed     int64    `json:"seed"`
	Clients  int      `json:"clients"`
	Conns    int      `json:"conns"`
	Requests int      `json:"requests"`
	Reads    int      `json:"reads"`
	Renames  int      `json:"renames"`
	Findings []string `json:"findings"`
	Events   int      `json:"events"`
}

func main() {
	nclients := flag.Int("clients", 16, "")
	nconns := flag.Int("conns", 4, "")
	steps := flag.Int("steps", 60, "requests per client (approx.)")
	seed := flag.Int64("seed", 1, "")
	crossRename := flag.Bool("xrename", true, "clients also rename across their own directories")
	trace := flag.String("trace", "", "backend enter/exit log (ndjson)")
	out := flag.String("out", "", "")
	watchdog := flag.Duration("watchdog", 10*time.Second, "")
	flag.Parse()
	t := wirecodec.MustLoad()
	res := &result{Seed: *seed, Clients: *nclients, Conns: *nconns}
	var fmu sync.Mutex
	finding := func(f string, a ...any) {
		fmu.Lock()
		if len(res.Findings) < 20 {
			res.Findings = append(res.Findings, fmt.Sprintf(f, a...))
		}
		fmu.Unlock()
	}

	auto := puppet.NewAuto()
	prng := rand.New(rand.NewSource(*seed))
	var pmu sync.Mutex
	auto.Delay = func(c *puppet.Call) time.Duration {
		pmu.Lock()
		defer pmu.Unlock()
		if prng.Intn(4) == 0 {
			return time.Duration(prng.Intn(200)) * time.Microsecond
		}
		return 0
	}
	auto.Answer = func(c *puppet.Call) (puppet.Result, bool) {
		if c.K != "ReadAt" {
			return puppet.Result{}, false
		}
		off := c.Args["offset"].(int64)
		n := int(off%7) + 1
		if n > len(c.Buf) {
			n = len(c.Buf)
		}
		for i := 0; i < n; i++ {
			c.Buf[i] = byte(off % 251)
		}
		r := puppet.Result{Res: "ok", N: n}
		if off%3 == 0 {
			r.Res, r.Err = "raw", io.EOF
		}
		return r, true
	}
	srv := p9.NewServer(&puppet.Attacher{C: auto.C})
	conns := make([]*connection, *nconns)
	for i := range conns {
		c := &connection{raw: peer.NewRaw(t), done: make(chan struct{}), routes: map[uint16]chan *wirecodec.Frame{}, t: t}
		r, w := c.raw.ServerEnds()
		go func() { srv.Handle(r, &pausingWriter{w}); close(c.done) }()
		go c.demux()
		if f, err := c.rpc(0xFFF0, "Tversion", wirecodec.Values{"msize": 65536, "version": "9P2000.L.Google.7"}, 5*time.Second); err != nil || f.Name != "Rversion" {
			fmt.Fprintln(os.Stderr, "negotiation failed", err)
			os.Exit(2)
		}
		conns[i] = c
	}
	var reqs, reads, renames int64
	var stuck int32
	var cmu sync.Mutex
	var wg sync.WaitGroup
	for k := 0; k < *nclients; k++ {
		wg.Add(1)
		go func(k int) {
			defer wg.Done()
			rng := rand.New(rand.NewSource(*seed*1000 + int64(k)))
			c := conns[k%len(conns)]
			tag := uint16(1 + k*400)
			fid := func(i int) int { return 1 + k*20 + i } // fids 0..19 of this client
			seq := 0
			call := func(name string, v wirecodec.Values, want string) *wirecodec.Frame {
				if atomic.LoadInt32(&stuck) != 0 {
					return nil // a request went unanswered: the run is over, nothing more is sent
				}
				seq++
				tg := tag + uint16(seq%390)
				f, err := c.rpc(tg, name, v, *watchdog)
				cmu.Lock()
				reqs++
				cmu.Unlock()
				if err != nil {
					atomic.StoreInt32(&stuck, 1)
					finding("client %d: %v", k, err)
					return nil
				}
				if f.Name != want {
					e := ""
					if f.Name == "Rlerror" {
						e = puppet.ErrnoName(uint32(wirecodec.U(f.V, "ecode")))
					}
					finding("client %d: %s answered %s %s, want %s (a client working alone on its own subtree always succeeds)", k, name, f.Name, e, want)
					return nil
				}
				return f
			}
			dir := fmt.Sprintf("d%d", k)
			dir2 := fmt.Sprintf("e%d", k)
			nouid := uint64(0xFFFFFFFF)
			if call("Tattach", wirecodec.Values{"fid": fid(0), "afid": nouid, "uname": "u", "aname": "", "n_uname": nouid}, "Rattach") == nil {
				return
			}
			call("Tmkdir", wirecodec.Values{"dfid": fid(0), "name": dir, "mode": 0o755, "gid": 0}, "Rmkdir")
			call("Tmkdir", wirecodec.Values{"dfid": fid(0), "name": dir2, "mode": 0o755, "gid": 0}, "Rmkdir")
			call("Twalk", wirecodec.Values{"fid": fid(0), "newfid": fid(1), "names": []string{dir}}, "Rwalk")
			call("Twalk", wirecodec.Values{"fid": fid(0), "newfid": fid(2), "names": []string{dir2}}, "Rwalk")
			call("Twalk", wirecodec.Values{"fid": fid(1), "newfid": fid(5), "names": []string{}}, "Rwalk")
			for i := 0; i < *steps/8; i++ {
				fn := fmt.Sprintf("f%d_%d", k, i)
				// walk to the directory again, create a file there (the fid becomes the open file)
				call("Twalk", wirecodec.Values{"fid": fid(1), "newfid": fid(3), "names": []string{}}, "Rwalk")
				call("Tlcreate", wirecodec.Values{"fid": fid(3), "name": fn, "flags": 2, "mode": 0o644, "gid": 0}, "Rlcreate")
				call("Twrite", wirecodec.Values{"fid": fid(3), "offset": 0, "data": []byte(fn)}, "Rwrite")
				for j := 0; j < 1+rng.Intn(4); j++ {
					off := int64(k*100000 + i*100 + j)
					cnt := 1 + rng.Intn(64)
					if f := call("Tread", wirecodec.Values{"fid": fid(3), "offset": uint64(off), "count": cnt}, "Rread"); f != nil {
						cmu.Lock()
						reads++
						cmu.Unlock()
						d := f.V["data"].([]byte)
						n := int(off%7) + 1
						if n > cnt {
							n = cnt
						}
						if len(d) != n {
							finding("client %d: Rread carries %d bytes, the backend produced %d for this request", k, len(d), n)
						}
						for _, x := range d {
							if x != byte(off%251) {
								finding("client %d: Rread carries byte %#x, the backend produced %#x for this request (another request's data or a recycled buffer)", k, x, byte(off%251))
								break
							}
						}
					}
				}
				switch rng.Intn(4) {
				case 0:
					call("Tgetattr", wirecodec.Values{"fid": fid(3), "request_mask": []string{"mode"}}, "Rgetattr")
				case 1:
					call("Tfsync", wirecodec.Values{"fid": fid(3)}, "Rfsync")
				case 2:
					call("Txattrwalk", wirecodec.Values{"fid": fid(3), "newfid": fid(4), "name": "user.x"}, "Rxattrwalk")
					call("Tclunk", wirecodec.Values{"fid": fid(4)}, "Rclunk")
				}
				variant := 0
				if *crossRename {
					variant = rng.Intn(6)
				}
				if variant == 1 || variant == 2 {
					// move the file to the client's second directory
					call("Trenameat", wirecodec.Values{"olddirfid": fid(1), "oldname": fn, "newdirfid": fid(2), "newname": fn + "m"}, "Rrenameat")
					cmu.Lock()
					renames++
					cmu.Unlock()
					call("Tgetattr", wirecodec.Values{"fid": fid(3), "request_mask": []string{"mode"}}, "Rgetattr")
					call("Tunlinkat", wirecodec.Values{"dirfd": fid(2), "name": fn + "m", "flags": 0}, "Runlinkat")
				} else if variant == 3 {
					// rename within the directory, named through two different fids of it
					call("Trenameat", wirecodec.Values{"olddirfid": fid(1), "oldname": fn, "newdirfid": fid(5), "newname": fn + "s"}, "Rrenameat")
					cmu.Lock()
					renames++
					cmu.Unlock()
					call("Tgetattr", wirecodec.Values{"fid": fid(3), "request_mask": []string{"mode"}}, "Rgetattr")
					call("Tunlinkat", wirecodec.Values{"dirfd": fid(5), "name": fn + "s", "flags": 0}, "Runlinkat")
				} else if variant == 4 {
					// Trename of a fid reached by a walk of two components, within its directory
					call("Twalk", wirecodec.Values{"fid": fid(0), "newfid": fid(6), "names": []string{dir, fn}}, "Rwalk")
					call("Trename", wirecodec.Values{"fid": fid(6), "dfid": fid(1), "name": fn + "t"}, "Rrename")
					cmu.Lock()
					renames++
					cmu.Unlock()
					call("Tgetattr", wirecodec.Values{"fid": fid(6), "request_mask": []string{"mode"}}, "Rgetattr")
					call("Tclunk", wirecodec.Values{"fid": fid(6)}, "Rclunk")
					call("Tunlinkat", wirecodec.Values{"dirfd": fid(1), "name": fn + "t", "flags": 0}, "Runlinkat")
				} else {
					call("Tunlinkat", wirecodec.Values{"dirfd": fid(1), "name": fn, "flags": 0}, "Runlinkat")
				}
				call("Tclunk", wirecodec.Values{"fid": fid(3)}, "Rclunk")
			}
			call("Tclunk", wirecodec.Values{"fid": fid(5)}, "Rclunk")
			call("Tclunk", wirecodec.Values{"fid": fid(2)}, "Rclunk")
			call("Tclunk", wirecodec.Values{"fid": fid(1)}, "Rclunk")
			call("Tclunk", wirecodec.Values{"fid": fid(0)}, "Rclunk")
		}(k)
	}
	wg.Wait()
	for _, c := range conns {
		c.raw.Hangup()
	}
	for _, c := range conns {
		select {
		case <-c.done:
		case <-time.After(5 * time.Second):
			finding("Server.Handle did not return after end of stream")
		}
		c.mu.Lock()
		for _, b := range c.bad {
			finding("%s", b)
		}
		c.mu.Unlock()
	}
	auto.Stop()
	for id, n := range auto.C.Closes {
		if n != 1 {
			finding("file %d closed %d times", id, n)
			break
		}
	}
	if len(auto.C.Closes) != len(auto.C.Files()) {
		finding("%d files handed out, %d closed", len(auto.C.Files()), len(auto.C.Closes))
	}
	if len(auto.C.UAC) > 0 {
		finding("use after close: %s", auto.C.UAC[0])
	}
	res.Requests, res.Reads, res.Renames = int(reqs), int(reads), int(renames)
	evs := auto.Events()
	res.Events = len(evs)
	if *trace != "" {
		f, err := os.Create(*trace)
		if err != nil {
			fmt.Fprintln(os.Stderr, err)
			os.Exit(2)
		}
		enc := json.NewEncoder(f)
		enc.Encode(map[string]any{"ev": "reset", "cell": *seed})
		// Attribute calls to the kind of request that issued them where the
		// known deviations need it: a GetAttr on a File right after the Walk /
		// Attach of the same goroutine created it is walk-issued.
		lastNF := map[int64]int{}
		reqOf := map[int64]string{}
		for _, e := range evs {
			if e.Ev == "exit" {
				lastNF[e.G] = e.NF
			} else {
				reqOf[e.Call] = "other"
				switch {
				case e.K == "Walk" || e.K == "WalkGetAttr":
					reqOf[e.Call] = "Twalk"
				case e.K == "Attach":
					reqOf[e.Call] = "Tattach"
				case e.K == "GetAttr" && lastNF[e.G] == e.F && e.F != 0:
					reqOf[e.Call] = "Twalk"
				}
			}
		}
		for _, e := range evs {
			entry := ""
			if e.K == "UnlinkAt" && len(e.Names) > 0 {
				entry = e.Names[0]
			}
			p := e.Path
			if p == nil {
				p = []string{}
			}
			enc.Encode(map[string]any{"ev": e.Ev, "cell": *seed, "call": e.Call, "k": e.K, "file": e.F, "path": p,
				"entry": entry, "nonames": len(e.Names) == 0, "req": reqOf[e.Call]})
		}
		f.Close()
	}
	b, _ := json.Marshal(res)
	if *out == "" {
		os.Stdout.Write(b)
	} else {
		os.WriteFile(*out, b, 0o644)
	}
}
