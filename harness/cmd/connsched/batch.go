package main

import (
	"fmt"
	"io"
	"math/rand"
	"runtime"
	"sync"
	"time"

	"github.com/hugelgupf/p9/p9"

	"verifharness/peer"
	"verifharness/puppet"
	"verifharness/wirecodec"
)

// pausingWriter delivers every Write call separately and yields inside a
// frame (after the 7-byte header), so that two goroutines writing replies
// without mutual exclusion interleave their pieces.
type pausingWriter struct {
	w io.WriteCloser
}

func (p *pausingWriter) Write(b []byte) (int, error) {
	n, err := p.w.Write(b)
	if len(b) == 7 {
		runtime.Gosched()
		time.Sleep(30 * time.Microsecond)
	}
	return n, err
}

func (p *pausingWriter) Close() error { return p.w.Close() }

type batchResult struct {
	Rounds   int      `json:"rounds"`
	Requests int      `json:"requests"`
	Findings []string `json:"findings"`
	Sample   any      `json:"sample"`
}

// batch: n Treads with distinct counts are all held inside ReadAt, then
// released at once in a seeded random order from concurrent goroutines. Every
// frame on the wire must be well formed, every tag answered exactly once with
// Rread, and every payload must have the requested length and carry the bytes
// produced for that request.
func (rn *runner) batch(n, rounds int, seed int64) (*batchResult, error) {
	res := &batchResult{}
	rng := rand.New(rand.NewSource(seed))
	for round := 0; round < rounds; round++ {
		auto := puppet.NewAuto()
		srv := p9.NewServer(&puppet.Attacher{C: auto.C})
		raw := peer.NewRaw(rn.t)
		done := make(chan struct{})
		t, w := raw.ServerEnds()
		go func() { srv.Handle(t, &pausingWriter{w}); close(done) }()
		tag := uint16(2000)
		next := func() uint16 { tag++; return tag }
		if _, err := rn.lockstep(raw, "Tversion", next(), wirecodec.Values{"msize": 65536, "version": "9P2000.L.Google.7"}); err != nil {
			return nil, err
		}
		if _, err := rn.lockstep(raw, "Tattach", next(), wirecodec.Values{"fid": 1, "afid": uint64(0xFFFFFFFF), "uname": "u", "aname": "", "n_uname": uint64(0xFFFFFFFF)}); err != nil {
			return nil, err
		}
		fileOf := map[int]int{}
		for i := 1; i <= n; i++ {
			if _, err := rn.lockstep(raw, "Twalk", next(), wirecodec.Values{"fid": 1, "newfid": 100 + i, "names": []string{fmt.Sprintf("f%d", i)}}); err != nil {
				return nil, err
			}
			maxID := 0
			for id := range auto.C.Files() {
				if id > maxID {
					maxID = id
				}
			}
			fileOf[i] = maxID
			if _, err := rn.lockstep(raw, "Tlopen", next(), wirecodec.Values{"fid": 100 + i, "flags": 0}); err != nil {
				return nil, err
			}
		}
		auto.SetGate(func(c *puppet.Call) bool { return c.K == "ReadAt" })
		counts := map[int]int{}
		for i := 1; i <= n; i++ {
			counts[i] = 1 + rng.Intn(3000)
			if i%7 == 0 {
				counts[i] = 0
			}
			raw.Send("Tread", uint16(i), wirecodec.Values{"fid": 100 + i, "offset": 0, "count": counts[i]})
		}
		// wait until all are inside
		deadline := time.Now().Add(5 * time.Second)
		for len(auto.Held()) < n && time.Now().Before(deadline) {
			time.Sleep(time.Millisecond)
		}
		if len(auto.Held()) < n {
			res.Findings = append(res.Findings, fmt.Sprintf("round %d: only %d of %d requests reached the backend while the others were held (head-of-line blocking)", round, len(auto.Held()), n))
		}
		held := auto.Held()
		rng.Shuffle(len(held), func(i, j int) { held[i], held[j] = held[j], held[i] })
		var wg sync.WaitGroup
		for _, c := range held {
			wg.Add(1)
			go func(c *puppet.Call) {
				defer wg.Done()
				auto.Release(func(x *puppet.Call) bool { return x == c })
			}(c)
		}
		wg.Wait()
		seen := map[int]int{}
		for k := 0; k < n; k++ {
			b, ok, to := raw.FR.Next(3 * time.Second)
			if to || !ok {
				res.Findings = append(res.Findings, fmt.Sprintf("round %d: %d of %d replies arrived (stream error: %v)", round, k, n, raw.FR.Err))
				break
			}
			f, err := rn.t.Decode(b)
			if err != nil {
				res.Findings = append(res.Findings, fmt.Sprintf("round %d: malformed frame on the wire (interleaved replies?): %v", round, err))
				break
			}
			id := int(f.Tag)
			seen[id]++
			if f.Name != "Rread" || id < 1 || id > n {
				res.Findings = append(res.Findings, fmt.Sprintf("round %d: unexpected reply %s tag %d", round, f.Name, id))
				continue
			}
			d := f.V["data"].([]byte)
			if len(d) != counts[id] {
				res.Findings = append(res.Findings, fmt.Sprintf("round %d: Rread tag %d carries %d bytes, %d requested", round, id, len(d), counts[id]))
			}
			for _, x := range d {
				if x != byte(fileOf[id]) {
					res.Findings = append(res.Findings, fmt.Sprintf("round %d: Rread tag %d carries bytes of another request", round, id))
					break
				}
			}
		}
		for id, k := range seen {
			if k != 1 {
				res.Findings = append(res.Findings, fmt.Sprintf("round %d: tag %d answered %d times", round, id, k))
			}
		}
		if _, ok, to := raw.FR.Next(20 * time.Millisecond); ok && !to {
			res.Findings = append(res.Findings, fmt.Sprintf("round %d: a reply nobody asked for", round))
		}
		res.Rounds++
		res.Requests += n
		if round == 0 {
			res.Sample = map[string]any{"in_flight": n, "counts": counts}
		}
		auto.SetGate(nil)
		raw.Hangup()
		select {
		case <-done:
		case <-time.After(3 * time.Second):
			res.Findings = append(res.Findings, "Handle did not return")
		}
		auto.Stop()
		if len(res.Findings) > 5 {
			break
		}
	}
	return res, nil
}
