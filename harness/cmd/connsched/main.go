// Command connsched executes stimulus scripts derived from spec/ConnLoop.tla
// (deliver request r, release the backend call of r, hang up) against a real
// p9.Server whose backend holds selected calls at a gate, waits for quiescence
// after each stimulus and records what is observable: complete reply frames,
// calls parked inside the backend, whether Server.Handle has returned.
// Acceptance of the recorded observations is decided against the state graph
// TLC computed (lib/bigstep.py).
package main

import (
	"encoding/json"
	"flag"
	"fmt"
	"os"
	"runtime"
	"sort"
	"sync"
	"time"

	"github.com/hugelgupf/p9/p9"

	"verifharness/peer"
	"verifharness/puppet"
	"verifharness/wirecodec"
)

type reqSpec struct {
	ID   int    `json:"id"`
	Tag  int    `json:"tag"`
	Kind string `json:"kind"` // op | flush | bad
	Old  int    `json:"old"`
	Op   string `json:"op"` // getattr read write walk mkdir renameat
}

type input struct {
	Reqs    []reqSpec  `json:"reqs"`
	Scripts [][][2]any `json:"scripts"`
	Name    string     `json:"name"`
}

type obs struct {
	Replies []int `json:"replies"`
	Gated   []int `json:"gated"`
	Exited  bool  `json:"exited"`
}

type result struct {
	Script  int      `json:"script"`
	Obs     []obs    `json:"obs"`
	Monitor []string `json:"monitor"` // model-independent findings (wrong tag/type, unsolicited reply, bad frame)
	Calls   int      `json:"calls"`
}

var gateKind = map[string]string{"getattr": "GetAttr", "read": "ReadAt", "write": "WriteAt", "walk": "Walk", "mkdir": "Mkdir", "renameat": "RenameAt", "setattr": "SetAttr", "clunk": "Close", "walkover": "Close", "renamedeep": "Renamed"}
var replyType = map[string]string{"getattr": "Rgetattr", "read": "Rread", "write": "Rwrite", "walk": "Rwalk", "mkdir": "Rmkdir", "renameat": "Rrenameat", "setattr": "Rsetattr", "clunk": "Rclunk", "walkover": "Rwalk", "renamedeep": "Rrenameat"}

type runner struct {
	t     *wirecodec.Table
	quiet time.Duration
	maxw  time.Duration
}

func (rn *runner) lockstep(raw *peer.Raw, name string, tag uint16, v wirecodec.Values) (*wirecodec.Frame, error) {
	if err := raw.Send(name, tag, v); err != nil {
		return nil, err
	}
	b, ok, to := raw.FR.Next(5 * time.Second)
	if to || !ok {
		return nil, fmt.Errorf("setup: no reply to %s", name)
	}
	f, err := rn.t.Decode(b)
	if err != nil {
		return nil, err
	}
	if f.Name == "Rlerror" {
		return f, fmt.Errorf("setup: %s answered Rlerror %d", name, wirecodec.U(f.V, "ecode"))
	}
	// let the handler goroutine return to the idle pool before the next request arrives: the server
	// then enters the scripted part with the minimal pool (one receiver, one idle), so that a step
	// which fails to provide a receiver shows at once instead of being masked by spare goroutines
	time.Sleep(2 * time.Millisecond)
	return f, nil
}

func (rn *runner) run(in *input, si int) (*result, error) {
	res := &result{Script: si}
	auto := puppet.NewAuto()
	defer auto.Stop()
	srv := p9.NewServer(&puppet.Attacher{C: auto.C})
	raw := peer.NewRaw(rn.t)
	done := make(chan struct{})
	t, w := raw.ServerEnds()
	go func() { srv.Handle(t, w); close(done) }()

	// setup in lock step; setup tags are >= 1000
	tag := uint16(1000)
	next := func() uint16 { tag++; return tag }
	if _, err := rn.lockstep(raw, "Tversion", next(), wirecodec.Values{"msize": 65536, "version": "9P2000.L.Google.7"}); err != nil {
		return nil, err
	}
	if _, err := rn.lockstep(raw, "Tattach", next(), wirecodec.Values{"fid": 1, "afid": uint64(0xFFFFFFFF), "uname": "u", "aname": "", "n_uname": uint64(0xFFFFFFFF)}); err != nil {
		return nil, err
	}
	fileOf := map[int]int{} // request -> backend file its gated call is made on
	for _, r := range in.Reqs {
		if r.Kind != "op" {
			continue
		}
		fid := 100 + r.ID
		var names []string
		switch r.Op {
		case "getattr", "walk", "setattr", "clunk", "walkover":
			names = []string{fmt.Sprintf("d%d", r.ID)}
		case "read", "write":
			names = []string{fmt.Sprintf("f%d", r.ID)}
		case "mkdir", "renameat", "renamedeep":
			names = []string{fmt.Sprintf("d%d", r.ID)}
		}
		before := len(auto.C.Files())
		if _, err := rn.lockstep(raw, "Twalk", next(), wirecodec.Values{"fid": 1, "newfid": fid, "names": names}); err != nil {
			return nil, err
		}
		_ = before
		if r.Op == "renamedeep" {
			// a second fid on a file two levels below the directory entry that will be renamed: the request's
			// gated backend call is the Renamed callback on that file, made after RenameAt succeeded
			if _, err := rn.lockstep(raw, "Twalk", next(), wirecodec.Values{"fid": 1, "newfid": 300 + r.ID, "names": []string{fmt.Sprintf("d%d", r.ID), "a", "sub", "f"}}); err != nil {
				return nil, err
			}
		}
		// the handle created last by this walk
		maxID := 0
		for id := range auto.C.Files() {
			if id > maxID {
				maxID = id
			}
		}
		fileOf[r.ID] = maxID
		if r.Op == "read" || r.Op == "write" {
			if _, err := rn.lockstep(raw, "Tlopen", next(), wirecodec.Values{"fid": fid, "flags": 2}); err != nil {
				return nil, err
			}
		}
	}
	byID := map[int]reqSpec{}
	for _, r := range in.Reqs {
		byID[r.ID] = r
	}
	// (a Close is held only when it is the Tclunk's: the connection's teardown closes the same File
	// if the request was never delivered, and that Close is not the request's backend call)
	var dmu sync.Mutex
	delivered := map[int]bool{}
	auto.SetGate(func(c *puppet.Call) bool {
		for _, r := range in.Reqs {
			if r.Kind == "op" && c.K == gateKind[r.Op] && c.F == fileOf[r.ID] {
				if gateKind[r.Op] == "Close" {
					dmu.Lock()
					d := delivered[r.ID]
					dmu.Unlock()
					if !d {
						return false
					}
				}
				return true
			}
		}
		return false
	})
	gatedReq := func(c *puppet.Call) int {
		for _, r := range in.Reqs {
			if r.Kind == "op" && c.K == gateKind[r.Op] && c.F == fileOf[r.ID] {
				return r.ID
			}
		}
		return 0
	}

	// requests delivered and not yet answered, by tag, oldest first
	pending := map[int][]int{}
	replied := map[int]bool{}
	exited := false
	hungup := false

	observe := func() obs {
		// wait for quiescence
		deadline := time.Now().Add(rn.maxw)
		idle := time.NewTimer(rn.quiet)
		for {
			select {
			case b, ok := <-raw.FR.C:
				if !ok {
					raw.FR.C = nil
					break
				}
				f, err := rn.t.Decode(b)
				if err != nil {
					res.Monitor = append(res.Monitor, fmt.Sprintf("undecodable or non-contiguous reply frame: %v", err))
					break
				}
				tg := int(f.Tag)
				q := pending[tg]
				if len(q) == 0 {
					res.Monitor = append(res.Monitor, fmt.Sprintf("reply %s with tag %d that no outstanding request has", f.Name, tg))
					break
				}
				// several outstanding requests may carry one tag (a frame that re-uses a busy tag): the reply belongs
				// to the oldest of them that expects this reply type, else to the oldest
				qi := 0
				for k, cand := range q {
					c := byID[cand]
					w := "Rflush"
					switch c.Kind {
					case "op":
						w = replyType[c.Op]
					case "bad":
						w = "Rlerror"
					}
					if w == f.Name {
						qi = k
						break
					}
				}
				r := byID[q[qi]]
				pending[tg] = append(append([]int{}, q[:qi]...), q[qi+1:]...)
				replied[r.ID] = true
				want := "Rflush"
				switch r.Kind {
				case "op":
					want = replyType[r.Op]
				case "bad":
					want = "Rlerror"
				}
				if f.Name != want && !(r.Kind == "op" && f.Name == "Rlerror" && hungup) {
					res.Monitor = append(res.Monitor, fmt.Sprintf("request %d (%s) answered %s, want %s", r.ID, r.Kind+":"+r.Op, f.Name, want))
				}
			case c := <-auto.Notify:
				_ = c
			case <-done:
				exited = true
				done = nil
			case <-idle.C:
				o := obs{Exited: exited}
				for id := range replied {
					o.Replies = append(o.Replies, id)
				}
				for _, c := range auto.Held() {
					if id := gatedReq(c); id != 0 {
						o.Gated = append(o.Gated, id)
					}
				}
				sort.Ints(o.Replies)
				sort.Ints(o.Gated)
				if o.Replies == nil {
					o.Replies = []int{}
				}
				if o.Gated == nil {
					o.Gated = []int{}
				}
				return o
			}
			if time.Now().After(deadline) {
				res.Monitor = append(res.Monitor, "no quiescence")
				return obs{}
			}
			if !idle.Stop() {
				select {
				case <-idle.C:
				default:
				}
			}
			idle.Reset(rn.quiet)
		}
	}

	for _, st := range in.Scripts[si] {
		kind := st[0].(string)
		id := int(st[1].(float64))
		switch kind {
		case "Deliver":
			r := byID[id]
			dmu.Lock()
			delivered[id] = true
			dmu.Unlock()
			tg := r.Tag
			var err error
			switch r.Kind {
			case "flush":
				pending[tg] = append(pending[tg], id)
				err = raw.Send("Tflush", uint16(tg), wirecodec.Values{"oldtag": r.Old})
			case "bad":
				if r.Op == "type" {
					// a frame of a type the server does not know, carrying whatever tag the configuration gives it
					// (possibly that of a request in progress): answered Rlerror with that tag, no tag bookkeeping
					pending[tg] = append(pending[tg], id)
					err = raw.SendBytes([]byte{11, 0, 0, 0, 124, byte(tg), byte(tg >> 8), 1, 2, 3, 4})
					break
				}
				// a Twalk whose name count exceeds its body: well delimited, undecodable.
				// The server answers with NOTAG (recv reports no tag for decode errors).
				pending[0xFFFF] = append(pending[0xFFFF], id)
				body := rn.t.EncodeBody("Twalk", wirecodec.Values{"fid": 1, "newfid": 2, "names": []string{}})
				body[8] = 9 // nwname = 9, no names follow
				frame := []byte{byte(7 + len(body)), 0, 0, 0, rn.t.Layout["Twalk"].ID, byte(tg), byte(tg >> 8)}
				err = raw.SendBytes(append(frame, body...))
			default:
				pending[tg] = append(pending[tg], id)
				fid := 100 + id
				switch r.Op {
				case "getattr":
					err = raw.Send("Tgetattr", uint16(tg), wirecodec.Values{"fid": fid, "request_mask": []string{"mode"}})
				case "clunk":
					err = raw.Send("Tclunk", uint16(tg), wirecodec.Values{"fid": fid})
				case "walkover":
					// a walk onto a fid number that is bound: the binding is replaced and the old File closed
					err = raw.Send("Twalk", uint16(tg), wirecodec.Values{"fid": 1, "newfid": fid, "names": []string{"w"}})
				case "setattr":
					err = raw.Send("Tsetattr", uint16(tg), wirecodec.Values{"fid": fid, "valid": []string{"size"}})
				case "read":
					err = raw.Send("Tread", uint16(tg), wirecodec.Values{"fid": fid, "offset": 0, "count": 8 + id})
				case "write":
					err = raw.Send("Twrite", uint16(tg), wirecodec.Values{"fid": fid, "offset": 0, "data": []byte("hello")})
				case "walk":
					err = raw.Send("Twalk", uint16(tg), wirecodec.Values{"fid": fid, "newfid": 200 + id, "names": []string{"x"}})
				case "mkdir":
					err = raw.Send("Tmkdir", uint16(tg), wirecodec.Values{"dfid": fid, "name": "n", "mode": 0o755, "gid": 0})
				case "renamedeep":
					err = raw.Send("Trenameat", uint16(tg), wirecodec.Values{"olddirfid": fid, "oldname": "a", "newdirfid": fid, "newname": "b"})
				case "renameat":
					err = raw.Send("Trenameat", uint16(tg), wirecodec.Values{"olddirfid": fid, "oldname": "a", "newdirfid": fid, "newname": "b"})
				}
			}
			if err != nil {
				res.Monitor = append(res.Monitor, "send failed: "+err.Error())
			}
		case "Release":
			auto.Release(func(c *puppet.Call) bool { return gatedReq(c) == id })
		case "Hangup":
			raw.Hangup()
			hungup = true
		}
		res.Obs = append(res.Obs, observe())
	}
	// tear down: release everything, hang up, wait for Handle
	auto.SetGate(nil)
	auto.Release(nil)
	if !hungup {
		raw.Hangup()
	}
	if done != nil {
		select {
		case <-done:
		case <-time.After(3 * time.Second):
			// a stuck handler keeps Handle from returning; reported through the observations
		}
	}
	res.Calls = len(auto.Events())
	return res, nil
}

func main() {
	in := flag.String("in", "", "scripts json")
	out := flag.String("out", "", "observations json")
	shard := flag.Int("shard", 0, "")
	nshard := flag.Int("nshard", 1, "")
	quiet := flag.Duration("quiet", 20*time.Millisecond, "idle window that counts as quiescence")
	batchN := flag.Int("batch", 0, "batch mode: number of in-flight reads")
	rounds := flag.Int("rounds", 10, "batch mode: rounds")
	seed := flag.Int64("seed", 1, "batch mode: seed")
	flag.Parse()
	runtime.GOMAXPROCS(4)
	if *batchN > 0 {
		rn := &runner{t: wirecodec.MustLoad(), quiet: *quiet, maxw: 5 * time.Second}
		r, err := rn.batch(*batchN, *rounds, *seed+int64(*shard)*1000)
		if err != nil {
			fmt.Fprintln(os.Stderr, err)
			os.Exit(2)
		}
		ob, _ := json.Marshal(r)
		if *out == "" {
			os.Stdout.Write(ob)
		} else {
			os.WriteFile(*out, ob, 0o644)
		}
		return
	}
	b, err := os.ReadFile(*in)
	if err != nil {
		fmt.Fprintln(os.Stderr, err)
		os.Exit(2)
	}
	var inp input
	if err := json.Unmarshal(b, &inp); err != nil {
		fmt.Fprintln(os.Stderr, err)
		os.Exit(2)
	}
	rn := &runner{t: wirecodec.MustLoad(), quiet: *quiet, maxw: 5 * time.Second}
	var results []*result
	for i := range inp.Scripts {
		if i%*nshard != *shard {
			continue
		}
		r, err := rn.run(&inp, i)
		if err != nil {
			fmt.Fprintln(os.Stderr, "script", i, err)
			os.Exit(2)
		}
		results = append(results, r)
	}
	ob, _ := json.Marshal(results)
	if *out == "" {
		os.Stdout.Write(ob)
	} else if err := os.WriteFile(*out, ob, 0o644); err != nil {
		fmt.Fprintln(os.Stderr, err)
		os.Exit(2)
	}
}
