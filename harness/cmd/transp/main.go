// Command transp runs the scenarios of spec/ClientFile.tla through
//
//	p9.Client <-> recording proxy (forces the negotiated version) <-> p9.Server <-> recording backend
//
// and compares
//
//	C03: the backend call (operation, File, arguments after the documented rewriting) and the caller's
//	     return values / errno with the scenario;
//	C01: every frame captured on the wire, decoded with the reference codec interpreting Wire.tla's
//	     layout table, with the values the client was given / the backend returned (positionally, in
//	     Wire.tla's field order), its size field, and byte-exact re-encoding.
package main

import (
	"bufio"
	"encoding/json"
	"errors"
	"flag"
	"fmt"
	"io"
	"os"
	"reflect"
	"strings"
	"sync"
	"syscall"
	"time"

	"github.com/hugelgupf/p9/linux"
	"github.com/hugelgupf/p9/p9"

	"verifharness/peer"
	"verifharness/puppet"
	"verifharness/wirecodec"
)

type scen struct {
	M      string   `json:"m"`
	V      int      `json:"v"`
	Kind   string   `json:"kind"`
	Idx    int      `json:"idx"`
	Class  string   `json:"class"`
	Shape  string   `json:"shape"`
	Errno  string   `json:"errno"` // "EXPECTED<-GIVEN" for err scenarios
	TTypes []string `json:"ttypes"`
	Op     string   `json:"op"`
	UID    bool     `json:"uid"`
}

type out struct {
	Cases    int                 `json:"cases"`
	Frames   int                 `json:"frames"`
	Findings map[string][]string `json:"findings"` // by property
	Samples  []any               `json:"samples"`
}

var timeouts int

func (o *out) add(prop, f string) {
	if len(o.Findings[prop]) < 25 {
		o.Findings[prop] = append(o.Findings[prop], f)
	}
}

type captured struct {
	toServer bool
	raw      []byte
}

type world struct {
	t       *wirecodec.Table
	auto    *puppet.Auto
	cl      *p9.Client
	mu      sync.Mutex
	frames  []captured
	fidOf   map[p9.File]uint64 // client file -> fid (from the Twalk that made it)
	fileOf  map[p9.File]int    // client file -> backend file id
	msize   uint64
	closers []func()
}

// flatten returns the numeric leaves of a struct (bools as 0/1) in field order and its strings.
func flatten(v reflect.Value, nums *[]uint64, strs *[]string) {
	switch v.Kind() {
	case reflect.Struct:
		for i := 0; i < v.NumField(); i++ {
			flatten(v.Field(i), nums, strs)
		}
	case reflect.Bool:
		if v.Bool() {
			*nums = append(*nums, 1)
		} else {
			*nums = append(*nums, 0)
		}
	case reflect.Uint, reflect.Uint8, reflect.Uint16, reflect.Uint32, reflect.Uint64, reflect.Uintptr:
		*nums = append(*nums, v.Uint())
	case reflect.Int, reflect.Int8, reflect.Int16, reflect.Int32, reflect.Int64:
		*nums = append(*nums, uint64(v.Int()))
	case reflect.String:
		*strs = append(*strs, v.String())
	case reflect.Slice:
		for i := 0; i < v.Len(); i++ {
			flatten(v.Index(i), nums, strs)
		}
	}
}

func flat(x any) ([]uint64, []string) {
	var n []uint64
	var s []string
	flatten(reflect.ValueOf(x), &n, &s)
	return n, s
}

// wireFlat flattens a decoded wire value in Wire.tla's order.
func (w *world) wireFlat(kind string, v any, nums *[]uint64, strs *[]string) {
	switch kind {
	case "u8", "u16", "u32", "u64", "perm":
		*nums = append(*nums, v.(uint64))
	case "str":
		*strs = append(*strs, v.(string))
	case "strs":
		*strs = append(*strs, v.([]string)...)
	case "qid", "attr", "setattr", "fsstat", "dirent":
		m := v.(wirecodec.Values)
		for _, f := range w.t.Struct[kind] {
			w.wireFlat(f.Kind, m[f.Name], nums, strs)
		}
	case "qids":
		for _, q := range v.([]wirecodec.Values) {
			w.wireFlat("qid", q, nums, strs)
		}
	case "dirents":
		for _, d := range v.([]wirecodec.Values) {
			w.wireFlat("dirent", d, nums, strs)
		}
	case "attrmask", "setattrmask":
		names := w.t.AttrMask
		if kind == "setattrmask" {
			names = w.t.SetAttrMask
		}
		set := map[string]bool{}
		for _, b := range v.([]string) {
			set[b] = true
		}
		for _, n := range names {
			if set[n] {
				*nums = append(*nums, 1)
			} else {
				*nums = append(*nums, 0)
			}
		}
	case "data":
		*strs = append(*strs, string(v.([]byte)))
	}
}

func eqU(a, b []uint64) bool {
	if len(a) != len(b) {
		return false
	}
	for i := range a {
		if a[i] != b[i] {
			return false
		}
	}
	return true
}

func eqS(a, b []string) bool {
	if len(a) != len(b) {
		return false
	}
	for i := range a {
		if a[i] != b[i] {
			return false
		}
	}
	return true
}

// proxy copies frames between two duplex ends, recording them and rewriting the version in Tversion.
func (w *world) proxy(from io.Reader, to io.Writer, toServer bool, version int) {
	fr := peer.NewFrameReader(from)
	for b := range fr.C {
		if toServer && len(b) > 4 && b[4] == 100 { // Tversion
			f, err := w.t.Decode(b)
			if err == nil {
				vs := "9P2000.L"
				if version > 0 {
					vs = fmt.Sprintf("9P2000.L.Google.%d", version)
				}
				b = w.t.Encode("Tversion", f.Tag, wirecodec.Values{"msize": f.V["msize"], "version": vs})
			}
		} else {
			w.mu.Lock()
			w.frames = append(w.frames, captured{toServer, append([]byte{}, b...)})
			w.mu.Unlock()
		}
		if _, err := to.Write(b); err != nil {
			return
		}
	}
	if c, ok := to.(io.Closer); ok {
		c.Close()
	}
}

func newWorld(t *wirecodec.Table, version int, sock bool) (*world, p9.File, error) {
	w := &world{t: t, auto: puppet.NewAuto(), fidOf: map[p9.File]uint64{}, fileOf: map[p9.File]int{}}
	srv := p9.NewServer(&puppet.Attacher{C: w.auto.C})
	var c1, p1, p2, s1 io.ReadWriteCloser
	if sock {
		// real sockets on both legs, every frame arriving in pieces: client and server receive through the
		// vectored socket path (vecnet) and see partial reads
		d1, err := peer.NewDribble()
		if err != nil {
			return nil, nil, err
		}
		d2, err := peer.NewDribble()
		if err != nil {
			d1.Close()
			return nil, nil, err
		}
		c1, p1, p2, s1 = d1.A, d1.B, d2.A, d2.B
		w.closers = append(w.closers, d1.Close, d2.Close)
	} else {
		c1, p1 = peer.NewDuplexPair() // client <-> proxy
		p2, s1 = peer.NewDuplexPair() // proxy <-> server
	}
	go srv.Handle(s1, s1)
	go w.proxy(p1, p2, true, version)
	go w.proxy(p2, p1, false, version)
	cl, err := p9.NewClient(c1)
	if err != nil {
		return nil, nil, err
	}
	if int(cl.Version()) != version {
		return nil, nil, fmt.Errorf("negotiated version %d, wanted %d", cl.Version(), version)
	}
	w.cl = cl
	w.msize = 64 * 1024 // p9.DefaultMessageSize... read from the first frames below if different
	root, err := cl.Attach("")
	if err != nil {
		return nil, nil, err
	}
	w.noteNew(root)
	return w, root, nil
}

// noteNew records fid and backend file of a File just obtained (sequential use).
func (w *world) noteNew(f p9.File) {
	w.mu.Lock()
	defer w.mu.Unlock()
	for i := len(w.frames) - 1; i >= 0; i-- {
		fr := w.frames[i]
		if !fr.toServer {
			continue
		}
		d, err := w.t.Decode(fr.raw)
		if err != nil {
			continue
		}
		switch d.Name {
		case "Twalk", "Twalkgetattr", "Txattrwalk":
			w.fidOf[f] = d.V["newfid"].(uint64)
		case "Tattach":
			w.fidOf[f] = d.V["fid"].(uint64)
		default:
			continue
		}
		break
	}
	max := 0
	for id := range w.auto.C.Files() {
		if id > max {
			max = id
		}
	}
	w.fileOf[f] = max
}

func (w *world) walk(from p9.File, name string) (p9.File, error) {
	_, f, err := from.Walk([]string{name})
	if err != nil {
		return nil, err
	}
	w.noteNew(f)
	return f, nil
}

// ---- value classes

func nameVal(class string, idx int) string {
	switch class {
	case "one":
		return "x"
	case "len255":
		return strings.Repeat("n", 255)
	case "len32767":
		return strings.Repeat("s", 32767)
	case "len32768":
		return strings.Repeat("S", 32768)
	case "nul":
		return "a\x00b"
	case "high":
		return "\xff\xfe\x80x"
	case "utf8":
		return "café世\U0001F600"
	case "slashless-dots":
		return "..."
	}
	return fmt.Sprintf("nm%d-fp", idx)
}

func u32Val(class string, idx int) uint32 {
	switch class {
	case "zero":
		return 0
	case "one":
		return 1
	case "msb":
		return 0x80000000
	case "max", "nouid", "allones", "allbits":
		return 0xFFFFFFFF
	case "max31":
		return 0x7FFFFFFF
	}
	return 0x01020304 + uint32(idx)*0x01010101
}

func u64Val(class string, idx int) uint64 {
	switch class {
	case "zero":
		return 0
	case "one":
		return 1
	case "past32":
		return 1<<32 + 5
	case "msb":
		return 1 << 63
	case "max63":
		return 1<<63 - 1
	case "max":
		return ^uint64(0)
	case "odd":
		return 0x8001020380010203
	}
	return 0x0102030405060708 + uint64(idx)
}

func permVal(class string) p9.FileMode {
	switch class {
	case "zero":
		return 0
	case "0777":
		return 0o777
	case "setuid":
		return 0o4755
	case "setgid":
		return 0o2755
	case "sticky":
		return 0o1777
	case "typebits":
		return p9.ModeRegular | p9.ModeDirectory | 0o644
	case "allones":
		return 0xFFFFFFFF
	}
	return 0o640
}

func modeVal(class string) p9.FileMode {
	switch class {
	case "chr":
		return p9.ModeCharacterDevice | 0o644
	case "blk":
		return p9.ModeBlockDevice | 0o600
	case "fifo":
		return p9.ModeNamedPipe | 0o666
	case "sock":
		return p9.ModeSocket | 0o755
	case "allones":
		return 0xFFFFFFFF
	}
	return p9.ModeRegular | 0o604
}

func flagsVal(class string) p9.OpenFlags {
	switch class {
	case "ro":
		return 0
	case "wo":
		return 1
	case "rw":
		return 2
	case "extra":
		return 2 | 0x400 | 0x8000
	case "allbits":
		return 0xFFFFFFFE // every bit but the one that makes the mode 3
	}
	return 2 | 0x200
}

func attrMaskVal(class string, idx int) p9.AttrMask {
	var m p9.AttrMask
	v := reflect.ValueOf(&m).Elem()
	switch class {
	case "none":
	case "all":
		for i := 0; i < v.NumField(); i++ {
			v.Field(i).SetBool(true)
		}
	case "single":
		v.Field((idx*5 + 3) % v.NumField()).SetBool(true)
	default:
		m.Mode, m.Size, m.Gen = true, true, true
	}
	return m
}

func setAttrMaskVal(class string, idx int) p9.SetAttrMask {
	var m p9.SetAttrMask
	v := reflect.ValueOf(&m).Elem()
	switch class {
	case "none":
	case "all":
		for i := 0; i < v.NumField(); i++ {
			v.Field(i).SetBool(true)
		}
	case "single":
		v.Field((idx*3 + 7) % v.NumField()).SetBool(true)
	default:
		m.Size, m.MTime, m.MTimeNotSystemTime = true, true, true
	}
	return m
}

func fillStruct(p any, class string) {
	v := reflect.ValueOf(p).Elem()
	k := 0
	var rec func(v reflect.Value)
	rec = func(v reflect.Value) {
		switch v.Kind() {
		case reflect.Struct:
			for i := 0; i < v.NumField(); i++ {
				rec(v.Field(i))
			}
		case reflect.Uint8:
			k++
			v.SetUint(u64Val(class, k) & 0xFF)
		case reflect.Uint32:
			k++
			x := u64Val(class, k)
			if class == "max" {
				x = 0xFFFFFFFF
			}
			v.SetUint(x & 0xFFFFFFFF)
		case reflect.Uint64, reflect.Uint:
			k++
			v.SetUint(u64Val(class, k))
		case reflect.Bool:
			k++
			v.SetBool(class == "max" || (class != "zero" && k%2 == 1))
		case reflect.String:
			k++
			v.SetString(nameVal(map[string]string{"zero": "one", "max": "len255", "odd": "high"}[class], k))
		}
	}
	rec(v)
}

// ---- errors

var errnoNum = puppet.Errnos

func makeErr(shape, given string) error {
	n := errnoNum[given]
	le := linux.Errno(n)
	switch shape {
	case "linux":
		return le
	case "syscall":
		return syscall.Errno(n)
	case "wrap1":
		return fmt.Errorf("backend: %w", le)
	case "wrap3":
		return fmt.Errorf("a: %w", fmt.Errorf("b: %w", fmt.Errorf("c: %w", le)))
	case "patherror":
		return &os.PathError{Op: "open", Path: "/x", Err: syscall.Errno(n)}
	case "join":
		return errors.Join(errors.New("first"), le)
	case "join-syscall":
		return errors.Join(errors.New("first"), syscall.Errno(n))
	case "join-patherror":
		return errors.Join(fmt.Errorf("file: %w", &os.PathError{Op: "close", Path: "/x", Err: syscall.Errno(n)}))
	case "multiw":
		return fmt.Errorf("%w (cleanup: %w)", &os.LinkError{Op: "rename", Old: "a", New: "b", Err: syscall.Errno(n)}, errors.New("cleanup failed"))
	case "multiw-second":
		return fmt.Errorf("%w: %w", errors.New("context"), syscall.Errno(n))
	case "syscallerror":
		return os.NewSyscallError("fsync", syscall.Errno(n))
	case "os.ErrNotExist":
		return fmt.Errorf("x: %w", os.ErrNotExist)
	case "os.ErrExist":
		return os.ErrExist
	case "os.ErrPermission":
		return fmt.Errorf("y: %w", os.ErrPermission)
	case "os.ErrInvalid":
		return os.ErrInvalid
	case "wrapped-opaque":
		return fmt.Errorf("z: %w", errors.New("opaque"))
	}
	return errors.New("opaque")
}

// ---- one scenario

type call struct {
	k     string
	f, f2 int
	args  map[string]any
	names []string
	buf   int
}

func runScenario(t *wirecodec.Table, sc *scen, o *out) {
	o.Cases++
	desc := fmt.Sprintf("%s at version %d [%s %d %s %s %s]", sc.M, sc.V, sc.Kind, sc.Idx, sc.Class, sc.Shape, sc.Errno)
	sock := false
	switch sc.M {
	case "ReadAt", "WriteAt", "Readdir", "GetXattr", "SetXattr", "Walk", "WalkGetAttr", "Readlink", "Symlink", "ListXattrs":
		sock = (sc.V+sc.Idx)%2 == 1
	default:
		sock = o.Cases%8 == 0
	}
	if sock {
		desc += " over dribbling unix sockets"
	}
	w, root, err := newWorld(t, sc.V, sock)
	if err != nil {
		o.add("C03", desc+": setup: "+err.Error())
		if sock {
			// the same setup succeeds over in-memory pipes: the frames were not reconstructed from the socket
			o.add("C01", desc+": setup: "+err.Error())
		}
		return
	}
	defer func() {
		for _, c := range w.closers {
			c()
		}
	}()
	defer w.auto.Stop()
	defer w.cl.Close()
	cls := func(i int) string { // class of argument i (1-based)
		if sc.Kind == "arg" && sc.Idx == i {
			return sc.Class
		}
		return "fp"
	}
	dir, err := w.walk(root, "dir1")
	if err != nil {
		o.add("C03", desc+": setup walk: "+err.Error())
		return
	}
	var target p9.File = dir
	switch sc.M {
	case "GetAttr", "SetAttr", "StatFS", "Lock", "Open", "ReadAt", "WriteAt", "FSync", "GetXattr", "ListXattrs", "Close", "Remove", "Rename", "SetXattr", "RemoveXattr":
		if target, err = w.walk(dir, "f1"); err != nil {
			o.add("C03", desc+": setup: "+err.Error())
			return
		}
	case "Readlink":
		if target, err = w.walk(dir, "l1"); err != nil {
			o.add("C03", desc+": setup: "+err.Error())
			return
		}
	}
	var other p9.File
	switch sc.M {
	case "Link":
		other, _ = w.walk(root, "f2")
	case "Rename", "RenameAt":
		other, _ = w.walk(root, "dir2")
	}
	if sc.M == "ReadAt" || sc.M == "WriteAt" || sc.M == "FSync" {
		if _, _, err := target.Open(p9.ReadWrite); err != nil {
			o.add("C03", desc+": setup open: "+err.Error())
			return
		}
	}
	if sc.M == "Readdir" {
		if _, _, err := target.Open(p9.ReadOnly); err != nil {
			o.add("C03", desc+": setup open: "+err.Error())
			return
		}
	}
	// results the backend will return
	rclass := "fp"
	if sc.Kind == "res" {
		rclass = sc.Class
	}
	var rQID p9.QID
	fillStruct(&rQID, rclass)
	var rAttr p9.Attr
	fillStruct(&rAttr, rclass)
	var rValid p9.AttrMask
	fillStruct(&rValid, rclass)
	var rStat p9.FSStat
	fillStruct(&rStat, rclass)
	rIOUnit := uint32(u64Val(rclass, 3))
	rTarget := nameVal(map[string]string{"fp": "fp", "zero": "one", "max": "len255", "odd": "high"}[rclass], 9) + "/t"
	rEntries := p9.Dirents{}
	for i := 0; i < map[string]int{"fp": 2, "zero": 0, "max": 3, "odd": 1}[rclass]; i++ {
		var d p9.Dirent
		fillStruct(&d, rclass)
		d.Name = fmt.Sprintf("%s-%d", nameVal(map[string]string{"fp": "fp", "max": "len255", "odd": "utf8"}[rclass], i), i)
		rEntries = append(rEntries, d)
	}
	rStatus := p9.LockStatus(u64Val(rclass, 1) & 0xFF)
	rData := []byte("xattr-value-\x00\xff")
	if rclass == "zero" {
		rData = []byte{}
	}
	rNames := []string{"user.a", "user.\xffb"}
	var berr error
	expErrno := ""
	if sc.Kind == "err" {
		parts := strings.Split(sc.Errno, "<-")
		expErrno = parts[0]
		berr = makeErr(sc.Shape, parts[1])
	}
	setupCalls := len(w.auto.Events())
	_ = setupCalls
	var got []call
	var gmu sync.Mutex
	startFrames := func() int { w.mu.Lock(); defer w.mu.Unlock(); return len(w.frames) }()
	w.auto.Answer = func(c *puppet.Call) (puppet.Result, bool) {
		if c.K != sc.Op || (sc.M == "WalkGetAttr" && false) {
			return puppet.Result{}, false
		}
		gmu.Lock()
		got = append(got, call{k: c.K, f: c.F, f2: c.F2, args: c.Args, names: c.Names, buf: len(c.Buf)})
		gmu.Unlock()
		if berr != nil {
			return puppet.Result{Res: "raw", Err: berr}, true
		}
		r := puppet.Result{Res: "ok", Vals: map[string]any{}}
		switch c.K {
		case "Walk":
			r.NF = w.auto.C.AutoID()
			r.Mode = "dir"
			qs := make([]p9.QID, len(c.Names))
			gmu.Lock()
			nth := len(got) - 1 // one component per Walk call
			gmu.Unlock()
			for i := range qs {
				qs[i] = rQID
				qs[i].Path += uint64(nth + i)
			}
			r.Vals["qids"] = qs
		case "GetAttr":
			r.Vals["qid"], r.Vals["valid"], r.Vals["attr"] = rQID, rValid, rAttr
		case "StatFS":
			r.Vals["fsstat"] = rStat
		case "Open":
			r.Vals["qid"], r.Vals["iounit"] = rQID, rIOUnit
		case "Create":
			r.NF = w.auto.C.AutoID()
			r.Vals["qid"], r.Vals["iounit"] = rQID, rIOUnit
		case "Mkdir", "Symlink", "Mknod":
			r.Vals["qid"] = rQID
		case "Readdir":
			r.Vals["entries"] = rEntries
		case "Readlink":
			r.Vals["target"] = rTarget
		case "Lock":
			r.Vals["status"] = rStatus
		case "ReadAt":
			n := len(c.Buf)
			for i := 0; i < n; i++ {
				c.Buf[i] = byte(i*7 + 1)
			}
			r.N = n
		case "WriteAt":
			r.Vals["all"] = true
		case "GetXattr":
			r.Vals["data"] = rData
		case "ListXattrs":
			r.Vals["names"] = rNames
		}
		return r, true
	}
	// ---- invoke
	uid, gid := p9.UID(u32Val("fp", 7)), p9.GID(u32Val("fp", 8))
	var cerr error
	var ret []any // returned values to compare with the backend's
	var argNums []uint64
	var argStrs []string
	expUID, expGID := uint64(p9.NoUID), uint64(p9.NoGID)
	useIDs := func(ui, gi int) {
		uid, gid = p9.UID(u32Val(cls(ui), ui)), p9.GID(u32Val(cls(gi), gi))
		if sc.UID {
			expUID, expGID = uint64(uid), uint64(gid)
		}
	}
	var followNames []string
	invoke := func() {
		switch sc.M {
		case "Walk", "WalkGetAttr":
			names := []string{"n1"}
			switch cls(1) {
			case "empty":
				names = []string{}
			case "one":
				names = []string{"a"}
			case "two":
				names = []string{"a", "b"}
			case "five":
				names = []string{"a", "b", "c\xff", "d", "e"}
			}
			argStrs = names
			if sc.M == "Walk" {
				q, f, e := target.Walk(names)
				cerr = e
				if e == nil {
					ret = append(ret, q)
					_ = f
				}
			} else {
				q, f, m, a, e := target.WalkGetAttr(names)
				cerr = e
				if e == nil {
					ret = append(ret, q, m, a)
					_ = f
				}
			}
			followNames = names
		case "StatFS":
			s, e := target.StatFS()
			cerr = e
			ret = append(ret, s)
		case "GetAttr":
			m := attrMaskVal(cls(1), sc.Idx+len(sc.Class))
			n, _ := flat(m)
			argNums = n
			q, v, a, e := target.GetAttr(m)
			cerr = e
			ret = append(ret, q, v, a)
		case "SetAttr":
			m := setAttrMaskVal(cls(1), len(sc.Class))
			var a p9.SetAttr
			fillStruct(&a, map[string]string{"fp": "fp", "zero": "zero", "max": "max"}[cls(2)])
			n1, _ := flat(m)
			a2 := a
			a2.Permissions &= 0o7777
			n2, _ := flat(a2)
			argNums = append(n1, n2...)
			cerr = target.SetAttr(m, a)
		case "Open":
			fl := flagsVal(cls(1))
			argNums = []uint64{uint64(fl)}
			q, u, e := target.Open(fl)
			cerr = e
			ret = append(ret, q, u)
		case "ReadAt":
			n := map[string]int{"fp": 10, "zero": 0, "one": 1}[cls(1)]
			off := int64(u64Val(cls(2), 2))
			argNums = []uint64{uint64(off), uint64(n)}
			p := make([]byte, n)
			k, e := target.ReadAt(p, off)
			cerr = e
			ret = append(ret, k, string(p[:k]))
		case "WriteAt":
			data := map[string][]byte{"fp": []byte("hello-data"), "empty": {}, "one": {0x80}}[cls(1)]
			if cls(1) == "allbytes" {
				data = make([]byte, 256)
				for i := range data {
					data[i] = byte(i)
				}
			}
			off := int64(u64Val(cls(2), 2))
			argNums = []uint64{uint64(off)}
			argStrs = []string{string(data)}
			k, e := target.WriteAt(data, off)
			cerr = e
			ret = append(ret, k)
		case "FSync":
			cerr = target.FSync()
		case "Lock":
			pid := map[string]int{"fp": 4242, "zero": 0, "one": 1, "msb": -2147483648, "max": 2147483647}[cls(1)]
			lt := p9.LockType(u32Val(cls(2), 2) & 0xFF)
			lf := p9.LockFlags(u32Val(cls(3), 3))
			st, ln := u64Val(cls(4), 4), u64Val(cls(5), 5)
			cid := nameVal(cls(6), 6)
			argNums = []uint64{uint64(lt), uint64(lf), st, ln, uint64(uint32(int32(pid)))}
			argStrs = []string{cid}
			s, e := target.Lock(pid, lt, lf, st, ln, cid)
			cerr = e
			ret = append(ret, s)
		case "Create":
			useIDs(4, 5)
			name, fl, pm := nameVal(cls(1), 1), flagsVal(cls(2)), permVal(cls(3))
			argStrs = []string{name}
			argNums = []uint64{uint64(fl), uint64(pm & 0o7777), expGID}
			if sc.UID {
				argNums = append(argNums, expUID)
			}
			_, q, u, e := target.Create(name, fl, pm, uid, gid)
			cerr = e
			ret = append(ret, q, u)
		case "Mkdir":
			useIDs(3, 4)
			name, pm := nameVal(cls(1), 1), permVal(cls(2))
			argStrs = []string{name}
			argNums = []uint64{uint64(pm & 0o7777), expGID}
			if sc.UID {
				argNums = append(argNums, expUID)
			}
			q, e := target.Mkdir(name, pm, uid, gid)
			cerr = e
			ret = append(ret, q)
		case "Symlink":
			useIDs(3, 4)
			tg, name := nameVal(cls(1), 1)+"/../t", nameVal(cls(2), 2)
			argStrs = []string{name, tg}
			argNums = []uint64{expGID}
			if sc.UID {
				argNums = append(argNums, expUID)
			}
			q, e := target.Symlink(tg, name, uid, gid)
			cerr = e
			ret = append(ret, q)
		case "Mknod":
			useIDs(5, 6)
			name, md := nameVal(cls(1), 1), modeVal(cls(2))
			mj, mn := u32Val(cls(3), 3), u32Val(cls(4), 4)
			argStrs = []string{name}
			argNums = []uint64{uint64(md), uint64(mj), uint64(mn), expGID}
			if sc.UID {
				argNums = append(argNums, expUID)
			}
			q, e := target.Mknod(name, md, mj, mn, uid, gid)
			cerr = e
			ret = append(ret, q)
		case "Link":
			name := nameVal(cls(1), 1)
			argStrs = []string{name}
			cerr = target.Link(other, name)
		case "Rename":
			name := nameVal(cls(1), 1)
			argStrs = []string{name}
			cerr = target.Rename(other, name)
		case "RenameAt":
			on, nn := nameVal(cls(1), 1), nameVal(cls(2), 2)
			argStrs = []string{on, nn}
			cerr = target.RenameAt(on, other, nn)
		case "UnlinkAt":
			name, fl := nameVal(cls(1), 1), u32Val(cls(2), 2)
			argStrs = []string{name}
			argNums = []uint64{uint64(fl)}
			cerr = target.UnlinkAt(name, fl)
		case "Readdir":
			off, cnt := u64Val(cls(1), 1), u32Val(cls(2), 2)
			argNums = []uint64{off, uint64(cnt)}
			d, e := target.Readdir(off, cnt)
			cerr = e
			ret = append(ret, d)
		case "Readlink":
			s, e := target.Readlink()
			cerr = e
			ret = append(ret, s)
		case "GetXattr":
			name := nameVal(cls(1), 1)
			argStrs = []string{name}
			d, e := target.GetXattr(name)
			cerr = e
			ret = append(ret, string(d))
		case "ListXattrs":
			argStrs = []string{""}
			l, e := target.ListXattrs()
			cerr = e
			ret = append(ret, l)
		case "Remove":
			cerr = target.(interface{ Remove() error }).Remove()
		case "Close":
			cerr = target.Close()
		case "SetXattr":
			cerr = target.SetXattr("user.x", []byte("v"), 0)
		case "RemoveXattr":
			cerr = target.RemoveXattr("user.x")
		}
	}
	invoke()
	w.mu.Lock()
	firstEnd := len(w.frames)
	w.mu.Unlock()
	firstErr := cerr
	firstRet := ret
	// the same operation again with NO names (a clone), right after one with names: the receiving
	// peer must reconstruct the empty list that was sent, not the previous message's (Wire.tla:
	// a counted list of 0 elements)
	if cerr == nil && len(followNames) > 0 && sc.Kind != "err" {
		gmu.Lock()
		before := len(got)
		gmu.Unlock()
		var e2 error
		if sc.M == "Walk" {
			_, _, e2 = target.Walk(nil)
		} else {
			_, _, _, _, e2 = target.WalkGetAttr(nil)
		}
		gmu.Lock()
		for _, c := range got[before:] {
			if (c.k == "Walk" || c.k == "WalkGetAttr") && len(c.names) > 0 {
				o.add("C01", fmt.Sprintf("%s: a zero-name %s sent right after it reached the backend as Walk(%q): the peer did not reconstruct the empty name list", desc, sc.M, c.names))
			}
		}
		got = got[:before]
		gmu.Unlock()
		_ = e2
	}
	retried, retryErr, retryCalls := false, error(nil), 0
	switch sc.M {
	case "Open", "Mkdir", "GetAttr", "SetAttr", "StatFS", "ReadAt", "WriteAt", "FSync", "Lock", "Symlink", "Mknod", "Link", "UnlinkAt", "Readdir", "Readlink", "RenameAt":
		if sc.Kind == "err" {
			// the same operation once more, the backend now succeeds: it must reach the File again
			gmu.Lock()
			before := len(got)
			gmu.Unlock()
			saveErr := berr
			berr = nil
			invoke()
			retryErr = cerr
			gmu.Lock()
			retryCalls = len(got) - before
			got = got[:before]
			gmu.Unlock()
			berr = saveErr
			cerr = firstErr
			ret = firstRet
			retried = true
		}
	}
	gmu.Lock()
	calls := append([]call{}, got...)
	gmu.Unlock()
	w.mu.Lock()
	frames := append([]captured{}, w.frames[startFrames:firstEnd]...)
	w.mu.Unlock()
	o.Frames += len(frames)

	// ---- C01: every captured frame against Wire.tla's layout (independent of the C03 verdicts below)
	if sc.M != "SetXattr" && sc.M != "RemoveXattr" {
		w.checkFrames(sc, desc, frames, o, argNums, argStrs, target, other, dir)
	}
	// ---- C03: errors
	if sc.M == "SetXattr" || sc.M == "RemoveXattr" {
		if !errors.Is(cerr, linux.ENOSYS) || len(frames) > 0 {
			o.add("C03", fmt.Sprintf("%s: must fail locally with ENOSYS (got %v, %d frames sent)", desc, cerr, len(frames)))
		}
		return
	}
	if sc.Kind == "err" {
		var e linux.Errno
		if !errors.As(cerr, &e) || puppet.ErrnoName(uint32(e)) != expErrno {
			if sc.M == "Close" {
				// the server ignores the error of File.Close unless it is the clunk's own; accept both
			} else {
				o.add("C03", fmt.Sprintf("%s: the backend returned %T %q, the caller got %v; must be %s", desc, berr, berr.Error(), cerr, expErrno))
			}
		}
	} else if cerr != nil && !(sc.M == "ReadAt" && errors.Is(cerr, io.EOF)) {
		o.add("C03", fmt.Sprintf("%s: unexpected error %v", desc, cerr))
		return
	}
	if retried && (retryCalls == 0 || (retryErr != nil && !errors.Is(retryErr, io.EOF))) {
		o.add("C03", fmt.Sprintf("%s: after the failed call the same operation was issued again with a healthy backend: error %v, backend calls %d - it must reach the File and succeed", desc, retryErr, retryCalls))
	}
	// ---- C03: the backend call
	wantFile := w.fileOf[target]
	if sc.M == "Rename" || sc.M == "Remove" {
		wantFile = w.fileOf[dir] // arrives on the parent directory's File
	}
	if sc.M != "Close" { // Close is not routed through Answer's op match with args
		if len(calls) == 0 {
			o.add("C03", fmt.Sprintf("%s: the backend never saw %s", desc, sc.Op))
			return
		}
		c := calls[len(calls)-1]
		if sc.M == "Walk" || sc.M == "WalkGetAttr" {
			c = calls[0]
		}
		if c.f != wantFile {
			o.add("C03", fmt.Sprintf("%s: %s reached backend file %d, the handle denotes file %d", desc, c.k, c.f, wantFile))
			return
		}
		if mm := w.compareArgs(sc, calls, argNums, argStrs, other); mm != "" {
			o.add("C03", desc+": "+mm)
			return
		}
	}
	// ---- C03: return values
	if sc.M == "Readdir" && len(argNums) == 2 {
		// documented rewriting: only the whole entries that fit in the requested byte count travel
		fit, used := p9.Dirents{}, uint64(0)
		for _, d := range rEntries {
			used += uint64(13 + 8 + 1 + 2 + len(d.Name))
			if used > argNums[1] {
				break
			}
			fit = append(fit, d)
		}
		rEntries = fit
	}
	if sc.Kind != "err" {
		if mm := compareReturns(sc, ret, rQID, rValid, rAttr, rStat, rIOUnit, rTarget, rEntries, rStatus, rData, rNames); mm != "" {
			o.add("C03", desc+": "+mm)
		}
	}
	// ---- message types of this version only
	var ttypes []string
	for _, fr := range frames {
		if fr.toServer {
			d, err := t.Decode(fr.raw)
			if err == nil {
				ttypes = append(ttypes, d.Name)
			}
		}
	}
	if !typesMatch(sc, ttypes) {
		o.add("C03", fmt.Sprintf("%s: the client sent %v, ClientFile.tla: %v", desc, ttypes, sc.TTypes))
	}
	if len(o.Samples) < 3 && sc.Kind == "arg" {
		o.Samples = append(o.Samples, map[string]any{"scenario": sc, "frames": len(frames), "backend_args": fmt.Sprint(calls)})
	}
}

func typesMatch(sc *scen, got []string) bool {
	want := sc.TTypes
	if sc.M == "GetXattr" || sc.M == "ListXattrs" {
		// Txattrwalk, Tread (as many as needed; none for an empty value), Tclunk
		if len(got) < 2 || got[0] != "Txattrwalk" || got[len(got)-1] != "Tclunk" {
			return sc.Kind == "err" && len(got) >= 1 && got[0] == "Txattrwalk"
		}
		for _, g := range got[1 : len(got)-1] {
			if g != "Tread" {
				return false
			}
		}
		return true
	}
	if sc.Kind == "err" && sc.M == "WalkGetAttr" && len(got) >= 1 {
		return got[0] == want[0]
	}
	if len(got) != len(want) {
		// WalkGetAttr below version 2 closes the file when Tgetattr fails etc.; only the prefix is required
		return false
	}
	for i := range want {
		if got[i] != want[i] {
			return false
		}
	}
	return true
}

func (w *world) compareArgs(sc *scen, calls []call, nums []uint64, strs []string, other p9.File) string {
	c := calls[len(calls)-1]
	a := c.args
	var gn []uint64
	var gs []string
	switch sc.M {
	case "Walk", "WalkGetAttr":
		// one component per call, in order
		var seen []string
		for _, x := range calls {
			if len(x.names) > 1 {
				return fmt.Sprintf("Walk called with %d names at once", len(x.names))
			}
			seen = append(seen, x.names...)
		}
		if len(strs) == 0 {
			if len(calls) != 1 || len(calls[0].names) != 0 {
				return "a clone walk must arrive as Walk(nil)"
			}
			return ""
		}
		if !eqS(seen, strs) {
			return fmt.Sprintf("walked components %q, asked %q", seen, strs)
		}
		return ""
	case "GetAttr":
		gn, _ = flat(a["mask"])
	case "SetAttr":
		n1, _ := flat(a["valid"])
		n2, _ := flat(a["attr"])
		gn = append(n1, n2...)
	case "Open":
		gn = []uint64{uint64(a["flags"].(p9.OpenFlags))}
	case "ReadAt":
		gn = []uint64{uint64(a["offset"].(int64)), uint64(a["len"].(int))}
		if len(calls) > 1 {
			return "a read within the payload size must be one ReadAt"
		}
	case "WriteAt":
		gn = []uint64{uint64(a["offset"].(int64))}
		gs = []string{string(a["data"].([]byte))}
	case "Lock":
		gn = []uint64{uint64(a["type"].(p9.LockType)), uint64(a["flags"].(p9.LockFlags)), a["start"].(uint64), a["length"].(uint64), uint64(uint32(int32(a["pid"].(int))))}
		gs = []string{a["client"].(string)}
	case "Create":
		gs = []string{a["name"].(string)}
		gn = []uint64{uint64(a["flags"].(p9.OpenFlags)), uint64(a["perm"].(p9.FileMode)), uint64(a["gid"].(p9.GID))}
		if sc.UID {
			gn = append(gn, uint64(a["uid"].(p9.UID)))
		} else if a["uid"].(p9.UID) != p9.NoUID {
			return "uid reached the backend below version 3"
		}
	case "Mkdir":
		gs = []string{a["name"].(string)}
		gn = []uint64{uint64(a["perm"].(p9.FileMode)), uint64(a["gid"].(p9.GID))}
		if sc.UID {
			gn = append(gn, uint64(a["uid"].(p9.UID)))
		} else if a["uid"].(p9.UID) != p9.NoUID {
			return "uid reached the backend below version 3"
		}
	case "Symlink":
		gs = []string{a["name"].(string), a["target"].(string)}
		gn = []uint64{uint64(a["gid"].(p9.GID))}
		if sc.UID {
			gn = append(gn, uint64(a["uid"].(p9.UID)))
		} else if a["uid"].(p9.UID) != p9.NoUID {
			return "uid reached the backend below version 3"
		}
	case "Mknod":
		gs = []string{a["name"].(string)}
		gn = []uint64{uint64(a["mode"].(p9.FileMode)), uint64(a["major"].(uint32)), uint64(a["minor"].(uint32)), uint64(a["gid"].(p9.GID))}
		if sc.UID {
			gn = append(gn, uint64(a["uid"].(p9.UID)))
		} else if a["uid"].(p9.UID) != p9.NoUID {
			return "uid reached the backend below version 3"
		}
	case "Link":
		gs = []string{a["name"].(string)}
		if c.f2 != w.fileOf[other] {
			return fmt.Sprintf("Link target is backend file %d, must be %d", c.f2, w.fileOf[other])
		}
	case "Rename":
		// RenameAt(current name, newdir, newname) on the parent
		on, nn := a["oldname"].(string), a["newname"].(string)
		if on != "f1" {
			return fmt.Sprintf("Rename arrived as RenameAt(%q, ...), the entry's current name is \"f1\"", on)
		}
		gs = []string{nn}
		if c.f2 != w.fileOf[other] {
			return fmt.Sprintf("new directory is backend file %d, must be %d", c.f2, w.fileOf[other])
		}
	case "RenameAt":
		gs = []string{a["oldname"].(string), a["newname"].(string)}
		if c.f2 != w.fileOf[other] {
			return fmt.Sprintf("new directory is backend file %d, must be %d", c.f2, w.fileOf[other])
		}
	case "UnlinkAt":
		gs = []string{a["name"].(string)}
		gn = []uint64{uint64(a["flags"].(uint32))}
	case "Remove":
		if a["name"].(string) != "f1" {
			return fmt.Sprintf("Remove arrived as UnlinkAt(%q), the entry's current name is \"f1\"", a["name"])
		}
		return ""
	case "Readdir":
		cnt := uint64(a["count"].(uint32))
		gn = []uint64{a["offset"].(uint64), cnt}
		// the server may shorten the byte count to what fits in the negotiated msize
		if len(nums) == 2 && cnt < nums[1] && cnt+11 >= 8192 {
			nums = []uint64{nums[0], cnt}
		}
	case "GetXattr":
		gs = []string{a["name"].(string)}
	default:
		return ""
	}
	if !eqU(gn, nums) {
		return fmt.Sprintf("numeric arguments at the backend %x, the caller passed (after the documented rewriting) %x", gn, nums)
	}
	if !eqS(gs, strs) {
		return fmt.Sprintf("string arguments at the backend %q, the caller passed %q", gs, strs)
	}
	return ""
}

func compareReturns(sc *scen, ret []any, q p9.QID, valid p9.AttrMask, attr p9.Attr, st p9.FSStat, iou uint32, target string,
	ents p9.Dirents, status p9.LockStatus, data []byte, names []string) string {
	var want []any
	switch sc.M {
	case "Walk", "WalkGetAttr":
		if len(ret) == 0 {
			return ""
		}
		qs := ret[0].([]p9.QID)
		for i, x := range qs {
			e := q
			e.Path += uint64(i)
			if x != e {
				return fmt.Sprintf("QID %d returned %+v, the backend produced %+v", i, x, e)
			}
		}
		return "" // (attributes of WalkGetAttr come from the walk-time GetAttr, which scenarios do not script)
	case "StatFS":
		want = []any{st}
	case "GetAttr":
		want = []any{q, valid, attr}
	case "Open", "Create":
		want = []any{q, iou}
	case "Mkdir", "Symlink", "Mknod":
		want = []any{q}
	case "Readdir":
		if len(ents) == 0 && len(ret[0].(p9.Dirents)) == 0 {
			return ""
		}
		want = []any{ents}
	case "Readlink":
		want = []any{target}
	case "Lock":
		want = []any{status}
	case "GetXattr":
		want = []any{string(data)}
	case "ListXattrs":
		want = []any{names}
	default:
		return ""
	}
	if sc.M == "WalkGetAttr" && sc.V < 2 {
		// below version 2: Walk then GetAttr; valid/attr come from GetAttr which this scenario did not script
		return ""
	}
	if !reflect.DeepEqual(ret, want) {
		return fmt.Sprintf("returned %+v, the backend produced %+v", ret, want)
	}
	return ""
}

// fieldMap: wire field -> how to compare (skip fids here; they are checked separately)
func (w *world) checkFrames(sc *scen, desc string, frames []captured, o *out, nums []uint64, strs []string, target, other, dir p9.File) {
	// ClientFile.tla FollowUp: when an operation is carried by several T-messages, the first one
	// binds a new fid and every later one names that fid (the file walked to, not the one walked from)
	made, haveMade, nth := uint64(0), false, 0
	for _, fr := range frames {
		if !fr.toServer {
			continue
		}
		d, err := w.t.Decode(fr.raw)
		if err != nil || len(sc.TTypes) < 2 {
			continue
		}
		if nth == 0 && d.Name == sc.TTypes[0] {
			if nf, ok := d.V["newfid"].(uint64); ok {
				made, haveMade = nf, true
			}
			nth = 1
			continue
		}
		if nth >= 1 && nth < len(sc.TTypes) && d.Name == sc.TTypes[nth] && haveMade {
			if got, ok := d.V["fid"].(uint64); ok && got != made {
				o.add("C03", fmt.Sprintf("%s: the %s that completes the operation names fid %d; ClientFile.tla: the fid %d bound by its %s", desc, d.Name, got, made, sc.TTypes[0]))
			}
			nth++
		}
	}
	for _, fr := range frames {
		d, err := w.t.Decode(fr.raw)
		if err != nil {
			o.add("C01", fmt.Sprintf("%s: a frame on the wire does not follow Wire.tla's layout: %v (type %d, %d bytes)", desc, err, fr.raw[4], len(fr.raw)))
			continue
		}
		if re := w.t.Encode(d.Name, d.Tag, d.V); string(re) != string(fr.raw) {
			if !(d.Name == "Tsetattr" || strings.HasSuffix(d.Name, "create") || strings.HasSuffix(d.Name, "mkdir")) || len(re) != len(fr.raw) {
				o.add("C01", fmt.Sprintf("%s: %s is not the canonical encoding of its own fields (%d vs %d bytes)", desc, d.Name, len(fr.raw), len(re)))
				continue
			}
			// (perm fields: the reference encoder masks to 12 bits; a difference there is reported below)
			o.add("C01", fmt.Sprintf("%s: %s carries permission bits outside 07777 on the wire", desc, d.Name))
			continue
		}
		if !fr.toServer {
			continue
		}
		// the operation's own T message: field values in Wire.tla's order vs the caller's arguments
		main := d.Name == sc.TTypes[0] && !(sc.M == "GetXattr" || sc.M == "ListXattrs") || (len(sc.TTypes) > 0 && d.Name == sc.TTypes[0])
		if !main || sc.M == "Walk" || sc.M == "WalkGetAttr" {
			if d.Name == "Twalk" || d.Name == "Twalkgetattr" {
				if got := d.V["names"].([]string); !eqS(got, strs) && (sc.M == "Walk" || sc.M == "WalkGetAttr") {
					o.add("C01", fmt.Sprintf("%s: %s carries names %q, the caller passed %q", desc, d.Name, got, strs))
				}
			}
			continue
		}
		var gn []uint64
		var gs []string
		for _, f := range w.t.Layout[d.Name].F {
			if strings.HasSuffix(f.Name, "fid") || f.Name == "dirfd" {
				want := w.fidOf[target]
				if (d.Name == "Tlink" && f.Name == "fid") || f.Name == "newdirfid" || (d.Name == "Trename" && f.Name == "dfid") {
					want = w.fidOf[other]
				}
				if f.Name == "newfid" {
					continue
				}
				if got := d.V[f.Name].(uint64); got != want {
					o.add("C01", fmt.Sprintf("%s: %s.%s is %d on the wire, the handle's fid is %d", desc, d.Name, f.Name, got, want))
				}
				continue
			}
			w.wireFlat(f.Kind, d.V[f.Name], &gn, &gs)
		}
		en, es := nums, strs
		switch d.Name {
		case "Tread":
			// wire order: offset, count
		case "Tlock":
			// wire order: type flags start length proc_id client_id == nums order
		case "Treaddir":
		}
		if sc.M == "Symlink" {
			// wire order: name, target
		}
		if !eqU(gn, en) || !eqS(gs, es) {
			o.add("C01", fmt.Sprintf("%s: %s on the wire has, in Wire.tla's field order, numbers %x strings %q; the caller passed %x %q", desc, d.Name, gn, gs, en, es))
		}
	}
}

func main() {
	in := flag.String("in", "", "")
	outp := flag.String("out", "", "")
	shard := flag.Int("shard", 0, "")
	nshard := flag.Int("nshard", 1, "")
	flag.Parse()
	f, err := os.Open(*in)
	if err != nil {
		fmt.Fprintln(os.Stderr, err)
		os.Exit(2)
	}
	t := wirecodec.MustLoad()
	o := &out{Findings: map[string][]string{}}
	sc := bufio.NewScanner(f)
	sc.Buffer(make([]byte, 1<<20), 16<<20)
	i := 0
	for sc.Scan() {
		i++
		if (i-1)%*nshard != *shard {
			continue
		}
		b := sc.Bytes()
		if len(b) > 0 && b[0] == '"' {
			var s string
			json.Unmarshal(b, &s)
			b = []byte(s)
		}
		var s scen
		if err := json.Unmarshal(b, &s); err != nil {
			o.add("C03", "bad scenario: "+err.Error())
			continue
		}
		func() {
			defer func() {
				if r := recover(); r != nil {
					o.add("C03", fmt.Sprintf("%s at version %d [%s %d %s]: driver panic: %v", s.M, s.V, s.Kind, s.Idx, s.Class, r))
				}
			}()
			// under a watchdog: an operation that never returns is a finding, not a hang of the check
			lo := &out{Cases: o.Cases, Frames: o.Frames, Findings: map[string][]string{}, Samples: o.Samples}
			done := make(chan any, 1)
			go func() {
				defer func() { done <- recover() }()
				runScenario(t, &s, lo)
			}()
			select {
			case r := <-done:
				if r != nil {
					panic(r)
				}
				o.Cases, o.Frames, o.Samples = lo.Cases, lo.Frames, lo.Samples
				for p, fs := range lo.Findings {
					for _, f := range fs {
						o.add(p, f)
					}
				}
			case <-time.After(10 * time.Second):
				timeouts++
				o.Cases++
				for _, p := range []string{"C01", "C03"} {
					o.add(p, fmt.Sprintf("%s at version %d [%s %d %s]: the operation did not return within 10 s", s.M, s.V, s.Kind, s.Idx, s.Class))
				}
			}
		}()
		if timeouts >= 3 {
			break
		}
	}
	b, _ := json.Marshal(o)
	if *outp == "" {
		os.Stdout.Write(b)
	} else {
		os.WriteFile(*outp, b, 0o644)
	}
}
