// Command chunkio replays the behaviours TLC enumerates from spec/Chunk.tla
// against the real p9 client and server: ReadAt / WriteAt of the scaled
// length through client -> server -> scripted backend, comparing the
// (offset, count) sequence seen by the backend, the returned n and error, and
// the bytes.
package main

import (
	"bufio"
	"encoding/json"
	"errors"
	"flag"
	"fmt"
	"io"
	"os"
	"sync"
	"time"

	"github.com/hugelgupf/p9/linux"
	"github.com/hugelgupf/p9/p9"

	"verifharness/peer"
	"verifharness/puppet"
)

type vec struct {
	Kind  string  `json:"kind"`
	Chunk int     `json:"chunk"`
	Len   int     `json:"len"`
	Calls [][]any `json:"calls"`
	Ret   []any   `json:"ret"`
}

type out struct {
	Cases    int      `json:"cases"`
	Findings []string `json:"findings"`
	Samples  []any    `json:"samples"`
}

func pat(i int64) byte { return byte(i%251) + 1 }

// scale maps abstract lengths (units of a chunk of c) to bytes with payload p, keeping 0 < 1 < p-1 < p
// apart.  For p < 3 that is impossible; those payloads run the vectors with c == p unscaled.
func scale(x, c int, p int) int {
	if p < 3 {
		return x
	}
	q, r := x/c, x%c
	f := 0
	switch {
	case r == 0:
	case r == 1:
		f = 1
	default:
		f = p - 1
	}
	return q*p + f
}

// smallest: Chunk.tla has chunk >= 1.  An msize that leaves no room for payload (<= 153: the largest fixed
// message part) must not yield a working-looking client: either it is refused, or I/O through it still
// makes progress and ends.  msize 154 (payload 1) works byte by byte.
func smallest(o *out) {
	for _, ms := range []uint32{152, 153, 154} {
		o.Cases++
		auto := puppet.NewAuto()
		var mu sync.Mutex
		written := 0
		auto.Answer = func(c *puppet.Call) (puppet.Result, bool) {
			if c.K == "WriteAt" {
				mu.Lock()
				written += len(c.Args["data"].([]byte))
				mu.Unlock()
				return puppet.Result{Res: "ok", Vals: map[string]any{"all": true}}, true
			}
			return puppet.Result{}, false
		}
		srv := p9.NewServer(&puppet.Attacher{C: auto.C})
		a, b := peer.NewDuplexPair()
		go srv.Handle(b, b)
		cl, err := p9.NewClient(a, p9.WithMessageSize(ms))
		if err != nil {
			if ms >= 154 {
				o.Findings = append(o.Findings, fmt.Sprintf("msize %d (payload %d) refused: %v", ms, ms-153, err))
			}
			auto.Stop()
			continue
		}
		done := make(chan string, 1)
		go func() {
			root, err := cl.Attach("")
			if err != nil {
				done <- "attach: " + err.Error()
				return
			}
			_, f, err := root.Walk([]string{"f1"})
			if err == nil {
				_, _, err = f.Open(p9.ReadWrite)
			}
			if err != nil {
				done <- "setup: " + err.Error()
				return
			}
			n, err := f.WriteAt([]byte("abc"), 0)
			done <- fmt.Sprintf("n=%d err=%v", n, err)
		}()
		select {
		case r := <-done:
			mu.Lock()
			w := written
			mu.Unlock()
			if ms >= 154 && (r != "n=3 err=<nil>" || w != 3) {
				o.Findings = append(o.Findings, fmt.Sprintf("msize %d: WriteAt of 3 bytes returned %s, backend received %d bytes", ms, r, w))
			}
		case <-time.After(5 * time.Second):
			o.Findings = append(o.Findings, fmt.Sprintf("client created with msize %d (no room for payload: Chunk.tla needs chunk >= 1): WriteAt of 3 bytes did not finish within 5 s (requests of zero bytes for ever?)", ms))
		}
		a.Close()
		auto.Stop()
	}
}

var timeouts int

// run executes one vector under a watchdog: an operation that never returns is a finding, not a hang of the check.
func run(v *vec, msize uint32, base int64, sock bool, o *out) {
	lo := &out{}
	done := make(chan struct{})
	go func() { defer close(done); run1(v, msize, base, sock, lo) }()
	select {
	case <-done:
		o.Cases += lo.Cases
		o.Findings = append(o.Findings, lo.Findings...)
		if len(o.Samples) < 2 {
			o.Samples = append(o.Samples, lo.Samples...)
		}
	case <-time.After(8 * time.Second):
		timeouts++
		o.Cases++
		o.Findings = append(o.Findings, fmt.Sprintf("%s (abstract chunk %d len %d, requests %v) at msize %d offset %d, sockets %v: the operation did not return within 8 s", v.Kind, v.Chunk, v.Len, v.Calls, msize, base, sock))
	}
}

func run1(v *vec, msize uint32, base int64, sock bool, o *out) {
	o.Cases++
	auto := puppet.NewAuto()
	defer auto.Stop()
	var mu sync.Mutex
	type seen struct {
		off int64
		cnt int
	}
	var calls []seen
	var problems []string
	payload := 0
	auto.Answer = func(c *puppet.Call) (puppet.Result, bool) {
		if c.K != "ReadAt" && c.K != "WriteAt" {
			return puppet.Result{}, false
		}
		mu.Lock()
		defer mu.Unlock()
		i := len(calls)
		var off int64
		var cnt int
		if c.K == "ReadAt" {
			off, cnt = c.Args["offset"].(int64), len(c.Buf)
		} else {
			d := c.Args["data"].([]byte)
			off, cnt = c.Args["offset"].(int64), len(d)
			for j, x := range d {
				if x != pat(off-base+int64(j)) {
					problems = append(problems, fmt.Sprintf("Twrite at offset %d carries the wrong bytes of p", off))
					break
				}
			}
		}
		calls = append(calls, seen{off, cnt})
		if i >= len(v.Calls) {
			problems = append(problems, fmt.Sprintf("request %d (%s offset %d count %d) is issued although the operation must have stopped", i+1, c.K, off, cnt))
			return puppet.Result{Res: "EIO"}, true
		}
		want := int(v.Calls[i][1].(float64))
		n := int(v.Calls[i][2].(float64))
		outcome := v.Calls[i][3].(string)
		if outcome == "err" {
			return puppet.Result{Res: "EIO"}, true
		}
		nreal := 0
		switch {
		case n == want:
			nreal = cnt
		case n == 0:
			nreal = 0
		default:
			nreal = scale(n, v.Chunk, payload)
			if nreal >= cnt {
				nreal = cnt - 1
			}
		}
		if c.K == "ReadAt" {
			for j := 0; j < nreal; j++ {
				c.Buf[j] = pat(off - base + int64(j))
			}
			if nreal == 0 && cnt > 0 {
				return puppet.Result{Res: "raw", Err: io.EOF, N: 0}, true
			}
		}
		return puppet.Result{Res: "ok", N: nreal}, true
	}
	srv := p9.NewServer(&puppet.Attacher{C: auto.C})
	var cl *p9.Client
	var err error
	via := ""
	if sock {
		// real sockets (the vectored receive path) with every frame arriving in pieces
		via = " over dribbling unix sockets"
		d, derr := peer.NewDribble()
		if derr != nil {
			o.Findings = append(o.Findings, "socketpair: "+derr.Error())
			return
		}
		defer d.Close()
		go srv.Handle(d.B, d.B)
		cl, err = p9.NewClient(d.A, p9.WithMessageSize(msize))
	} else {
		a, b := peer.NewDuplexPair()
		go srv.Handle(b, b)
		cl, err = p9.NewClient(a, p9.WithMessageSize(msize))
		defer a.Close()
	}
	if err != nil {
		o.Findings = append(o.Findings, "NewClient: "+err.Error())
		return
	}
	root, err := cl.Attach("")
	if err != nil {
		o.Findings = append(o.Findings, "attach: "+err.Error())
		return
	}
	_, f, err := root.Walk([]string{"f1"})
	if err != nil {
		o.Findings = append(o.Findings, "walk: "+err.Error())
		return
	}
	if _, _, err := f.Open(p9.ReadWrite); err != nil {
		o.Findings = append(o.Findings, "open: "+err.Error())
		return
	}
	// payload size as Version.tla states it
	payload = int(msize) - 153
	if payload > 512 && payload%512 != 0 {
		payload -= payload % 512
	}
	n := scale(v.Len, v.Chunk, payload)
	p := make([]byte, n)
	if v.Kind == "write" {
		for i := range p {
			p[i] = pat(int64(i))
		}
	}
	var got int
	var gerr error
	if v.Kind == "read" {
		got, gerr = f.ReadAt(p, base)
	} else {
		got, gerr = f.WriteAt(p, base)
	}
	mu.Lock()
	defer mu.Unlock()
	desc := fmt.Sprintf("%s len %d at offset %d, payload %d%s (abstract: chunk %d len %d, requests %v)", v.Kind, n, base, payload, via, v.Chunk, v.Len, v.Calls)
	if len(problems) > 0 {
		o.Findings = append(o.Findings, desc+": "+problems[0])
		return
	}
	if len(calls) != len(v.Calls) {
		o.Findings = append(o.Findings, fmt.Sprintf("%s: %d requests reached the backend, Chunk.tla: %d", desc, len(calls), len(v.Calls)))
		return
	}
	expOff := base
	delivered := 0
	for i, c := range calls {
		rest := n - delivered
		wantCnt := payload
		if rest < payload {
			wantCnt = rest
		}
		if c.off != expOff || c.cnt != wantCnt {
			o.Findings = append(o.Findings, fmt.Sprintf("%s: request %d is (offset %d, count %d), must be (offset %d, count %d)", desc, i+1, c.off, c.cnt, expOff, wantCnt))
			return
		}
		nab, want := int(v.Calls[i][2].(float64)), int(v.Calls[i][1].(float64))
		nreal := 0
		if v.Calls[i][3].(string) == "ok" {
			switch {
			case nab == want:
				nreal = c.cnt
			case nab == 0:
			default:
				nreal = scale(nab, v.Chunk, payload)
				if nreal >= c.cnt {
					nreal = c.cnt - 1
				}
			}
		}
		delivered += nreal
		expOff += int64(nreal)
	}
	if got != delivered {
		o.Findings = append(o.Findings, fmt.Sprintf("%s: returned n = %d, %d bytes were transferred", desc, got, delivered))
		return
	}
	wantErr := v.Ret[1].(string)
	okErr := false
	switch wantErr {
	case "nil":
		okErr = gerr == nil
	case "EOF":
		okErr = errors.Is(gerr, io.EOF)
	case "ERR":
		okErr = errors.Is(gerr, linux.EIO)
	}
	if !okErr {
		o.Findings = append(o.Findings, fmt.Sprintf("%s: returned error %v, Chunk.tla: %s", desc, gerr, wantErr))
		return
	}
	if v.Kind == "read" {
		for i := 0; i < got; i++ {
			if p[i] != pat(int64(i)) {
				o.Findings = append(o.Findings, fmt.Sprintf("%s: p[%d] does not hold the file's byte at that offset", desc, i))
				return
			}
		}
	}
	if len(o.Samples) < 2 && len(calls) >= 2 {
		o.Samples = append(o.Samples, map[string]any{"vector": v, "msize": msize, "offset": base, "requests_seen": len(calls), "n": got, "err": fmt.Sprint(gerr)})
	}
}

func main() {
	in := flag.String("in", "", "")
	outp := flag.String("out", "", "")
	shard := flag.Int("shard", 0, "")
	nshard := flag.Int("nshard", 1, "")
	full := flag.Bool("full", false, "all msize/offset combinations")
	flag.Parse()
	f, err := os.Open(*in)
	if err != nil {
		fmt.Fprintln(os.Stderr, err)
		os.Exit(2)
	}
	o := &out{}
	if *shard == 0 {
		smallest(o)
	}
	sc := bufio.NewScanner(f)
	sc.Buffer(make([]byte, 1<<20), 16<<20)
	i := 0
	// 528 and 4116: msize values at which a payload size derived from a smaller reserve than the
	// largest fixed message part (153 bytes) makes a full Twrite exceed msize
	msizes := []uint32{665, 4249, 528, 4116}
	offsets := []int64{0, 1<<32 + 7}
	if *full {
		msizes = []uint32{154, 155, 665, 666, 4249, 65689, 1<<20 + 153}
		offsets = []int64{0, 511, 1<<32 + 7, 1 << 40}
	}
	for sc.Scan() {
		i++
		if (i-1)%*nshard != *shard {
			continue
		}
		b := sc.Bytes()
		if len(b) > 0 && b[0] == '"' {
			var s string
			json.Unmarshal(b, &s)
			b = []byte(s)
		}
		var v vec
		if err := json.Unmarshal(b, &v); err != nil {
			o.Findings = append(o.Findings, "bad vector: "+err.Error())
			continue
		}
		for mi, ms := range msizes {
			for oi, off := range offsets {
				if !*full && (mi+oi+i)%2 == 1 {
					continue
				}
				if pl := int(ms) - 153; pl < 3 && v.Chunk != pl {
					continue
				}
				run(&v, ms, off, false, o)
			}
		}
		// every vector once more over real sockets, frames arriving in pieces (4249 in the quick tier,
		// alternating with 65689 in the full one)
		if pl := 4249 - 153; v.Chunk <= pl {
			ms := uint32(4249)
			if *full && i%2 == 0 {
				ms = 65689
			}
			run(&v, ms, offsets[i%len(offsets)], true, o)
		}
		if len(o.Findings) > 30 || timeouts >= 3 {
			break
		}
	}
	b, _ := json.Marshal(o)
	if *outp == "" {
		os.Stdout.Write(b)
	} else {
		os.WriteFile(*outp, b, 0o644)
	}
}
