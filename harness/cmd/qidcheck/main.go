// Command qidcheck replays spec/Qid.tla against the code:
//   the (device, inode) grid through localfs' verif export (twice and interleaved: stability; exact value
//   for compact pairs; bit 63 for table pairs; injectivity over the whole grid),
//   all 7 x 4096 modes through FileMode.OSMode / ModeFromOS / QIDType,
//   real localfs files of every type, and
//   concurrent QID lookups of fresh and known paths through composefs/staticfs served by a real server
//   (a runtime abort of this process is the observation the caller looks for).
package main

import (
	"bufio"
	"encoding/json"
	"flag"
	"fmt"
	"net"
	"os"
	"path/filepath"
	"strings"
	"sync"
	"syscall"

	"golang.org/x/sys/unix"

	"github.com/hugelgupf/p9/fsimpl/composefs"
	"github.com/hugelgupf/p9/fsimpl/localfs"
	"github.com/hugelgupf/p9/fsimpl/staticfs"
	"github.com/hugelgupf/p9/fsimpl/qids"
	"github.com/hugelgupf/p9/fsimpl/templatefs"
	"github.com/hugelgupf/p9/linux"
	"github.com/hugelgupf/p9/p9"

	"verifharness/peer"
)

type pair struct {
	Maj    string `json:"maj"`
	Min    string `json:"min"`
	Up     string `json:"up"`
	Ino    string `json:"ino"`
	Likely bool   `json:"likely"`
}

type out struct {
	Pairs    int      `json:"pairs"`
	Modes    int      `json:"modes"`
	Lookups  int      `json:"concurrent_lookups"`
	Findings []string `json:"findings"`
	Samples  []any    `json:"samples"`
}

var vals = map[string]uint64{"0": 0, "1": 1, "2": 2, "3": 3, "8": 8, "2048": 2048, "4095": 4095, "4096": 4096, "2^20-1": 1<<20 - 1,
	"2^39-1": 1<<39 - 1, "2^39": 1 << 39, "2^39+1": 1<<39 + 1, "2^63": 1 << 63, "2^64-1": ^uint64(0)}

func grid(path string, o *out) {
	f, err := os.Open(path)
	if err != nil {
		fmt.Fprintln(os.Stderr, err)
		os.Exit(2)
	}
	defer f.Close()
	type key struct{ dev, ino uint64 }
	var ps []pair
	var keys []key
	sc := bufio.NewScanner(f)
	for sc.Scan() {
		b := sc.Bytes()
		if len(b) > 0 && b[0] == '"' {
			var s string
			json.Unmarshal(b, &s)
			b = []byte(s)
		}
		var p pair
		if json.Unmarshal(b, &p) != nil {
			continue
		}
		maj, min := vals[p.Maj], vals[p.Min]
		if maj > 1<<12-1+0 && maj != 4096 && maj != 1<<20-1 {
			continue
		}
		dev := unix.Mkdev(uint32(maj), uint32(min))
		if maj >= 4096 {
			// a major beyond 12 bits only exists in the upper half of dev_t
			dev = unix.Mkdev(uint32(maj&0xfff), uint32(min)) | (maj>>12)<<44
		}
		dev |= vals[p.Up] << 63 >> 23 // a bit in the "nothing really" half
		ps = append(ps, p)
		keys = append(keys, key{dev, vals[p.Ino]})
	}
	first := make([]uint64, len(ps))
	owner := map[uint64]int{}
	for i, k := range keys {
		o.Pairs++
		q, err := localfs.VerifQIDPath(k.dev, k.ino)
		if err != nil {
			o.Findings = append(o.Findings, fmt.Sprintf("(dev %#x, ino %#x): %v", k.dev, k.ino, err))
			continue
		}
		first[i] = q
		p := ps[i]
		desc := fmt.Sprintf("(major %s, minor %s, upper %s, inode %s = dev %#x ino %#x)", p.Maj, p.Min, p.Up, p.Ino, k.dev, k.ino)
		likelyReal := uint64(unix.Major(k.dev)) <= 4095 && uint64(unix.Minor(k.dev)) <= 4095 && k.dev>>32 == 0 && k.ino < 1<<39
		if likelyReal {
			want := uint64(unix.Major(k.dev))<<51 | uint64(unix.Minor(k.dev))<<39 | k.ino
			if q != want {
				o.Findings = append(o.Findings, fmt.Sprintf("%s: path %#x, Qid.tla: major<<51 | minor<<39 | inode = %#x", desc, q, want))
			}
		} else if q>>63 != 1 {
			o.Findings = append(o.Findings, fmt.Sprintf("%s: table path %#x does not have bit 63 set", desc, q))
		}
		if j, dup := owner[q]; dup && keys[j] != k {
			o.Findings = append(o.Findings, fmt.Sprintf("%s and (dev %#x ino %#x) share the path %#x", desc, keys[j].dev, keys[j].ino, q))
		}
		owner[q] = i
	}
	// stability: again, in reverse order (interleaved with the other pairs)
	for i := len(keys) - 1; i >= 0; i-- {
		q, _ := localfs.VerifQIDPath(keys[i].dev, keys[i].ino)
		if q != first[i] {
			o.Findings = append(o.Findings, fmt.Sprintf("(dev %#x, ino %#x): path %#x on the first lookup, %#x later", keys[i].dev, keys[i].ino, first[i], q))
			if len(o.Findings) > 20 {
				break
			}
		}
	}
	// the table must stay disjoint from the compact range as it grows: compact pairs that equal small table indices
	for n := uint64(1); n <= 64; n++ {
		for _, maj := range []uint32{0, 1024, 2048, 4095} {
			q, _ := localfs.VerifQIDPath(unix.Mkdev(maj, 0), n)
			if j, dup := owner[q]; dup && (keys[j].dev != unix.Mkdev(maj, 0) || keys[j].ino != n) {
				o.Findings = append(o.Findings, fmt.Sprintf("(major %d, minor 0, inode %d) and (dev %#x ino %#x) share the path %#x", maj, n, keys[j].dev, keys[j].ino, q))
			}
		}
	}
	o.Samples = append(o.Samples, map[string]any{"grid_pairs": len(keys)})
}

func modes(o *out) {
	types := []p9.FileMode{p9.ModeRegular, p9.ModeDirectory, p9.ModeSymlink, p9.ModeNamedPipe, p9.ModeCharacterDevice, p9.ModeBlockDevice, p9.ModeSocket}
	for _, t := range types {
		for perm := p9.FileMode(0); perm < 4096; perm++ {
			o.Modes++
			m := t | perm
			back := p9.ModeFromOS(m.OSMode())
			if back != m {
				o.Findings = append(o.Findings, fmt.Sprintf("mode %#o -> os %v -> %#o", uint32(m), m.OSMode(), uint32(back)))
				if len(o.Findings) > 20 {
					return
				}
			}
			qt := m.QIDType()
			if (t == p9.ModeDirectory) != (qt == p9.TypeDir) || (t == p9.ModeSymlink) != (qt == p9.TypeSymlink) {
				o.Findings = append(o.Findings, fmt.Sprintf("mode %#o has QID type %#x", uint32(m), uint8(qt)))
				return
			}
		}
	}
}

func realFiles(work string, o *out) {
	d := filepath.Join(work, "types")
	os.MkdirAll(filepath.Join(d, "dir"), 0o755)
	os.WriteFile(filepath.Join(d, "reg"), []byte("x"), 0o640)
	os.Symlink("reg", filepath.Join(d, "sym"))
	syscall.Mkfifo(filepath.Join(d, "fifo"), 0o600)
	if l, err := net.Listen("unix", filepath.Join(d, "sock")); err == nil {
		defer l.Close()
	}
	root, err := localfs.Attacher(d).Attach()
	if err != nil {
		o.Findings = append(o.Findings, "localfs attach: "+err.Error())
		return
	}
	for _, n := range []string{"dir", "reg", "sym", "fifo", "sock"} {
		q1, f, err := root.Walk([]string{n})
		if err != nil {
			o.Findings = append(o.Findings, fmt.Sprintf("walk %s: %v", n, err))
			continue
		}
		q2, _, attr, err := f.GetAttr(p9.AttrMask{Mode: true})
		if err != nil {
			o.Findings = append(o.Findings, fmt.Sprintf("getattr %s: %v", n, err))
			continue
		}
		q3, _, _, _ := f.GetAttr(p9.AttrMask{Mode: true})
		f.Close()
		if q1[0] != q2 || q2 != q3 {
			o.Findings = append(o.Findings, fmt.Sprintf("localfs %s: QIDs differ between Walk %+v and GetAttr %+v / %+v", n, q1[0], q2, q3))
		}
		if q2.Type != attr.Mode.QIDType() {
			o.Findings = append(o.Findings, fmt.Sprintf("localfs %s: QID type %#x, mode %#o has type %#x", n, uint8(q2.Type), uint32(attr.Mode), uint8(attr.Mode.QIDType())))
		}
	}
	os.RemoveAll(d)
}

func concurrent(o *out, goroutines, files int) {
	var copts []composefs.Opt
	for m := 0; m < 6; m++ {
		var sopts []staticfs.Option
		for i := 0; i < files; i++ {
			sopts = append(sopts, staticfs.WithFile(fmt.Sprintf("f%d_%d", m, i), "x"))
		}
		st, _ := staticfs.New(sopts...)
		copts = append(copts, composefs.WithMount(fmt.Sprintf("m%d", m), st))
	}
	cfs, err := composefs.New(copts...)
	if err != nil {
		o.Findings = append(o.Findings, "composefs: "+err.Error())
		return
	}
	srv := p9.NewServer(cfs)
	var mu sync.Mutex
	seen := map[string]p9.QID{}
	owner := map[uint64]string{}
	var wg sync.WaitGroup
	for g := 0; g < goroutines; g++ {
		wg.Add(1)
		go func(g int) {
			defer wg.Done()
			a, b := peer.NewDuplexPair()
			go srv.Handle(b, b)
			cl, err := p9.NewClient(a)
			if err != nil {
				return
			}
			defer cl.Close()
			root, err := cl.Attach("")
			if err != nil {
				return
			}
			for i := 0; i < files; i++ {
				m := (g + i) % 6
				name := fmt.Sprintf("f%d_%d", m, (i*7+g)%files)
				qs, f, err := root.Walk([]string{fmt.Sprintf("m%d", m), name})
				if err != nil {
					continue
				}
				q2, _, _, _ := f.GetAttr(p9.AttrMask{Mode: true})
				f.Close()
				key := fmt.Sprintf("m%d/%s", m, name)
				mu.Lock()
				o.Lookups += 2
				for _, q := range []p9.QID{qs[1], q2} {
					if old, ok := seen[key]; ok && old.Path != q.Path {
						o.Findings = append(o.Findings, fmt.Sprintf("%s had QID path %d, now %d (two paths for one source path)", key, old.Path, q.Path))
					}
					seen[key] = q
					if who, ok := owner[q.Path]; ok && who != key {
						o.Findings = append(o.Findings, fmt.Sprintf("%s and %s share QID path %d", key, who, q.Path))
					}
					owner[q.Path] = key
				}
				mu.Unlock()
			}
		}(g)
	}
	wg.Wait()
}

// memFS is a small read-only tree whose Files implement WalkGetAttr themselves (the backends in the
// repository all answer ENOSYS there, so the server's and the QID mapper's native path is otherwise
// never taken).  Raw QID paths are base + index: two mounts of the same shape overlap on purpose.
type memFS struct{ base uint64 }

type memFile struct {
	templatefs.NoopFile
	fs   *memFS
	path []string // "" root, else components
}

func (m *memFS) Attach() (p9.File, error) { return &memFile{fs: m}, nil }

var memTree = map[string]bool{"": true, "a": true, "a/x": false, "b": true, "b/x": false, "f": false}

func (f *memFile) key() string { return strings.Join(f.path, "/") }
func (f *memFile) qid() p9.QID {
	keys := []string{"", "a", "a/x", "b", "b/x", "f"}
	for i, k := range keys {
		if k == f.key() {
			t := p9.TypeRegular
			if memTree[k] {
				t = p9.TypeDir
			}
			return p9.QID{Type: t, Path: f.fs.base + uint64(i)}
		}
	}
	return p9.QID{}
}
func (f *memFile) attr() p9.Attr {
	if memTree[f.key()] {
		return p9.Attr{Mode: p9.ModeDirectory | 0o755}
	}
	return p9.Attr{Mode: p9.ModeRegular | 0o644}
}
func (f *memFile) step(names []string) ([]p9.QID, *memFile, error) {
	cur := &memFile{fs: f.fs, path: append([]string{}, f.path...)}
	var qs []p9.QID
	for _, n := range names {
		cur = &memFile{fs: f.fs, path: append(append([]string{}, cur.path...), n)}
		if _, ok := memTree[cur.key()]; !ok {
			return nil, nil, linux.ENOENT
		}
		qs = append(qs, cur.qid())
	}
	return qs, cur, nil
}
func (f *memFile) Walk(names []string) ([]p9.QID, p9.File, error) {
	qs, nf, err := f.step(names)
	if err != nil {
		return nil, nil, err
	}
	return qs, nf, nil
}
func (f *memFile) WalkGetAttr(names []string) ([]p9.QID, p9.File, p9.AttrMask, p9.Attr, error) {
	qs, nf, err := f.step(names)
	if err != nil {
		return nil, nil, p9.AttrMask{}, p9.Attr{}, err
	}
	return qs, nf, p9.AttrMaskAll, nf.attr(), nil
}
func (f *memFile) GetAttr(p9.AttrMask) (p9.QID, p9.AttrMask, p9.Attr, error) {
	return f.qid(), p9.AttrMaskAll, f.attr(), nil
}
func (f *memFile) Open(p9.OpenFlags) (p9.QID, uint32, error) { return f.qid(), 0, nil }

// nativeWGA: composefs over two memFS mounts, visited through client and server by Walk, WalkGetAttr with
// names and WalkGetAttr without names (a clone): whichever way a file is reached its QID path is the
// same (stable) and no two files share one (injective) - Qid.tla's Stable / Injective for the mapper
// when the backend answers WalkGetAttr itself.
func nativeWGA(o *out) {
	cfs, err := composefs.New(composefs.WithMount("m1", &memFS{base: 100}), composefs.WithMount("m2", &memFS{base: 100}))
	if err != nil {
		o.Findings = append(o.Findings, "native WalkGetAttr: composefs: "+err.Error())
		return
	}
	a, b := peer.NewDuplexPair()
	go p9.NewServer(cfs).Handle(b, b)
	cl, err := p9.NewClient(a)
	if err != nil {
		o.Findings = append(o.Findings, "native WalkGetAttr: "+err.Error())
		return
	}
	defer cl.Close()
	root, err := cl.Attach("")
	if err != nil {
		o.Findings = append(o.Findings, "native WalkGetAttr: attach: "+err.Error())
		return
	}
	seen := map[string]uint64{}
	owner := map[uint64]string{}
	note := func(key, how string, q p9.QID) {
		o.Lookups++
		if old, ok := seen[key]; ok && old != q.Path {
			o.Findings = append(o.Findings, fmt.Sprintf("backend with native WalkGetAttr: %s has QID path %d when reached by %s, %d before (Qid.tla Stable)", key, q.Path, how, old))
		}
		seen[key] = q.Path
		if who, ok := owner[q.Path]; ok && who != key {
			o.Findings = append(o.Findings, fmt.Sprintf("backend with native WalkGetAttr: %s (by %s) and %s share QID path %d (Qid.tla Injective)", key, how, who, q.Path))
		}
		owner[q.Path] = key
	}
	for _, m := range []string{"m1", "m2"} {
		for _, rel := range [][]string{{}, {"a"}, {"a", "x"}, {"b"}, {"b", "x"}, {"f"}} {
			full := append([]string{m}, rel...)
			key := strings.Join(full, "/")
			qs, f1, err := root.Walk(full)
			if err != nil {
				o.Findings = append(o.Findings, fmt.Sprintf("native WalkGetAttr: walk %v: %v", full, err))
				return
			}
			note(key, "Walk", qs[len(qs)-1])
			if q, _, _, e := f1.GetAttr(p9.AttrMaskAll); e == nil {
				note(key, "GetAttr after Walk", q)
			}
			qs2, f2, _, _, err := root.WalkGetAttr(full)
			if err == nil {
				note(key, "WalkGetAttr", qs2[len(qs2)-1])
				if q, _, _, e := f2.GetAttr(p9.AttrMaskAll); e == nil {
					note(key, "GetAttr after WalkGetAttr", q)
				}
				// a clone of it, made without names
				if _, f3, _, _, e := f2.WalkGetAttr(nil); e == nil {
					if q, _, _, e := f3.GetAttr(p9.AttrMaskAll); e == nil {
						note(key, "GetAttr on a zero-name WalkGetAttr clone", q)
					}
					// and what is reached FROM the clone
					if len(rel) == 1 && memTree[rel[0]] {
						if qs4, _, e := f3.Walk([]string{"x"}); e == nil {
							note(key+"/x", "Walk from a zero-name WalkGetAttr clone", qs4[0])
						}
					}
					f3.Close()
				}
				f2.Close()
			}
			f1.Close()
		}
	}
}

// sameKey forces the race Qid.tla explores (two callers both missing on the same fresh source):
// per round all goroutines are released at once on one never-seen source path; every caller must
// get the same path, later lookups must return it again, and no two sources may share a path.
func sameKey(o *out, rounds, goroutines int) {
	m := qids.NewMapper(&qids.PathGenerator{})
	owner := map[uint64]uint64{}
	for r := 0; r < rounds; r++ {
		src := uint64(1000 + r)
		res := make([]uint64, goroutines)
		var ready, done sync.WaitGroup
		start := make(chan struct{})
		for g := 0; g < goroutines; g++ {
			ready.Add(1)
			done.Add(1)
			go func(g int) {
				defer done.Done()
				ready.Done()
				<-start
				res[g] = m.QIDFor(p9.QID{Path: src}).Path
			}(g)
		}
		ready.Wait()
		close(start)
		done.Wait()
		o.Lookups += goroutines + 1
		later := m.QIDFor(p9.QID{Path: src}).Path
		for g, p := range res {
			if p != later {
				o.Findings = append(o.Findings, fmt.Sprintf("Mapper: source %d: concurrent caller %d of %d was told QID path %d, later lookups return %d (Qid.tla Stable)", src, g, goroutines, p, later))
				return
			}
		}
		if who, ok := owner[later]; ok && who != src {
			o.Findings = append(o.Findings, fmt.Sprintf("Mapper: sources %d and %d share QID path %d", who, src, later))
			return
		}
		owner[later] = src
	}
}

func main() {
	in := flag.String("in", "", "grid vectors")
	outp := flag.String("out", "", "")
	work := flag.String("work", "", "")
	gor := flag.Int("goroutines", 16, "")
	files := flag.Int("files", 60, "")
	flag.Parse()
	o := &out{}
	if *in != "" {
		grid(*in, o)
	}
	modes(o)
	if *work != "" {
		realFiles(*work, o)
	}
	concurrent(o, *gor, *files)
	sameKey(o, 3000, 8)
	nativeWGA(o)
	if len(o.Findings) > 30 {
		o.Findings = o.Findings[:30]
	}
	b, _ := json.Marshal(o)
	if *outp == "" {
		os.Stdout.Write(b)
	} else {
		os.WriteFile(*outp, b, 0o644)
	}
}
