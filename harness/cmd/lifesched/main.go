// Command lifesched executes stimulus scripts derived from spec/Lifetime.tla
// against a real p9.Server: "Start t" sends thread t's request (Tclunk,
// Tgetattr, Trenameat) on its connection or hangs the connection up,
// "Release Kind:r" lets the backend call of that kind on reference r's File
// return.  After every stimulus it waits for quiescence and records what is
// observable: which requests have been answered (and how), which gated calls
// are inside the backend, how often Close was entered on each File and every
// call that began on (or with) a File whose Close had begun.  Acceptance is
// decided against the state graph TLC computed (lib/bigstep.py).
package main

import (
	"encoding/json"
	"flag"
	"fmt"
	"os"
	"regexp"
	"runtime"
	"sort"
	"strconv"
	"strings"
	"time"

	"github.com/hugelgupf/p9/p9"

	"verifharness/peer"
	"verifharness/puppet"
	"verifharness/wirecodec"
)

type refCfg struct {
	Pa   int    `json:"pa"`
	Name string `json:"name"`
	Node int    `json:"node"`
	Conn int    `json:"conn"`
}

type thrCfg struct {
	Kind string `json:"kind"`
	Conn int    `json:"conn"`
	R    int    `json:"r"`
	Old  string `json:"old"`
	Tgt  int    `json:"tgt"`
	New  string `json:"new"`
}

type input struct {
	Name    string        `json:"name"`
	Refs    []refCfg      `json:"refs"`
	Threads []thrCfg      `json:"threads"`
	Gated   []string      `json:"gated"`
	Scripts [][][2]string `json:"scripts"`
}

type obs struct {
	Replies []string `json:"replies"`
	Gated   []string `json:"gated"`
	Closes  []int    `json:"closes"`
	UAC     []string `json:"uac"`
	// Skipped: the stimulus did not apply (the call to release is not inside the backend: the
	// implementation resolved a race or an iteration order differently from the script's branch)
	Skipped bool `json:"skipped,omitempty"`
}

type result struct {
	Script  int      `json:"script"`
	Obs     []obs    `json:"obs"`
	Monitor []string `json:"monitor"`
	Calls   int      `json:"calls"`
}

type runner struct {
	t     *wirecodec.Table
	quiet time.Duration
	maxw  time.Duration
}

type conn struct {
	raw  *peer.Raw
	done chan struct{}
	hung bool
}

type frameEv struct {
	conn int
	b    []byte
	eof  bool
}

var errnoName = map[uint64]string{9: "EBADF", 22: "EINVAL", 2: "ENOENT", 5: "EIO", 16: "EBUSY"}

var uacRe = regexp.MustCompile(`^(\w+) on closed file (\d+)$`)
var uacArgRe = regexp.MustCompile(`^(\w+) with closed file (\d+) as argument$`)

func (rn *runner) lockstep(c *conn, frames chan frameEv, ci int, name string, tag uint16, v wirecodec.Values) error {
	if err := c.raw.Send(name, tag, v); err != nil {
		return err
	}
	select {
	case ev := <-frames:
		if ev.eof || ev.conn != ci {
			return fmt.Errorf("setup: connection %d ended during %s", ci, name)
		}
		f, err := rn.t.Decode(ev.b)
		if err != nil {
			return err
		}
		if f.Name == "Rlerror" {
			return fmt.Errorf("setup: %s answered Rlerror %d", name, wirecodec.U(f.V, "ecode"))
		}
		return nil
	case <-time.After(5 * time.Second):
		return fmt.Errorf("setup: no reply to %s", name)
	}
}

func (rn *runner) run(in *input, si int) (*result, error) {
	res := &result{Script: si}
	auto := puppet.NewAuto()
	defer auto.Stop()
	srv := p9.NewServer(&puppet.Attacher{C: auto.C})
	frames := make(chan frameEv, 4096)
	conns := map[int]*conn{}
	exitedCh := make(chan int, 16)
	mkconn := func(ci int) *conn {
		c := &conn{raw: peer.NewRaw(rn.t), done: make(chan struct{})}
		t, w := c.raw.ServerEnds()
		go func() { srv.Handle(t, w); close(c.done); exitedCh <- ci }()
		go func() {
			for b := range c.raw.FR.C {
				frames <- frameEv{conn: ci, b: b}
			}
			frames <- frameEv{conn: ci, eof: true}
		}()
		conns[ci] = c
		return c
	}
	newestFile := func() int {
		m := 0
		for id := range auto.C.Files() {
			if id > m {
				m = id
			}
		}
		return m
	}
	// setup in lock step: one attach per root reference, one single-name walk per other reference
	fileOf := map[int]int{} // reference -> backend File id
	refOf := map[int]int{}
	tag := uint16(1000)
	for i, r := range in.Refs {
		id := i + 1
		c := conns[r.Conn]
		if c == nil {
			c = mkconn(r.Conn)
			tag++
			if err := rn.lockstep(c, frames, r.Conn, "Tversion", tag, wirecodec.Values{"msize": 65536, "version": "9P2000.L.Google.7"}); err != nil {
				return nil, err
			}
		}
		tag++
		if r.Pa == 0 {
			if err := rn.lockstep(c, frames, r.Conn, "Tattach", tag, wirecodec.Values{"fid": 100 + id, "afid": uint64(0xFFFFFFFF), "uname": "u", "aname": "", "n_uname": uint64(0xFFFFFFFF)}); err != nil {
				return nil, err
			}
		} else {
			if in.Refs[r.Pa-1].Conn != r.Conn {
				return nil, fmt.Errorf("reference %d: parent on another connection", id)
			}
			if err := rn.lockstep(c, frames, r.Conn, "Twalk", tag, wirecodec.Values{"fid": 100 + r.Pa, "newfid": 100 + id, "names": []string{r.Name}}); err != nil {
				return nil, err
			}
		}
		fileOf[id] = newestFile()
		refOf[fileOf[id]] = id
	}
	for _, t := range in.Threads {
		if conns[t.Conn] == nil {
			return nil, fmt.Errorf("thread on unknown connection %d", t.Conn)
		}
	}
	gated := map[string]bool{}
	for _, k := range in.Gated {
		gated[k] = true
	}
	label := func(c *puppet.Call) string { return c.K + ":" + strconv.Itoa(refOf[c.F]) }
	auto.SetGate(func(c *puppet.Call) bool { return gated[c.K] && refOf[c.F] != 0 })

	replies := map[string]bool{}
	pending := map[[2]int]int{} // (conn, tag) -> thread
	stopThread := map[int]int{} // conn -> stop thread

	observe := func() obs {
		deadline := time.Now().Add(rn.maxw)
		idle := time.NewTimer(rn.quiet)
		for {
			select {
			case ev := <-frames:
				if ev.eof {
					break
				}
				f, err := rn.t.Decode(ev.b)
				if err != nil {
					res.Monitor = append(res.Monitor, fmt.Sprintf("undecodable reply frame: %v", err))
					break
				}
				th, ok := pending[[2]int{ev.conn, int(f.Tag)}]
				if !ok {
					res.Monitor = append(res.Monitor, fmt.Sprintf("reply %s with tag %d that no outstanding request has", f.Name, f.Tag))
					break
				}
				delete(pending, [2]int{ev.conn, int(f.Tag)})
				st := "ok"
				if f.Name == "Rlerror" {
					e := wirecodec.U(f.V, "ecode")
					st = errnoName[e]
					if st == "" {
						st = fmt.Sprintf("errno%d", e)
					}
				}
				replies[fmt.Sprintf("%d:%s", th, st)] = true
			case <-auto.Notify:
			case ci := <-exitedCh:
				if th, ok := stopThread[ci]; ok {
					replies[fmt.Sprintf("%d:exited", th)] = true
				} else {
					res.Monitor = append(res.Monitor, fmt.Sprintf("Handle of connection %d returned without a hang-up", ci))
				}
			case <-idle.C:
				o := obs{Replies: []string{}, Gated: []string{}, UAC: []string{}}
				for k := range replies {
					o.Replies = append(o.Replies, k)
				}
				for _, c := range auto.Held() {
					o.Gated = append(o.Gated, label(c))
				}
				cl := auto.C.CloseCounts()
				for i := range in.Refs {
					o.Closes = append(o.Closes, cl[fileOf[i+1]])
				}
				seen := map[string]bool{}
				for _, u := range auto.C.UACs() {
					s := ""
					if m := uacRe.FindStringSubmatch(u); m != nil {
						if m[1] == "Close" {
							continue // counted in closes
						}
						n, _ := strconv.Atoi(m[2])
						s = fmt.Sprintf("%s:on:%d", m[1], refOf[n])
					} else if m := uacArgRe.FindStringSubmatch(u); m != nil {
						n, _ := strconv.Atoi(m[2])
						s = fmt.Sprintf("%s:arg:%d", m[1], refOf[n])
					} else {
						s = u
					}
					if !seen[s] {
						seen[s] = true
						o.UAC = append(o.UAC, s)
					}
				}
				sort.Strings(o.Replies)
				sort.Strings(o.Gated)
				sort.Strings(o.UAC)
				return o
			}
			if time.Now().After(deadline) {
				res.Monitor = append(res.Monitor, "no quiescence")
				return obs{}
			}
			if !idle.Stop() {
				select {
				case <-idle.C:
				default:
				}
			}
			idle.Reset(rn.quiet)
		}
	}

	for _, st := range in.Scripts[si] {
		switch st[0] {
		case "Start":
			id, _ := strconv.Atoi(st[1])
			t := in.Threads[id-1]
			c := conns[t.Conn]
			if c.hung {
				res.Obs = append(res.Obs, obs{Skipped: true})
				continue
			}
			var err error
			switch t.Kind {
			case "clunk":
				pending[[2]int{t.Conn, id}] = id
				err = c.raw.Send("Tclunk", uint16(id), wirecodec.Values{"fid": 100 + t.R})
			case "op":
				pending[[2]int{t.Conn, id}] = id
				err = c.raw.Send("Tgetattr", uint16(id), wirecodec.Values{"fid": 100 + t.R, "request_mask": []string{"mode"}})
			case "opn":
				pending[[2]int{t.Conn, id}] = id
				err = c.raw.Send("Tlock", uint16(id), wirecodec.Values{"fid": 100 + t.R, "type": 1, "flags": 1, "start": 0, "length": 1, "proc_id": 7, "client_id": "c"})
			case "rename":
				pending[[2]int{t.Conn, id}] = id
				err = c.raw.Send("Trenameat", uint16(id), wirecodec.Values{"olddirfid": 100 + t.R, "oldname": t.Old, "newdirfid": 100 + t.Tgt, "newname": t.New})
			case "stop":
				stopThread[t.Conn] = id
				c.raw.Hangup()
				c.hung = true
			}
			if err != nil {
				res.Monitor = append(res.Monitor, "send failed: "+err.Error())
			}
		case "Release":
			want := st[1]
			n := auto.Release(func(c *puppet.Call) bool { return label(c) == want })
			if n == 0 {
				res.Obs = append(res.Obs, obs{Skipped: true})
				continue
			}
			if n != 1 {
				res.Monitor = append(res.Monitor, fmt.Sprintf("release %s: %d calls were held", want, n))
			}
		}
		res.Obs = append(res.Obs, observe())
	}
	// tear down: open every gate, hang up, give Handle a moment (a stuck handler shows in the observations)
	auto.SetGate(nil)
	auto.Release(nil)
	for _, c := range conns {
		if !c.hung {
			c.raw.Hangup()
		}
	}
	for _, c := range conns {
		select {
		case <-c.done:
		case <-time.After(2 * time.Second):
		}
	}
	res.Calls = len(auto.Events())
	return res, nil
}

func main() {
	in := flag.String("in", "", "scripts json")
	out := flag.String("out", "", "observations json")
	shard := flag.Int("shard", 0, "")
	nshard := flag.Int("nshard", 1, "")
	quiet := flag.Duration("quiet", 20*time.Millisecond, "idle window that counts as quiescence")
	flag.Parse()
	runtime.GOMAXPROCS(4)
	b, err := os.ReadFile(*in)
	if err != nil {
		fmt.Fprintln(os.Stderr, err)
		os.Exit(2)
	}
	var inp input
	if err := json.Unmarshal(b, &inp); err != nil {
		fmt.Fprintln(os.Stderr, err)
		os.Exit(2)
	}
	rn := &runner{t: wirecodec.MustLoad(), quiet: *quiet, maxw: 5 * time.Second}
	results := []*result{}
	for i := range inp.Scripts {
		if i%*nshard != *shard {
			continue
		}
		r, err := rn.run(&inp, i)
		if err != nil {
			fmt.Fprintln(os.Stderr, "script", i, err)
			os.Exit(2)
		}
		results = append(results, r)
	}
	ob, _ := json.Marshal(results)
	if *out == "" {
		os.Stdout.Write(ob)
	} else if err := os.WriteFile(*out, ob, 0o644); err != nil {
		fmt.Fprintln(os.Stderr, err)
		os.Exit(2)
	}
	_ = strings.TrimSpace
}
