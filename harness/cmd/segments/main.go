// Command segments replays the deliveries enumerated by TLC from
// spec/Segments.tla: the same byte stream (Twrite with payload, Tclunk,
// Tgetattr) is delivered to a real p9.Server split into the given chunks,
//   generic: through an io.Reader that returns exactly the chunks and reports
//            the end of the stream alone or together with the last data;
//   linux:   through a real AF_UNIX stream socket pair, one chunk at a time,
//            waiting until the receiver has drained each chunk (recvmsg path);
// the messages the server acts on (backend calls with their payload bytes,
// replies) must be those of the frames that are completely in the stream, and
// a stream ending inside a frame must end the session without a partial message.
package main

import (
	"bufio"
	"encoding/json"
	"flag"
	"fmt"
	"io"
	"net"
	"os"
	"sync"
	"syscall"
	"time"
	"unsafe"

	"github.com/hugelgupf/p9/p9"

	"verifharness/peer"
	"verifharness/puppet"
	"verifharness/wirecodec"
)

type vec struct {
	Chunks []int  `json:"chunks"`
	Mode   string `json:"mode"`
	Path   string `json:"path"`
	Expect []any  `json:"expect"`
	Stream string `json:"stream"`
}

type out struct {
	Cases    int      `json:"cases"`
	Findings []string `json:"findings"`
	Samples  []any    `json:"samples"`
}

// chunkReader returns exactly the given chunks.
type chunkReader struct {
	mu     sync.Mutex
	cond   *sync.Cond
	queue  [][]byte
	eof    bool
	with   bool // report EOF together with the last data
	closed bool
}

func newChunkReader() *chunkReader { c := &chunkReader{}; c.cond = sync.NewCond(&c.mu); return c }

func (c *chunkReader) push(b []byte) {
	c.mu.Lock()
	c.queue = append(c.queue, append([]byte{}, b...))
	c.cond.Broadcast()
	c.mu.Unlock()
}
func (c *chunkReader) end(withData bool) {
	c.mu.Lock()
	c.eof, c.with = true, withData
	c.cond.Broadcast()
	c.mu.Unlock()
}
func (c *chunkReader) Read(p []byte) (int, error) {
	c.mu.Lock()
	defer c.mu.Unlock()
	for len(c.queue) == 0 && !c.eof && !c.closed {
		c.cond.Wait()
	}
	if len(c.queue) == 0 {
		return 0, io.EOF
	}
	n := copy(p, c.queue[0])
	if n == len(c.queue[0]) {
		c.queue = c.queue[1:]
	} else {
		c.queue[0] = c.queue[0][n:]
	}
	if len(c.queue) == 0 && c.eof && c.with {
		return n, io.EOF
	}
	return n, nil
}
func (c *chunkReader) Close() error {
	c.mu.Lock()
	c.closed = true
	c.cond.Broadcast()
	c.mu.Unlock()
	return nil
}
func (c *chunkReader) pending() int {
	c.mu.Lock()
	defer c.mu.Unlock()
	n := 0
	for _, q := range c.queue {
		n += len(q)
	}
	return n
}

func fionread(fd int) int {
	var n int32
	syscall.Syscall(syscall.SYS_IOCTL, uintptr(fd), 0x541B, uintptr(unsafe.Pointer(&n)))
	return int(n)
}

var payload = []byte("PAYLD")

func run(t *wirecodec.Table, v *vec, o *out) {
	o.Cases++
	auto := puppet.NewAuto()
	defer auto.Stop()
	var mu sync.Mutex
	var writes [][]byte
	auto.Answer = func(c *puppet.Call) (puppet.Result, bool) {
		if c.K == "WriteAt" {
			mu.Lock()
			writes = append(writes, c.Args["data"].([]byte))
			mu.Unlock()
		}
		return puppet.Result{}, false
	}
	srv := p9.NewServer(&puppet.Attacher{C: auto.C})
	desc := fmt.Sprintf("%s path, chunks %v, end of stream %s", v.Path, v.Chunks, v.Mode)
	// the stream under test
	var stream []byte
	names := map[uint16]string{11: "Rwrite", 12: "Rclunk", 13: "Rgetattr"}
	order := []uint16{11, 12, 13}
	if v.Stream == "B" {
		// a frame of an unregistered type (body of 33 bytes, tag 10): rejected with Rlerror, body discarded
		stream = []byte{40, 0, 0, 0, 200, 10, 0}
		for i := 0; i < 33; i++ {
			stream = append(stream, byte(0xA0+i))
		}
		stream = append(stream, t.Encode("Twrite", 11, wirecodec.Values{"fid": 2, "offset": 9, "data": payload})...)
		stream = append(stream, t.Encode("Tgetattr", 13, wirecodec.Values{"fid": 1, "request_mask": []string{"mode"}})...)
		names = map[uint16]string{10: "Rlerror", 11: "Rwrite", 13: "Rgetattr"}
		order = []uint16{10, 11, 13}
		desc = "stream B (unknown-type frame, Twrite, Tgetattr), " + desc
	} else {
		stream = t.Encode("Twrite", 11, wirecodec.Values{"fid": 2, "offset": 9, "data": payload})
		stream = append(stream, t.Encode("Tclunk", 12, wirecodec.Values{"fid": 3})...)
		stream = append(stream, t.Encode("Tgetattr", 13, wirecodec.Values{"fid": 1, "request_mask": []string{"mode"}})...)
	}
	nouid := uint64(0xFFFFFFFF)
	setup := [][]byte{
		t.Encode("Tversion", 0xFFFF, wirecodec.Values{"msize": 8192, "version": "9P2000.L"}),
		t.Encode("Tattach", 1, wirecodec.Values{"fid": 1, "afid": nouid, "uname": "", "aname": "", "n_uname": nouid}),
		t.Encode("Twalk", 2, wirecodec.Values{"fid": 1, "newfid": 2, "names": []string{"f1"}}),
		t.Encode("Tlopen", 3, wirecodec.Values{"fid": 2, "flags": 2}),
		t.Encode("Twalk", 4, wirecodec.Values{"fid": 1, "newfid": 3, "names": []string{"d"}}),
	}
	var send func(b []byte)
	var finish func()
	var replies *peer.FrameReader
	done := make(chan struct{})
	if v.Path == "generic" {
		cr := newChunkReader()
		back := peer.NewPipe()
		replies = peer.NewFrameReader(peer.ReadEnd{P: back})
		go func() { srv.Handle(cr, peer.WriteEnd{P: back}); close(done) }()
		send = func(b []byte) {
			cr.push(b)
			// (bounded: a receiver that has given the connection up never takes the chunk)
			dl := time.Now().Add(2 * time.Second)
			for cr.pending() > 0 && time.Now().Before(dl) {
				select {
				case <-done:
					return
				default:
				}
				time.Sleep(20 * time.Microsecond)
			}
		}
		finish = func() {}
		_ = finish
		for _, s := range setup {
			send(s)
			if _, ok, to := replies.Next(3 * time.Second); !ok || to {
				o.Findings = append(o.Findings, desc+": setup failed")
				return
			}
		}
		pos := 0
		for i, c := range v.Chunks {
			last := i == len(v.Chunks)-1
			if last && v.Mode == "withdata" {
				cr.mu.Lock()
				cr.queue = append(cr.queue, append([]byte{}, stream[pos:pos+c]...))
				cr.eof, cr.with = true, true
				cr.cond.Broadcast()
				cr.mu.Unlock()
			} else {
				send(stream[pos : pos+c])
			}
			pos += c
		}
		cr.end(v.Mode == "withdata")
	} else {
		fds, err := syscall.Socketpair(syscall.AF_UNIX, syscall.SOCK_STREAM, 0)
		if err != nil {
			o.Findings = append(o.Findings, "socketpair: "+err.Error())
			return
		}
		sf := os.NewFile(uintptr(fds[0]), "srv")
		cf := os.NewFile(uintptr(fds[1]), "cli")
		sc, err1 := net.FileConn(sf)
		cc, err2 := net.FileConn(cf)
		if err1 != nil || err2 != nil {
			o.Findings = append(o.Findings, "fileconn failed")
			return
		}
		defer sf.Close()
		defer cf.Close()
		replies = peer.NewFrameReader(cc)
		go func() { srv.Handle(sc, sc); close(done) }()
		send = func(b []byte) {
			cc.Write(b)
			// wait until the receiver has taken the chunk out of the socket
			dl := time.Now().Add(2 * time.Second)
			for fionread(fds[0]) > 0 && time.Now().Before(dl) {
				time.Sleep(20 * time.Microsecond)
			}
			time.Sleep(30 * time.Microsecond)
		}
		for _, s := range setup {
			send(s)
			if _, ok, to := replies.Next(3 * time.Second); !ok || to {
				o.Findings = append(o.Findings, desc+": setup failed")
				return
			}
		}
		pos := 0
		for _, c := range v.Chunks {
			send(stream[pos : pos+c])
			pos += c
		}
		cc.(*net.UnixConn).CloseWrite()
		defer cc.Close()
	}
	// expected: frames delivered (their replies, in order) then the end
	want := 0
	for _, e := range v.Expect {
		if _, ok := e.([]any); ok {
			want++
		}
	}
	seen := map[uint16]bool{}
	got := 0
	ended := false
	for {
		var b []byte
		ok, to := true, false
		if ended {
			b, ok, to = replies.Next(30 * time.Millisecond)
			if to {
				break
			}
		} else {
			select {
			case b, ok = <-replies.C:
			case <-done:
				// (the harness keeps its own descriptor of the server end open, so the
				// end of the session shows as Handle returning, not as EOF at the peer)
				ended = true
				continue
			case <-time.After(3 * time.Second):
				to = true
			}
		}
		if to {
			o.Findings = append(o.Findings, fmt.Sprintf("%s: neither a reply nor the end of the session after %d replies (the receiver waits although the stream has ended)", desc, got))
			return
		}
		if !ok {
			break
		}
		f, err := t.Decode(b)
		if err != nil {
			o.Findings = append(o.Findings, desc+": malformed reply: "+err.Error())
			return
		}
		// replies of concurrently served requests may come in any order
		if names[f.Tag] != f.Name || seen[f.Tag] {
			o.Findings = append(o.Findings, fmt.Sprintf("%s: unexpected reply %s tag %d; the stream's frames answer %v", desc, f.Name, f.Tag, names))
			return
		}
		seen[f.Tag] = true
		got++
	}
	for k := 0; k < got; k++ {
		if !seen[order[k]] && got == k+1 {
			o.Findings = append(o.Findings, fmt.Sprintf("%s: the delivered messages are not a prefix of the stream's frames (%v)", desc, seen))
			return
		}
	}
	select {
	case <-done:
	case <-time.After(3 * time.Second):
		o.Findings = append(o.Findings, desc+": Handle did not return after the end of the stream")
		return
	}
	if got != want {
		o.Findings = append(o.Findings, fmt.Sprintf("%s: %d messages were delivered, %d frames are completely in the stream (Segments.tla: %v)", desc, got, want, v.Expect))
		return
	}
	mu.Lock()
	defer mu.Unlock()
	if (v.Stream != "B" && want >= 1) || want >= 2 {
		if len(writes) != 1 || string(writes[0]) != string(payload) {
			o.Findings = append(o.Findings, fmt.Sprintf("%s: the backend saw payload(s) %q, the frame carries %q", desc, writes, payload))
			return
		}
	} else if len(writes) != 0 {
		o.Findings = append(o.Findings, desc+": a partial Twrite reached the backend")
		return
	}
	if len(o.Samples) < 2 && len(v.Chunks) >= 3 {
		o.Samples = append(o.Samples, map[string]any{"vector": v, "messages_delivered": got})
	}
}

func main() {
	in := flag.String("in", "", "")
	outp := flag.String("out", "", "")
	shard := flag.Int("shard", 0, "")
	nshard := flag.Int("nshard", 1, "")
	flag.Parse()
	f, err := os.Open(*in)
	if err != nil {
		fmt.Fprintln(os.Stderr, err)
		os.Exit(2)
	}
	t := wirecodec.MustLoad()
	o := &out{}
	sc := bufio.NewScanner(f)
	sc.Buffer(make([]byte, 1<<20), 16<<20)
	i := 0
	for sc.Scan() {
		i++
		if (i-1)%*nshard != *shard {
			continue
		}
		b := sc.Bytes()
		if len(b) > 0 && b[0] == '"' {
			var s string
			json.Unmarshal(b, &s)
			b = []byte(s)
		}
		var v vec
		if err := json.Unmarshal(b, &v); err != nil {
			o.Findings = append(o.Findings, "bad vector: "+err.Error())
			continue
		}
		run(t, &v, o)
		if len(o.Findings) > 20 {
			break
		}
		if len(o.Findings) > 25 {
			break
		}
	}
	b, _ := json.Marshal(o)
	if *outp == "" {
		os.Stdout.Write(b)
	} else {
		os.WriteFile(*outp, b, 0o644)
	}
}
