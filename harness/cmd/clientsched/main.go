// Command clientsched executes stimulus scripts derived from spec/Client.tla
// against a real p9.Client connected to a scripted server: start caller k (a
// goroutine calling File.Walk), answer the i-th request received, inject a
// frame the client cannot accept, close the connection, make writes fail.
// After each stimulus it waits for quiescence and records, per caller,
// whether it is blocked, failed, or returned - and with WHICH request's reply.
package main

import (
	"encoding/binary"
	"encoding/json"
	"errors"
	"flag"
	"fmt"
	"os"
	"runtime"
	"sync"
	"time"

	"github.com/hugelgupf/p9/linux"
	"github.com/hugelgupf/p9/p9"

	"verifharness/peer"
	"verifharness/wirecodec"
)

type input struct {
	Name    string     `json:"name"`
	Callers int        `json:"callers"`
	Scripts [][][2]any `json:"scripts"`
	// Burst: consecutive Answer / Refuse stimuli are written to the client in ONE piece (after the
	// last of the run), so that the replies are read back to back; the stimuli before the last
	// one of a run are recorded as unobserved
	Burst bool `json:"burst"`
}

type obs struct {
	Callers []int `json:"callers"`
	Wire    []int `json:"wire"`
	// Unobserved: the stimulus was buffered (burst mode); nothing was observed after it
	Unobserved bool `json:"unobserved,omitempty"`
}

type result struct {
	Script  int      `json:"script"`
	Obs     []obs    `json:"obs"`
	Monitor []string `json:"monitor"`
}

// clientConn is the client's end: reads from the server pipe, writes to the
// client pipe; writes can be held and made to fail.
type clientConn struct {
	r, w *peer.Pipe
	mu   sync.Mutex
	cond *sync.Cond
	hold bool
	fail bool
	// holdRet: writes deliver at once but return only after release
	holdRet bool
	hdr     []byte
	need    int
}

func (c *clientConn) Read(b []byte) (int, error) { return c.r.Read(b) }
func (c *clientConn) Write(b []byte) (int, error) {
	c.mu.Lock()
	for c.hold && !c.fail {
		c.cond.Wait()
	}
	f := c.fail
	late := c.holdRet
	c.mu.Unlock()
	if f {
		return 0, errors.New("clientsched: write failed")
	}
	n, err := c.w.Write(b)
	// frame accounting: a frame may be written in several pieces; only the Write that completes a
	// frame is the one whose return is delayed
	c.mu.Lock()
	rest := b[:n]
	complete := false
	for len(rest) > 0 {
		if c.need == 0 {
			c.hdr = append(c.hdr, rest[0])
			rest = rest[1:]
			if len(c.hdr) == 4 {
				c.need = int(c.hdr[0]) | int(c.hdr[1])<<8 | int(c.hdr[2])<<16 | int(c.hdr[3])<<24
				c.need -= 4
				c.hdr = c.hdr[:0]
				if c.need <= 0 {
					c.need = 0
					complete = true
				}
			}
			continue
		}
		k := len(rest)
		if k > c.need {
			k = c.need
		}
		c.need -= k
		rest = rest[k:]
		if c.need == 0 {
			complete = true
		}
	}
	c.mu.Unlock()
	if late && complete {
		// the frame is delivered; the return is delayed (HoldReturns) until ReleaseReturns / a failure
		c.mu.Lock()
		for c.holdRet && !c.fail {
			c.cond.Wait()
		}
		c.mu.Unlock()
	}
	return n, err
}
func (c *clientConn) Close() error { c.r.CloseRead(); c.w.CloseWrite(); return nil }

type recvd struct {
	tag uint16
	id  int
	fid uint32
}

func run(t *wirecodec.Table, in *input, si int, quiet time.Duration) (*result, error) {
	res := &result{Script: si}
	toSrv, toCli := peer.NewPipe(), peer.NewPipe()
	cc := &clientConn{r: toCli, w: toSrv}
	cc.cond = sync.NewCond(&cc.mu)
	fr := peer.NewFrameReader(peer.ReadEnd{P: toSrv})
	var wire []recvd
	var wmu sync.Mutex
	events := make(chan struct{}, 1024)
	bound := map[uint32]bool{}
	ping := func() {
		select {
		case events <- struct{}{}:
		default:
		}
	}
	// scripted server: auto-answers version/attach/clunk, records walks
	go func() {
		for b := range fr.C {
			f, err := t.Decode(b)
			if err != nil {
				wmu.Lock()
				res.Monitor = append(res.Monitor, "client sent an undecodable frame: "+err.Error())
				wmu.Unlock()
				continue
			}
			if f.Tag == 0xFFFF && f.Name != "Tversion" {
				wmu.Lock()
				res.Monitor = append(res.Monitor, "client used NOTAG for "+f.Name)
				wmu.Unlock()
			}
			switch f.Name {
			case "Tversion":
				toCli.Write(t.Encode("Rversion", f.Tag, wirecodec.Values{"msize": wirecodec.U(f.V, "msize"), "version": f.V["version"]}))
			case "Tattach":
				toCli.Write(t.Encode("Rattach", f.Tag, wirecodec.Values{"qid": wirecodec.Values{"type": 0x80, "path": 1}}))
			case "Tclunk":
				wmu.Lock()
				delete(bound, uint32(wirecodec.U(f.V, "fid")))
				wmu.Unlock()
				toCli.Write(t.Encode("Rclunk", f.Tag, wirecodec.Values{}))
			case "Twalk":
				names := f.V["names"].([]string)
				id := 0
				if len(names) == 1 {
					fmt.Sscanf(names[0], "c%d", &id)
				}
				nf := uint32(wirecodec.U(f.V, "newfid"))
				wmu.Lock()
				if nf == 0xFFFFFFFF {
					res.Monitor = append(res.Monitor, "client used NOFID as newfid")
				}
				if bound[nf] {
					res.Monitor = append(res.Monitor, fmt.Sprintf("fid %d re-issued while the server still has it bound", nf))
				}
				wire = append(wire, recvd{tag: f.Tag, id: id, fid: nf})
				wmu.Unlock()
				ping()
			}
		}
	}()
	cl, err := p9.NewClient(cc)
	if err != nil {
		// (seen when an earlier client left a used response object in the process-wide pool)
		res.Monitor = append(res.Monitor, fmt.Sprintf("NewClient against a well-behaved server failed: %v", err))
		return res, nil
	}
	root, err := cl.Attach("")
	if err != nil {
		res.Monitor = append(res.Monitor, fmt.Sprintf("Attach against a well-behaved server failed: %v", err))
		return res, nil
	}
	state := make([]int, in.Callers+1) // 0 idle, 1 blocked, -1 err, 100+j ok with reply j
	ncall := make([]int, in.Callers+1)
	var smu sync.Mutex
	var keep []p9.File
	answered := map[int]bool{}

	observe := func() obs {
		idle := time.NewTimer(quiet)
		deadline := time.Now().Add(5 * time.Second)
		for {
			select {
			case <-events:
				if !idle.Stop() {
					select {
					case <-idle.C:
					default:
					}
				}
				idle.Reset(quiet)
				if time.Now().After(deadline) {
					res.Monitor = append(res.Monitor, "no quiescence")
					return obs{}
				}
			case <-idle.C:
				o := obs{}
				smu.Lock()
				o.Callers = append([]int{}, state[1:]...)
				smu.Unlock()
				wmu.Lock()
				for _, w := range wire {
					o.Wire = append(o.Wire, w.id)
				}
				wmu.Unlock()
				if o.Wire == nil {
					o.Wire = []int{}
				}
				return o
			}
		}
	}

	// burst mode: out() buffers a reply frame if the next stimulus is another Answer / Refuse (and
	// reports true: nothing to observe yet); otherwise it writes everything buffered in one piece
	var pend []byte
	script := in.Scripts[si]
	out := func(frame []byte, idx int) bool {
		pend = append(pend, frame...)
		if in.Burst && idx+1 < len(script) {
			if nk := script[idx+1][0].(string); nk == "Answer" || nk == "Refuse" {
				res.Obs = append(res.Obs, obs{Unobserved: true})
				return true
			}
		}
		toCli.Write(pend)
		pend = nil
		return false
	}
	for si2, st := range in.Scripts[si] {
		kind := st[0].(string)
		arg := int(st[1].(float64))
		if kind == "Answer" || kind == "Refuse" || kind == "badtype" || kind == "badbody" || kind == "cut" {
			wmu.Lock()
			n := len(wire)
			wmu.Unlock()
			if arg < 1 || arg > n {
				// the model says request arg has reached the server; it has not
				res.Monitor = append(res.Monitor, fmt.Sprintf("request %d never reached the server", arg))
				res.Obs = append(res.Obs, observe())
				continue
			}
		}
		switch kind {
		case "Begin":
			k := arg
			smu.Lock()
			ncall[k]++
			id := 10*ncall[k] + k
			state[k] = 1
			smu.Unlock()
			go func() {
				qids, f, err := root.Walk([]string{fmt.Sprintf("c%d", id)})
				smu.Lock()
				var le linux.Errno
				if err != nil && errors.As(err, &le) && le >= 300 && le < 400 {
					// refused by the server with the errno made for request (le - 300): MC_Client's 100 + (1000 + id)
					state[k] = 1100 + int(le-300)
				} else if err != nil {
					state[k] = -1
				} else {
					keep = append(keep, f)
					if len(qids) == 1 {
						state[k] = 100 + int(qids[0].Path)
					} else {
						state[k] = 100
					}
				}
				smu.Unlock()
				ping()
			}()
		case "Answer":
			wmu.Lock()
			w := wire[arg-1]
			answered[arg] = true
			bound[w.fid] = true
			wmu.Unlock()
			if out(t.Encode("Rwalk", w.tag, wirecodec.Values{"qids": []wirecodec.Values{{"type": 0x80, "path": w.id}}}), si2) {
				continue
			}
		case "Refuse":
			wmu.Lock()
			w := wire[arg-1]
			answered[arg] = true
			wmu.Unlock()
			if out(t.Encode("Rlerror", w.tag, wirecodec.Values{"ecode": 300 + w.id}), si2) {
				continue
			}
		case "badtype":
			wmu.Lock()
			w := wire[arg-1]
			wmu.Unlock()
			toCli.Write(t.Encode("Rclunk", w.tag, wirecodec.Values{}))
		case "badbody":
			wmu.Lock()
			w := wire[arg-1]
			wmu.Unlock()
			// Rwalk announcing five qids and carrying none
			b := t.Encode("Rwalk", w.tag, wirecodec.Values{"qids": []wirecodec.Values{}})
			b[7] = 5
			toCli.Write(b)
		case "cut":
			wmu.Lock()
			w := wire[arg-1]
			wmu.Unlock()
			b := t.Encode("Rwalk", w.tag, wirecodec.Values{"qids": []wirecodec.Values{{"type": 0x80, "path": w.id}, {"type": 0, "path": 2}}})
			toCli.Write(b[:len(b)-9])
			toCli.CloseWrite()
			cc.mu.Lock()
			cc.fail = true
			cc.cond.Broadcast()
			cc.mu.Unlock()
		case "badtag":
			toCli.Write(t.Encode("Rwalk", 0x7777, wirecodec.Values{"qids": []wirecodec.Values{}}))
		case "garbage":
			b := make([]byte, 7)
			binary.LittleEndian.PutUint32(b, 3)
			toCli.Write(b)
		case "Close":
			toCli.CloseWrite()
			cc.mu.Lock()
			cc.fail = true
			cc.cond.Broadcast()
			cc.mu.Unlock()
		case "HoldWrites":
			cc.mu.Lock()
			cc.hold = true
			cc.mu.Unlock()
		case "FailWrites":
			cc.mu.Lock()
			cc.fail = true
			cc.cond.Broadcast()
			cc.mu.Unlock()
		case "HoldReturns":
			cc.mu.Lock()
			cc.holdRet = true
			cc.mu.Unlock()
		case "ReleaseReturns":
			cc.mu.Lock()
			cc.holdRet = false
			cc.cond.Broadcast()
			cc.mu.Unlock()
		}
		ping()
		res.Obs = append(res.Obs, observe())
	}
	// tear down
	toCli.CloseWrite()
	cc.mu.Lock()
	cc.fail = true
	cc.cond.Broadcast()
	cc.mu.Unlock()
	toSrv.CloseWrite()
	runtime.KeepAlive(keep)
	return res, nil
}

func main() {
	in := flag.String("in", "", "")
	out := flag.String("out", "", "")
	shard := flag.Int("shard", 0, "")
	nshard := flag.Int("nshard", 1, "")
	quiet := flag.Duration("quiet", 20*time.Millisecond, "")
	procs := flag.Int("procs", 2, "GOMAXPROCS")
	flag.Parse()
	runtime.GOMAXPROCS(*procs)
	b, err := os.ReadFile(*in)
	if err != nil {
		fmt.Fprintln(os.Stderr, err)
		os.Exit(2)
	}
	var inp input
	if err := json.Unmarshal(b, &inp); err != nil {
		fmt.Fprintln(os.Stderr, err)
		os.Exit(2)
	}
	t := wirecodec.MustLoad()
	var results []*result
	for i := range inp.Scripts {
		if i%*nshard != *shard {
			continue
		}
		r, err := run(t, &inp, i, *quiet)
		if err != nil {
			fmt.Fprintln(os.Stderr, "script", i, err)
			os.Exit(2)
		}
		results = append(results, r)
	}
	ob, _ := json.Marshal(results)
	if *out == "" {
		os.Stdout.Write(ob)
	} else if err := os.WriteFile(*out, ob, 0o644); err != nil {
		fmt.Fprintln(os.Stderr, err)
		os.Exit(2)
	}
}
