// Command msgcache replays the histories enumerated by TLC from
// spec/MsgCache.tla: messages of one type with shrinking and growing list /
// string / payload lengths, alternating between two connections of ONE server
// process (which share the message cache and buffer pools). Every request's
// elements are drawn from an alphabet unique to that request, so anything the
// backend sees that does not belong to the request is carry-over.
package main

import (
	"bufio"
	"encoding/json"
	"flag"
	"fmt"
	"os"
	"runtime"
	"strings"
	"sync"
	"time"

	"github.com/hugelgupf/p9/p9"

	"verifharness/peer"
	"verifharness/puppet"
	"verifharness/wirecodec"
)

type vec struct {
	Typ  string  `json:"typ"`
	Hist [][]int `json:"hist"`
}

type out struct {
	Cases    int      `json:"cases"`
	Requests int      `json:"requests"`
	Findings []string `json:"findings"`
	Samples  []any    `json:"samples"`
}

type world struct {
	t     *wirecodec.Table
	auto  *puppet.Auto
	conns []*peer.Raw
	tag   uint16
	mu    sync.Mutex
	calls []*puppet.Call
	lazy  bool
	fill  byte
	seq   int
}

func (w *world) rpc(c int, name string, v wirecodec.Values) (*wirecodec.Frame, error) {
	w.tag++
	w.conns[c].Send(name, w.tag, v)
	b, ok, to := w.conns[c].FR.Next(5 * time.Second)
	if to || !ok {
		return nil, fmt.Errorf("no reply to %s", name)
	}
	return w.t.Decode(b)
}

func newWorld(t *wirecodec.Table) (*world, error) {
	w := &world{t: t, auto: puppet.NewAuto()}
	w.auto.Answer = func(c *puppet.Call) (puppet.Result, bool) {
		w.mu.Lock()
		w.calls = append(w.calls, c)
		lazy, fill := w.lazy, w.fill
		w.mu.Unlock()
		if c.K == "ReadAt" {
			if !lazy {
				for i := range c.Buf {
					c.Buf[i] = fill
				}
			}
			return puppet.Result{Res: "ok", N: len(c.Buf)}, true
		}
		return puppet.Result{}, false
	}
	srv := p9.NewServer(&puppet.Attacher{C: w.auto.C})
	nouid := uint64(0xFFFFFFFF)
	for c := 0; c < 2; c++ {
		raw := peer.NewRaw(t)
		r, wr := raw.ServerEnds()
		go srv.Handle(r, wr)
		w.conns = append(w.conns, raw)
		for _, st := range []struct {
			n string
			v wirecodec.Values
		}{
			{"Tversion", wirecodec.Values{"msize": 65536, "version": "9P2000.L.Google.7"}},
			{"Tattach", wirecodec.Values{"fid": 1, "afid": nouid, "uname": "", "aname": "", "n_uname": nouid}},
			{"Twalk", wirecodec.Values{"fid": 1, "newfid": 2, "names": []string{"d"}}},
			{"Twalk", wirecodec.Values{"fid": 1, "newfid": 3, "names": []string{"f1"}}},
			{"Tlopen", wirecodec.Values{"fid": 3, "flags": 2}},
		} {
			if f, err := w.rpc(c, st.n, st.v); err != nil || f.Name == "Rlerror" {
				return nil, fmt.Errorf("setup %s failed", st.n)
			}
		}
	}
	return w, nil
}

func (w *world) take() []*puppet.Call {
	w.mu.Lock()
	defer w.mu.Unlock()
	c := w.calls
	w.calls = nil
	return c
}

func run(w *world, v *vec, o *out) {
	o.Cases++
	for i, h := range v.Hist {
		c, n := h[0]-1, h[1]
		w.seq++
		o.Requests++
		id := fmt.Sprintf("q%d", w.seq)
		items := make([]string, n)
		for j := range items {
			items[j] = fmt.Sprintf("%s_%d", id, j)
		}
		desc := fmt.Sprintf("%s history %v, message %d (connection %d, %d elements)", v.Typ, v.Hist, i+1, c+1, n)
		w.take()
		newfid := 100 + w.seq%50
		switch v.Typ {
		case "Twalk", "Twalkgetattr":
			f, err := w.rpc(c, v.Typ, wirecodec.Values{"fid": 2, "newfid": newfid, "names": items})
			if err != nil || f.Name == "Rlerror" {
				o.Findings = append(o.Findings, fmt.Sprintf("%s: request failed (%v)", desc, f))
				return
			}
			var seen []string
			for _, cl := range w.take() {
				if cl.K == "Walk" {
					seen = append(seen, cl.Names...)
				}
			}
			if strings.Join(seen, ",") != strings.Join(items, ",") {
				o.Findings = append(o.Findings, fmt.Sprintf("%s: the backend walked %q, the frame carries %q (elements of an earlier message)", desc, seen, items))
				return
			}
			if nq := len(f.V["qids"].([]wirecodec.Values)); nq != n {
				o.Findings = append(o.Findings, fmt.Sprintf("%s: reply carries %d QIDs for %d names", desc, nq, n))
				return
			}
			w.rpc(c, "Tclunk", wirecodec.Values{"fid": newfid})
		case "Twrite":
			data := []byte(strings.Repeat(id[len(id)-1:], n))
			f, err := w.rpc(c, "Twrite", wirecodec.Values{"fid": 3, "offset": w.seq, "data": data})
			if err != nil || f.Name != "Rwrite" {
				o.Findings = append(o.Findings, fmt.Sprintf("%s: request failed (%v)", desc, f))
				return
			}
			for _, cl := range w.take() {
				if cl.K == "WriteAt" {
					if got := cl.Args["data"].([]byte); string(got) != string(data) {
						o.Findings = append(o.Findings, fmt.Sprintf("%s: the backend was given %q, the frame carries %q", desc, got, data))
						return
					}
				}
			}
		case "Tlcreate":
			name := "f" + strings.Repeat("n", n) + id
			f, err := w.rpc(c, "Twalk", wirecodec.Values{"fid": 2, "newfid": newfid, "names": []string{}})
			if err != nil || f.Name == "Rlerror" {
				o.Findings = append(o.Findings, desc+": clone failed")
				return
			}
			w.take()
			f, err = w.rpc(c, "Tlcreate", wirecodec.Values{"fid": newfid, "name": name, "flags": 1, "mode": 0o644, "gid": 0})
			if err != nil || f.Name != "Rlcreate" {
				o.Findings = append(o.Findings, fmt.Sprintf("%s: request failed (%v)", desc, f))
				return
			}
			for _, cl := range w.take() {
				if cl.K == "Create" && cl.Args["name"].(string) != name {
					o.Findings = append(o.Findings, fmt.Sprintf("%s: the backend was given name %q, the frame carries %q", desc, cl.Args["name"], name))
					return
				}
			}
			w.rpc(c, "Tclunk", wirecodec.Values{"fid": newfid})
		case "Tsetattr":
			// bit sets and scalars: every flag and value the backend is given is the frame's own (a flag that is only
			// assigned under a condition keeps what an earlier message left in the recycled object)
			bits := [][]string{0: {}, 1: {"size"}, 2: {"atime", "mtime"}, 3: {"mode", "uid", "gid", "size", "atime", "mtime", "ctime", "atime_set", "mtime_set"}}[n]
			q := uint64(w.seq)
			attr := wirecodec.Values{"mode": q % 0o777, "uid": 1000 + q, "gid": 2000 + q, "size": 3 * q, "atime_sec": 10 + q, "atime_nsec": 20 + q, "mtime_sec": 30 + q, "mtime_nsec": 40 + q}
			f, err := w.rpc(c, "Tsetattr", wirecodec.Values{"fid": 3, "valid": bits, "attr": attr})
			if err != nil || f.Name != "Rsetattr" {
				o.Findings = append(o.Findings, fmt.Sprintf("%s: request failed (%v)", desc, f))
				return
			}
			has := func(b string) bool {
				for _, x := range bits {
					if x == b {
						return true
					}
				}
				return false
			}
			wantMask := p9.SetAttrMask{Permissions: has("mode"), UID: has("uid"), GID: has("gid"), Size: has("size"), ATime: has("atime"), MTime: has("mtime"),
				CTime: has("ctime"), ATimeNotSystemTime: has("atime_set"), MTimeNotSystemTime: has("mtime_set")}
			wantAttr := p9.SetAttr{Permissions: p9.FileMode(q % 0o777), UID: p9.UID(1000 + q), GID: p9.GID(2000 + q), Size: 3 * q,
				ATimeSeconds: 10 + q, ATimeNanoSeconds: 20 + q, MTimeSeconds: 30 + q, MTimeNanoSeconds: 40 + q}
			nseen := 0
			for _, cl := range w.take() {
				if cl.K != "SetAttr" {
					continue
				}
				nseen++
				if got := cl.Args["valid"].(p9.SetAttrMask); got != wantMask {
					o.Findings = append(o.Findings, fmt.Sprintf("%s: the backend was given the mask %+v, the frame carries %v", desc, got, bits))
					return
				}
				if got := cl.Args["attr"].(p9.SetAttr); got != wantAttr {
					o.Findings = append(o.Findings, fmt.Sprintf("%s: the backend was given %+v, the frame carries %+v", desc, got, wantAttr))
					return
				}
			}
			if nseen != 1 {
				o.Findings = append(o.Findings, fmt.Sprintf("%s: %d SetAttr calls reached the backend", desc, nseen))
				return
			}
		case "Tread":
			// the reply's data must be what the backend produced for THIS request; a backend that
			// returns n without writing exposes a buffer that was not cleared
			w.mu.Lock()
			w.lazy = i%2 == 1
			w.fill = byte('A' + w.seq%26)
			fill, lazy := w.fill, w.lazy
			w.mu.Unlock()
			f, err := w.rpc(c, "Tread", wirecodec.Values{"fid": 3, "offset": 0, "count": n * 7})
			if err != nil || f.Name != "Rread" {
				o.Findings = append(o.Findings, fmt.Sprintf("%s: request failed (%v)", desc, f))
				return
			}
			d := f.V["data"].([]byte)
			if len(d) != n*7 {
				o.Findings = append(o.Findings, fmt.Sprintf("%s: Rread carries %d bytes, the backend produced %d", desc, len(d), n*7))
				return
			}
			for _, x := range d {
				want := fill
				if lazy {
					want = 0
				}
				if x != want {
					o.Findings = append(o.Findings, fmt.Sprintf("%s: Rread carries byte %#x, expected %#x (bytes of an earlier reply in a recycled buffer)", desc, x, want))
					return
				}
			}
		}
	}
	if len(o.Samples) < 2 {
		o.Samples = append(o.Samples, v)
	}
}

// ---- replies decoded by the p9 client (Rreaddir, Rwalk, Rread, Rxattrlist, Rreadlink)

// cworld: two p9 clients on two connections to one server over the scripted backend.
type cworld struct {
	auto  *puppet.Auto
	mu    sync.Mutex
	next  puppet.Result // the answer to the next backend call of kind `kind`
	kind  string
	fill  byte
	dirs  [2]p9.File
	files [2]p9.File
	links [2]p9.File
	seq   int
	walkI int
}

func newCWorld() (*cworld, error) {
	w := &cworld{auto: puppet.NewAuto()}
	w.auto.Answer = func(c *puppet.Call) (puppet.Result, bool) {
		w.mu.Lock()
		defer w.mu.Unlock()
		if c.K != w.kind {
			return puppet.Result{}, false
		}
		if c.K == "ReadAt" {
			for i := range c.Buf {
				c.Buf[i] = w.fill
			}
			return puppet.Result{Res: "ok", N: len(c.Buf)}, true
		}
		r := w.next
		if c.K == "Walk" {
			// the server walks a multi-component path one name at a time
			r.NF = w.auto.C.AutoID()
			r.Mode = "dir"
			if q, ok := r.Vals["qids"].([]p9.QID); ok {
				k := len(c.Names)
				if w.walkI+k > len(q) {
					return puppet.Result{Res: "EIO"}, true
				}
				r.Vals = map[string]any{"qids": append([]p9.QID{}, q[w.walkI:w.walkI+k]...)}
				w.walkI += k
			}
		}
		return r, true
	}
	srv := p9.NewServer(&puppet.Attacher{C: w.auto.C})
	for c := 0; c < 2; c++ {
		a, b := peer.NewDuplexPair()
		go srv.Handle(b, b)
		cl, err := p9.NewClient(a)
		if err != nil {
			return nil, err
		}
		root, err := cl.Attach("")
		if err != nil {
			return nil, err
		}
		_, d, err := root.Walk([]string{"d"})
		if err != nil {
			return nil, err
		}
		if _, _, err := d.Open(p9.ReadOnly); err != nil {
			return nil, err
		}
		_, f, err := root.Walk([]string{"f1"})
		if err != nil {
			return nil, err
		}
		if _, _, err := f.Open(p9.ReadWrite); err != nil {
			return nil, err
		}
		_, l, err := root.Walk([]string{"l1"})
		if err != nil {
			return nil, err
		}
		w.dirs[c], w.files[c], w.links[c] = d, f, l
	}
	return w, nil
}

// runClient: the history's messages are replies the client decodes; what each call returned must be the content
// of its own reply when it returns AND in every later state (MsgCache.tla NoCarryOver is a state invariant over
// everything handed out so far): all earlier results are compared again after every later message.
func runClient(w *cworld, v *vec, o *out) {
	o.Cases++
	type handed struct {
		desc string
		got  func() string
		want string
	}
	var all []handed
	for i, h := range v.Hist {
		c, n := h[0]-1, h[1]
		w.seq++
		o.Requests++
		id := fmt.Sprintf("r%d", w.seq)
		desc := fmt.Sprintf("%s history %v, message %d (connection %d, %d elements)", v.Typ, v.Hist, i+1, c+1, n)
		var hd handed
		hd.desc = desc
		switch v.Typ {
		case "Rreaddir":
			ents := make(p9.Dirents, n)
			for j := range ents {
				ents[j] = p9.Dirent{QID: p9.QID{Type: p9.TypeRegular, Path: uint64(w.seq*100 + j)}, Offset: uint64(j + 1), Type: p9.TypeRegular, Name: fmt.Sprintf("%s_%d", id, j)}
			}
			w.mu.Lock()
			w.kind, w.next = "Readdir", puppet.Result{Res: "ok", Vals: map[string]any{"entries": append(p9.Dirents{}, ents...)}}
			w.mu.Unlock()
			got, err := w.dirs[c].Readdir(0, 8192)
			if err != nil {
				o.Findings = append(o.Findings, fmt.Sprintf("%s: %v", desc, err))
				return
			}
			hd.want = fmt.Sprint(ents)
			hd.got = func() string { return fmt.Sprint(got) }
			if n == 0 {
				hd.want = fmt.Sprint(p9.Dirents{})
				hd.got = func() string { return fmt.Sprint(append(p9.Dirents{}, got...)) }
			}
		case "Rwalk":
			names := make([]string, n)
			qids := make([]p9.QID, n)
			for j := range names {
				names[j] = fmt.Sprintf("%s_%d", id, j)
				qids[j] = p9.QID{Type: p9.TypeDir, Version: uint32(j), Path: uint64(w.seq*100 + j)}
			}
			w.mu.Lock()
			w.kind, w.next, w.walkI = "Walk", puppet.Result{Res: "ok"}, 0
			if n > 0 {
				w.next.Vals = map[string]any{"qids": append([]p9.QID{}, qids...)}
			}
			w.mu.Unlock()
			got, nf, err := w.dirs[c].Walk(names)
			if err != nil {
				o.Findings = append(o.Findings, fmt.Sprintf("%s: %v", desc, err))
				return
			}
			defer nf.Close()
			if n == 0 {
				// a clone: one QID (the file's own) or none, by the protocol version; not compared
				hd.want, hd.got = "", func() string { return "" }
			} else {
				hd.want = fmt.Sprint(qids)
				hd.got = func() string { return fmt.Sprint(got) }
			}
		case "Rread":
			w.mu.Lock()
			w.kind, w.fill = "ReadAt", byte('A'+w.seq%26)
			fill := w.fill
			w.mu.Unlock()
			buf := make([]byte, n*7)
			k, err := w.files[c].ReadAt(buf, 0)
			if n > 0 && (err != nil || k != len(buf)) {
				o.Findings = append(o.Findings, fmt.Sprintf("%s: n = %d, err = %v", desc, k, err))
				return
			}
			hd.want = strings.Repeat(string(fill), n*7)
			hd.got = func() string { return string(buf) }
		case "Rxattrlist":
			names := make([]string, n)
			for j := range names {
				names[j] = fmt.Sprintf("user.%s_%d", id, j)
			}
			w.mu.Lock()
			w.kind, w.next = "ListXattrs", puppet.Result{Res: "ok", Vals: map[string]any{"names": append([]string{}, names...)}}
			w.mu.Unlock()
			got, err := w.files[c].ListXattrs()
			if err != nil {
				o.Findings = append(o.Findings, fmt.Sprintf("%s: %v", desc, err))
				return
			}
			hd.want = strings.Join(names, "|")
			hd.got = func() string { return strings.Join(got, "|") }
		case "Rreadlink":
			tgt := strings.Repeat("t", n) + id
			w.mu.Lock()
			w.kind, w.next = "Readlink", puppet.Result{Res: "ok", Vals: map[string]any{"target": tgt}}
			w.mu.Unlock()
			got, err := w.links[c].Readlink()
			if err != nil {
				o.Findings = append(o.Findings, fmt.Sprintf("%s: %v", desc, err))
				return
			}
			hd.want = tgt
			hd.got = func() string { return got }
		default:
			o.Findings = append(o.Findings, "unknown type "+v.Typ)
			return
		}
		if g := hd.got(); g != hd.want {
			o.Findings = append(o.Findings, fmt.Sprintf("%s: the caller received %.200q, the reply's own content is %.200q", desc, g, hd.want))
			return
		}
		all = append(all, hd)
		for k, e := range all[:len(all)-1] {
			if g := e.got(); g != e.want {
				o.Findings = append(o.Findings, fmt.Sprintf("%s - what this call returned was %.200q; after message %d of the history it reads %.200q (a later reply was decoded into storage the caller still holds)", e.desc, e.want, i+1, g))
				_ = k
				return
			}
		}
	}
	if len(o.Samples) < 3 {
		o.Samples = append(o.Samples, v)
	}
}

// shortFrames: after a complete message with recognisable content on one connection, the other
// connection sends frames of the same type whose body is cut short (every length from the fixed
// part to one byte before the end).  The decoder must not complete them from bytes an earlier
// message left in a recycled buffer (MsgCache.tla: a message's content is a function of its own
// frame): each is answered Rlerror and the backend sees nothing of it.
func shortFrames(w *world, o *out) {
	secret := "earlier-message-name-0123456789"
	type tc struct {
		typ   string
		vals  wirecodec.Values
		fixed int
	}
	cases := []tc{
		{"Twalk", wirecodec.Values{"fid": 2, "newfid": 140, "names": []string{secret}}, 10},
		{"Tlcreate", wirecodec.Values{"fid": 141, "name": "f" + secret, "flags": 1, "mode": 0o644, "gid": 0}, 4},
		{"Twrite", wirecodec.Values{"fid": 3, "offset": 7, "data": []byte(secret)}, 16},
		{"Tmkdir", wirecodec.Values{"dfid": 2, "name": "d" + secret, "mode": 0o755, "gid": 0}, 4},
	}
	for _, c := range cases {
		// the complete message, on connection 0
		if c.typ == "Tlcreate" {
			w.rpc(0, "Twalk", wirecodec.Values{"fid": 2, "newfid": 141, "names": []string{}})
		}
		if f, err := w.rpc(0, c.typ, c.vals); err != nil || f.Name == "Rlerror" {
			o.Findings = append(o.Findings, fmt.Sprintf("short frames: the complete %s failed (%v)", c.typ, f))
			return
		}
		w.rpc(0, "Tclunk", wirecodec.Values{"fid": 140})
		w.rpc(0, "Tclunk", wirecodec.Values{"fid": 141})
		w.take()
		body := w.t.EncodeBody(c.typ, c.vals)
		for k := c.fixed; k < len(body); k++ {
			o.Cases++
			o.Requests++
			w.tag++
			frame := make([]byte, 7, 7+k)
			frame[0], frame[1], frame[2], frame[3] = byte(7+k), byte((7+k)>>8), 0, 0
			frame[4] = w.t.Layout[c.typ].ID
			frame[5], frame[6] = byte(w.tag), byte(w.tag>>8)
			w.conns[1].SendBytes(append(frame, body[:k]...))
			b, ok, to := w.conns[1].FR.Next(5 * time.Second)
			if to || !ok {
				o.Findings = append(o.Findings, fmt.Sprintf("short frames: %s cut to %d of %d body bytes got no reply", c.typ, k, len(body)))
				return
			}
			f, err := w.t.Decode(b)
			calls := w.take()
			var seen []string
			for _, cl := range calls {
				seen = append(seen, fmt.Sprintf("%s%q%v", cl.K, cl.Names, cl.Args["name"]))
			}
			if err != nil || f.Name != "Rlerror" || len(calls) > 0 {
				o.Findings = append(o.Findings, fmt.Sprintf("short frames: %s cut to %d of %d body bytes, sent after a complete %s on another connection: answered %v, backend calls %v; the frame does not carry a complete message and must be rejected without reaching the backend (content taken from an earlier message's buffer?)",
					c.typ, k, len(body), c.typ, f, seen))
				return
			}
		}
	}
}

// gatedWriter is the server's reply transport: while closed, Write blocks (a slow client).
type gatedWriter struct {
	w    interface{ Write([]byte) (int, error) }
	mu   sync.Mutex
	open chan struct{}
}

func (g *gatedWriter) Write(b []byte) (int, error) {
	g.mu.Lock()
	ch := g.open
	g.mu.Unlock()
	<-ch
	return g.w.Write(b)
}
func (g *gatedWriter) Close() error { return nil }
func (g *gatedWriter) stall()       { g.mu.Lock(); g.open = make(chan struct{}); g.mu.Unlock() }
func (g *gatedWriter) release()     { g.mu.Lock(); close(g.open); g.mu.Unlock() }

// inflight forces the schedule of spec/ReadBuf.tla in which every Tread of a batch has been
// handled (buffer taken, filled by the backend, reply queued) before any reply is written:
// the reply transport is stalled, the reads are delivered one after the other, then the
// transport is released.  Every Rread must carry exactly the bytes the backend produced for
// its own request (ReplyIsOwn).  One scheduler thread, so that the buffer pool recycles
// deterministically.
func inflight(t *wirecodec.Table, o *out, batches [][]int) {
	old := runtime.GOMAXPROCS(1)
	defer runtime.GOMAXPROCS(old)
	auto := puppet.NewAuto()
	defer auto.Stop()
	var mu sync.Mutex
	answered := 0
	auto.Answer = func(c *puppet.Call) (puppet.Result, bool) {
		if c.K != "ReadAt" {
			return puppet.Result{}, false
		}
		off := c.Args["offset"].(int64)
		for i := range c.Buf {
			c.Buf[i] = byte(off>>12) + 1
		}
		mu.Lock()
		answered++
		mu.Unlock()
		return puppet.Result{Res: "ok", N: len(c.Buf)}, true
	}
	srv := p9.NewServer(&puppet.Attacher{C: auto.C})
	raw := peer.NewRaw(t)
	r, wr := raw.ServerEnds()
	gw := &gatedWriter{w: wr, open: make(chan struct{})}
	gw.release()
	go srv.Handle(r, gw)
	nouid := uint64(0xFFFFFFFF)
	tag := uint16(0)
	rpc := func(name string, v wirecodec.Values) bool {
		tag++
		raw.Send(name, tag, v)
		b, ok, to := raw.FR.Next(5 * time.Second)
		if to || !ok {
			return false
		}
		f, err := t.Decode(b)
		return err == nil && f.Name != "Rlerror"
	}
	if !rpc("Tversion", wirecodec.Values{"msize": 65536, "version": "9P2000.L.Google.7"}) ||
		!rpc("Tattach", wirecodec.Values{"fid": 1, "afid": nouid, "uname": "", "aname": "", "n_uname": nouid}) ||
		!rpc("Twalk", wirecodec.Values{"fid": 1, "newfid": 3, "names": []string{"f1"}}) ||
		!rpc("Tlopen", wirecodec.Values{"fid": 3, "flags": 2}) {
		o.Findings = append(o.Findings, "in-flight reads: setup failed")
		return
	}
	for bi, lens := range batches {
		o.Cases++
		gw.stall()
		want := map[uint16][]byte{}
		for i, n := range lens {
			tag++
			off := int64(bi*16+i+1) << 12
			want[tag] = make([]byte, n)
			for k := range want[tag] {
				want[tag][k] = byte(off>>12) + 1
			}
			mu.Lock()
			before := answered
			mu.Unlock()
			raw.Send("Tread", tag, wirecodec.Values{"fid": 3, "offset": uint64(off), "count": n})
			o.Requests++
			// wait until the backend has produced this request's bytes and the handler had time to return
			for d := time.Now().Add(3 * time.Second); time.Now().Before(d); {
				mu.Lock()
				a := answered
				mu.Unlock()
				if a > before || n == 0 {
					break
				}
				time.Sleep(200 * time.Microsecond)
			}
			time.Sleep(2 * time.Millisecond)
		}
		gw.release()
		for range lens {
			b, ok, to := raw.FR.Next(5 * time.Second)
			if to || !ok {
				o.Findings = append(o.Findings, fmt.Sprintf("in-flight reads %v: a reply is missing", lens))
				return
			}
			f, err := t.Decode(b)
			if err != nil || f.Name != "Rread" {
				o.Findings = append(o.Findings, fmt.Sprintf("in-flight reads %v: unexpected reply %v %v", lens, f, err))
				return
			}
			got, _ := f.V["data"].([]byte)
			if string(got) != string(want[f.Tag]) {
				o.Findings = append(o.Findings, fmt.Sprintf("in-flight reads with lengths %v, all handled before any reply was written: the Rread of tag %d carries %d bytes starting %x, the backend produced %d bytes of %x for it (ReadBuf.tla ReplyIsOwn)",
					lens, f.Tag, len(got), head(got), len(want[f.Tag]), head(want[f.Tag])))
				return
			}
		}
	}
}

func head(b []byte) []byte {
	if len(b) > 4 {
		return b[:4]
	}
	return b
}

func main() {
	in := flag.String("in", "", "")
	outp := flag.String("out", "", "")
	shard := flag.Int("shard", 0, "")
	nshard := flag.Int("nshard", 1, "")
	flag.Parse()
	f, err := os.Open(*in)
	if err != nil {
		fmt.Fprintln(os.Stderr, err)
		os.Exit(2)
	}
	t := wirecodec.MustLoad()
	o := &out{}
	w, err := newWorld(t)
	if err != nil {
		fmt.Fprintln(os.Stderr, err)
		os.Exit(2)
	}
	var cw *cworld
	sc := bufio.NewScanner(f)
	sc.Buffer(make([]byte, 1<<20), 16<<20)
	i := 0
	for sc.Scan() {
		i++
		if (i-1)%*nshard != *shard {
			continue
		}
		b := sc.Bytes()
		if len(b) > 0 && b[0] == '"' {
			var s string
			json.Unmarshal(b, &s)
			b = []byte(s)
		}
		var v vec
		if err := json.Unmarshal(b, &v); err != nil {
			o.Findings = append(o.Findings, "bad vector: "+err.Error())
			continue
		}
		if strings.HasPrefix(v.Typ, "R") {
			if cw == nil {
				if cw, err = newCWorld(); err != nil {
					fmt.Fprintln(os.Stderr, "client world:", err)
					os.Exit(2)
				}
			}
			runClient(cw, &v, o)
		} else {
			run(w, &v, o)
		}
		if len(o.Findings) > 25 {
			break
		}
	}
	if *shard == 1%*nshard {
		shortFrames(w, o)
	}
	if *shard == 0 {
		inflight(t, o, [][]int{{100, 100}, {4096, 10, 4096}, {10, 4096, 10, 0, 7}, {1, 1, 1, 1}, {60000, 60000}, {3, 60000, 3}})
	}
	b, _ := json.Marshal(o)
	if *outp == "" {
		os.Stdout.Write(b)
	} else {
		os.WriteFile(*outp, b, 0o644)
	}
}
