// Command isoreplay replays several Session.tla histories concurrently, as
// independent clients with disjoint fids, names and subtrees, against ONE real
// p9.Server (several clients per connection, several connections). Every
// client must observe exactly what its own history predicts (C16 isolation),
// every request must be answered, and at teardown every File must have been
// closed once.
package main

import (
	"bufio"
	"encoding/json"
	"flag"
	"fmt"
	"math/rand"
	"os"
	"sync"
	"time"

	"verifharness/replay"
	"verifharness/wirecodec"
)

type finding struct {
	Round    int                `json:"round"`
	Client   int                `json:"client"`
	Mismatch *replay.Mismatch   `json:"mismatch"`
	History  json.RawMessage    `json:"history,omitempty"`
	Others   []json.RawMessage  `json:"concurrent_histories,omitempty"`
}

type summary struct {
	Rounds   int       `json:"rounds"`
	Clients  int       `json:"clients"`
	Steps    int       `json:"steps"`
	Agreed   int       `json:"agreed_clients"`
	Findings []finding `json:"findings"`
	Sample   any       `json:"sample"`
	WallS    float64   `json:"wall_s"`
}

func main() {
	in := flag.String("in", "", "ndjson histories")
	out := flag.String("out", "", "summary json")
	rounds := flag.Int("rounds", 20, "")
	nclients := flag.Int("clients", 8, "clients per round")
	nconn := flag.Int("conns", 3, "connections per round")
	seed := flag.Int64("seed", 1, "")
	timeout := flag.Duration("timeout", 5*time.Second, "")
	perturb := flag.Duration("perturb", 150*time.Microsecond, "max delay injected into backend calls")
	flag.Parse()
	opt := replay.Options{Table: wirecodec.MustLoad(), Timeout: *timeout, Perturb: *perturb}
	f, err := os.Open(*in)
	if err != nil {
		fmt.Fprintln(os.Stderr, err)
		os.Exit(2)
	}
	var lines [][]byte
	sc := bufio.NewScanner(f)
	sc.Buffer(make([]byte, 1<<20), 256<<20)
	for sc.Scan() {
		lines = append(lines, append([]byte{}, sc.Bytes()...))
	}
	f.Close()
	if len(lines) == 0 {
		fmt.Fprintln(os.Stderr, "no histories")
		os.Exit(2)
	}
	rng := rand.New(rand.NewSource(*seed))
	sum := &summary{}
	start := time.Now()
	for round := 0; round < *rounds; round++ {
		k := 2 + rng.Intn(*nclients-1)
		nc := 1 + rng.Intn(*nconn)
		sh, err := replay.NewShared(opt, nc)
		if err != nil {
			fmt.Fprintln(os.Stderr, err)
			os.Exit(2)
		}
		hists := make([]*replay.History, k)
		raws := make([]json.RawMessage, k)
		for c := 0; c < k; c++ {
			raw := lines[rng.Intn(len(lines))]
			h, err := replay.ParseLine(raw)
			if err != nil {
				fmt.Fprintln(os.Stderr, err)
				os.Exit(2)
			}
			hists[c] = replay.Relabel(h, c+1)
			raws[c] = inner(raw)
		}
		res := make([][]*replay.Mismatch, k)
		var wg sync.WaitGroup
		for c := 0; c < k; c++ {
			wg.Add(1)
			go func(c int) {
				defer wg.Done()
				res[c] = sh.RunClient(c+1, c, hists[c])
			}(c)
		}
		wg.Wait()
		td := sh.Teardown()
		sum.Rounds++
		sum.Clients += k
		for c := 0; c < k; c++ {
			sum.Steps += len(hists[c].H) + len(hists[c].P)
			if len(res[c]) == 0 {
				sum.Agreed++
			}
			for _, m := range res[c] {
				if len(sum.Findings) < 10 {
					sum.Findings = append(sum.Findings, finding{Round: round, Client: c + 1, Mismatch: m, History: raws[c]})
				}
			}
		}
		anyClient := false
		for c := 0; c < k; c++ {
			if len(res[c]) > 0 {
				anyClient = true
			}
		}
		if !anyClient {
			for _, m := range td {
				if len(sum.Findings) < 10 {
					sum.Findings = append(sum.Findings, finding{Round: round, Client: 0, Mismatch: m, Others: raws})
				}
			}
		}
		if len(sh.Stray) > 0 && len(sum.Findings) < 10 {
			sum.Findings = append(sum.Findings, finding{Round: round, Mismatch: &replay.Mismatch{Tag: "stray-call", Prop: "C16", Detail: sh.Stray[0]}})
		}
		if round == 0 {
			sum.Sample = map[string]any{"clients": k, "connections": nc, "first_client_history": raws[0]}
		}
		if len(sum.Findings) >= 10 {
			break
		}
	}
	sum.WallS = time.Since(start).Seconds()
	b, _ := json.MarshalIndent(sum, "", " ")
	if *out == "" {
		os.Stdout.Write(b)
	} else if err := os.WriteFile(*out, b, 0o644); err != nil {
		fmt.Fprintln(os.Stderr, err)
		os.Exit(2)
	}
}

func inner(raw []byte) json.RawMessage {
	if len(raw) > 0 && raw[0] == '"' {
		var s string
		if json.Unmarshal(raw, &s) == nil {
			return json.RawMessage(s)
		}
	}
	return json.RawMessage(raw)
}
