// Command fidsched replays the histories TLC enumerates from spec/FidPool.tla
// against a real p9.Client talking to a scripted server: every step is one
// File operation (walk = clone of the root, attach, close, remove) whose
// request is served, refused, lost (the client's write fails) or served but
// answered with a frame the client cannot accept.  Compared per step: the fid
// number the request carries with the specification's pool (LIFO over
// returned numbers, else the next fresh one), whether the call failed, and -
// independently of the specification - whether a request that binds a new fid
// names one the scripted server still has bound.
package main

import (
	"bufio"
	"encoding/json"
	"errors"
	"flag"
	"fmt"
	"os"
	"runtime"
	"sync"
	"time"

	"github.com/hugelgupf/p9/p9"

	"verifharness/peer"
	"verifharness/wirecodec"
)

type step struct {
	Op  string `json:"op"`
	Fid uint64 `json:"fid"`
	Out string `json:"out"`
}

type vec struct {
	Hist   []step `json:"hist"`
	Reused bool   `json:"reused"`
}

type finding struct {
	Hist   []step `json:"hist"`
	Step   int    `json:"step"`
	Detail string `json:"detail"`
	Reuse  bool   `json:"reuse"` // a bound fid was re-issued (the specification's `reused')
}

type out struct {
	Cases    int       `json:"cases"`
	Steps    int       `json:"steps"`
	Findings []finding `json:"findings"`
	Samples  []any     `json:"samples"`
	// PolicyDiffs counts requests whose fid number differs from the LIFO pool of FidPool.tla
	PolicyDiffs int `json:"policy_diffs"`
	// Unclunked counts xattr operations whose attribute fid was not clunked (not a violation by itself)
	Unclunked int `json:"unclunked"`
}

// conn is the client's transport end; the next write can be made to fail.
type conn struct {
	r, w     *peer.Pipe
	mu       sync.Mutex
	failNext bool
}

func (c *conn) Read(b []byte) (int, error) { return c.r.Read(b) }
func (c *conn) Write(b []byte) (int, error) {
	c.mu.Lock()
	f := c.failNext
	c.failNext = false
	c.mu.Unlock()
	if f {
		return 0, errors.New("fidsched: write failed")
	}
	return c.w.Write(b)
}
func (c *conn) Close() error { c.r.CloseRead(); c.w.CloseWrite(); return nil }

func run(t *wirecodec.Table, v *vec, o *out) {
	o.Cases++
	toSrv, toCli := peer.NewPipe(), peer.NewPipe()
	cc := &conn{r: toCli, w: toSrv}
	fr := peer.NewFrameReader(peer.ReadEnd{P: toSrv})
	// the scripted server: answers one request according to `mode', records what it saw
	var mu sync.Mutex
	mode := "ok"
	xsize := uint64(0)
	bound := map[uint64]bool{}
	type seen struct {
		name string
		fid  uint64
		re   bool
	}
	got := make(chan seen, 16)
	go func() {
		for b := range fr.C {
			f, err := t.Decode(b)
			if err != nil {
				continue
			}
			mu.Lock()
			m := mode
			mu.Unlock()
			switch f.Name {
			case "Tversion":
				toCli.Write(t.Encode("Rversion", f.Tag, wirecodec.Values{"msize": wirecodec.U(f.V, "msize"), "version": f.V["version"]}))
				continue
			}
			var s seen
			s.name = f.Name
			reply := ""
			switch f.Name {
			case "Tattach":
				s.fid = wirecodec.U(f.V, "fid")
				reply = "Rattach"
			case "Twalk":
				s.fid = wirecodec.U(f.V, "newfid")
				reply = "Rwalk"
			case "Txattrwalk":
				s.fid = wirecodec.U(f.V, "newfid")
				reply = "Rxattrwalk"
			case "Tread":
				// the value of the attribute, read through the fid Txattrwalk bound
				toCli.Write(t.Encode("Rread", f.Tag, wirecodec.Values{"data": []byte("val")}))
				continue
			case "Tclunk":
				s.fid = wirecodec.U(f.V, "fid")
				reply = "Rclunk"
			case "Tremove":
				s.fid = wirecodec.U(f.V, "fid")
				reply = "Rremove"
			default:
				continue
			}
			mu.Lock()
			binds := f.Name == "Tattach" || f.Name == "Twalk" || f.Name == "Txattrwalk"
			if binds {
				s.re = bound[s.fid]
				if m != "refused" {
					bound[s.fid] = true
				}
			} else {
				delete(bound, s.fid) // clunk and remove unbind whatever they answer
			}
			mu.Unlock()
			switch m {
			case "ok":
				vals := wirecodec.Values{}
				if reply == "Rattach" {
					vals["qid"] = wirecodec.Values{"type": 0x80, "path": 1}
				}
				if reply == "Rxattrwalk" {
					mu.Lock()
					vals["size"] = xsize
					mu.Unlock()
				}
				toCli.Write(t.Encode(reply, f.Tag, vals))
			case "refused":
				toCli.Write(t.Encode("Rlerror", f.Tag, wirecodec.Values{"ecode": 13}))
			case "garbled":
				// a reply nobody waits for: tag outside anything the client has outstanding
				toCli.Write(t.Encode("Rclunk", f.Tag+1000, wirecodec.Values{}))
			}
			got <- s
		}
	}()
	cl, err := p9.NewClient(cc)
	if err != nil {
		o.Findings = append(o.Findings, finding{Hist: v.Hist, Step: -1, Detail: "NewClient: " + err.Error()})
		return
	}
	root, err := cl.Attach("")
	if err != nil {
		o.Findings = append(o.Findings, finding{Hist: v.Hist, Step: -1, Detail: "setup attach: " + err.Error()})
		return
	}
	if s := <-got; s.fid != 1 {
		o.Findings = append(o.Findings, finding{Hist: v.Hist, Step: -1, Detail: fmt.Sprintf("the first fid is %d, FidPool.tla: 1", s.fid)})
		return
	}
	files := map[uint64]p9.File{}
	actual := map[uint64]uint64{} // specification's fid -> the number the client really used, where they differ
	add := func(i int, d string, reuse bool) {
		o.Findings = append(o.Findings, finding{Hist: v.Hist, Step: i, Detail: d, Reuse: reuse})
	}
	for i, st := range v.Hist {
		o.Steps++
		mu.Lock()
		mode = st.Out
		mu.Unlock()
		if st.Out == "lost" {
			cc.mu.Lock()
			cc.failNext = true
			cc.mu.Unlock()
		}
		var f p9.File
		var err error
		switch st.Op {
		case "walk":
			_, f, err = root.Walk(nil)
		case "attach":
			f, err = cl.Attach("")
		case "xattr0", "xattr3":
			mu.Lock()
			xsize = 0
			if st.Op == "xattr3" {
				xsize = 3
			}
			mu.Unlock()
			_, err = root.GetXattr("user.a")
		case "close":
			err = files[st.Fid].Close()
			delete(files, st.Fid)
		case "remove":
			// Remove is not part of the File interface any more; the client's files still have it
			type remover interface{ Remove() error }
			err = files[st.Fid].(remover).Remove()
			delete(files, st.Fid)
		}
		if (st.Out == "ok") != (err == nil) {
			add(i, fmt.Sprintf("%s with outcome %s returned error %v", st.Op, st.Out, err), false)
			return
		}
		if st.Out != "lost" {
			select {
			case s := <-got:
				if st.Op == "close" || st.Op == "remove" {
					want := st.Fid
					if a, ok := actual[st.Fid]; ok {
						want = a
					}
					if s.fid != want {
						add(i, fmt.Sprintf("%s names fid %d, the File was bound to fid %d", s.name, s.fid, want), false)
						return
					}
				} else if s.fid != st.Fid {
					// another allocation policy than the specification's LIFO pool: not a violation of
					// C10 by itself (what matters is the server-side monitor below); counted
					o.PolicyDiffs++
					actual[st.Fid] = s.fid
				}
				if s.re {
					add(i, fmt.Sprintf("%s binds fid %d, which the server still has bound (its clunk was not confirmed / its binding request was not refused)", s.name, s.fid), true)
					return
				}
			case <-time.After(3 * time.Second):
				add(i, fmt.Sprintf("%s: the request never reached the server", st.Op), false)
				return
			}
		} else {
			select {
			case s := <-got:
				add(i, fmt.Sprintf("%s reached the server although the write failed (%v)", st.Op, s), false)
				return
			case <-time.After(2 * time.Millisecond):
			}
		}
		if (st.Op == "xattr0" || st.Op == "xattr3") && st.Out == "ok" {
			// the attribute's fid is clunked before the call returns; the event may trail the reply by an instant
			select {
			case s := <-got:
				if s.name != "Tclunk" {
					add(i, fmt.Sprintf("%s: after Txattrwalk the server saw %s fid %d, FidPool.tla: Tclunk of the attribute's fid", st.Op, s.name, s.fid), false)
					return
				}
			case <-time.After(300 * time.Millisecond):
				// no Tclunk: the server keeps the fid bound; whether its number is handed out again is what the
				// monitor at the next binding request decides
				o.Unclunked++
			}
		}
		if err == nil && f != nil {
			files[st.Fid] = f
		}
	}
	if len(o.Samples) < 2 && len(v.Hist) >= 4 {
		o.Samples = append(o.Samples, v.Hist)
	}
	cc.Close()
}

// tagExhaustion: more calls in flight than there are tags (FidPool.tla TagSpace: 1..0xFFFE).  The scripted
// server answers nothing until every request that can be sent has arrived.  The tags on the wire are
// pairwise distinct and never NOTAG; the calls that found no tag return an error (they do not wait, and they do
// not borrow a tag that is outstanding); then everything is answered and every call returns.
func tagExhaustion(t *wirecodec.Table, o *out) {
	o.Cases++
	const extra = 3
	total := 0xFFFE + extra
	toSrv, toCli := peer.NewPipe(), peer.NewPipe()
	cc := &conn{r: toCli, w: toSrv}
	fr := peer.NewFrameReader(peer.ReadEnd{P: toSrv})
	var mu sync.Mutex
	seenTags := map[uint16]int{}
	var order []uint16
	problems := []string{}
	arrived := make(chan struct{}, 1<<17)
	go func() {
		for b := range fr.C {
			f, err := t.Decode(b)
			if err != nil {
				continue
			}
			switch f.Name {
			case "Tversion":
				toCli.Write(t.Encode("Rversion", f.Tag, wirecodec.Values{"msize": wirecodec.U(f.V, "msize"), "version": f.V["version"]}))
			case "Tattach":
				toCli.Write(t.Encode("Rattach", f.Tag, wirecodec.Values{"qid": wirecodec.Values{"type": 0x80, "path": 1}}))
			case "Tfsync":
				mu.Lock()
				if f.Tag == 0xFFFF && len(problems) < 5 {
					problems = append(problems, "a request was sent with NOTAG (0xFFFF)")
				}
				if seenTags[f.Tag] > 0 && len(problems) < 5 {
					problems = append(problems, fmt.Sprintf("tag %d was given to a second request while the first is outstanding", f.Tag))
				}
				seenTags[f.Tag]++
				order = append(order, f.Tag)
				mu.Unlock()
				arrived <- struct{}{}
			}
		}
	}()
	cl, err := p9.NewClient(cc)
	if err != nil {
		o.Findings = append(o.Findings, finding{Step: -1, Detail: "tag exhaustion: NewClient: " + err.Error()})
		return
	}
	root, err := cl.Attach("")
	if err != nil {
		o.Findings = append(o.Findings, finding{Step: -1, Detail: "tag exhaustion: attach: " + err.Error()})
		return
	}
	results := make(chan error, total)
	for i := 0; i < total; i++ {
		go func() { results <- root.FSync() }()
	}
	// all requests that found a tag arrive; the others return an error
	nArrived, nErr := 0, 0
	deadline := time.After(60 * time.Second)
collect:
	for nArrived+nErr < total {
		select {
		case <-arrived:
			nArrived++
		case e := <-results:
			if e == nil {
				problems = append(problems, "a call returned success before anything was answered")
			}
			nErr++
		case <-deadline:
			problems = append(problems, fmt.Sprintf("after 60 s: %d requests on the wire, %d calls returned, %d calls neither sent nor returned", nArrived, nErr, total-nArrived-nErr))
			break collect
		}
	}
	mu.Lock()
	if nArrived > 0xFFFE && len(problems) < 5 {
		problems = append(problems, fmt.Sprintf("%d requests are outstanding at once; there are only %d tags", nArrived, 0xFFFE))
	}
	toAnswer := append([]uint16{}, order...)
	mu.Unlock()
	// answer a thousand of them (newest first), then end the connection: every call returns
	for i := len(toAnswer) - 1; i >= 0 && i >= len(toAnswer)-1000; i-- {
		toCli.Write(t.Encode("Rfsync", toAnswer[i], wirecodec.Values{}))
	}
	time.Sleep(50 * time.Millisecond)
	toCli.CloseWrite()
	back := nErr
	dl2 := time.After(60 * time.Second)
wait2:
	for back < total {
		select {
		case <-results:
			back++
		case <-dl2:
			problems = append(problems, fmt.Sprintf("%d of %d calls never returned although their requests were answered or the connection ended", total-back, total))
			break wait2
		}
	}
	for _, p := range problems {
		o.Findings = append(o.Findings, finding{Step: -1, Detail: fmt.Sprintf("tag exhaustion (%d concurrent calls): %s", total, p)})
	}
	runtime.KeepAlive(root)
	cc.Close()
}

func main() {
	in := flag.String("in", "", "")
	outp := flag.String("out", "", "")
	shard := flag.Int("shard", 0, "")
	nshard := flag.Int("nshard", 1, "")
	flag.Parse()
	f, err := os.Open(*in)
	if err != nil {
		fmt.Fprintln(os.Stderr, err)
		os.Exit(2)
	}
	t := wirecodec.MustLoad()
	o := &out{}
	if *shard == 0 {
		tagExhaustion(t, o)
	}
	sc := bufio.NewScanner(f)
	sc.Buffer(make([]byte, 1<<20), 16<<20)
	i := 0
	for sc.Scan() {
		i++
		if (i-1)%*nshard != *shard {
			continue
		}
		b := sc.Bytes()
		if len(b) > 0 && b[0] == '"' {
			var s string
			json.Unmarshal(b, &s)
			b = []byte(s)
		}
		var v vec
		if err := json.Unmarshal(b, &v); err != nil {
			o.Findings = append(o.Findings, finding{Step: -1, Detail: "bad vector: " + err.Error()})
			continue
		}
		run(t, &v, o)
		if len(o.Findings) > 200 {
			break
		}
	}
	b, _ := json.Marshal(o)
	if *outp == "" {
		os.Stdout.Write(b)
	} else {
		os.WriteFile(*outp, b, 0o644)
	}
}
