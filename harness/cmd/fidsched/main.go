// Command fidsched replays the histories TLC enumerates from spec/FidPool.tla
// against a real p9.Client talking to a scripted server: every step is one
// File operation (walk = clone of the root, attach, close, remove) whose
// request is served, refused, lost (the client's write fails) or served but
// answered with a frame the client cannot accept.  Compared per step: the fid
// number the request carries with the specification's pool (LIFO over
// returned numbers, else the next fresh one), whether the call failed, and -
// independently of the specification - whether a request that binds a new fid
// names one the scripted server still has bound.
package main

import (
	"bufio"
	"encoding/json"
	"errors"
	"flag"
	"fmt"
	"os"
	"sync"
	"time"

	"github.com/hugelgupf/p9/p9"

	"verifharness/peer"
	"verifharness/wirecodec"
)

type step struct {
	Op  string `json:"op"`
	Fid uint64 `json:"fid"`
	Out string `json:"out"`
}

type vec struct {
	Hist   []step `json:"hist"`
	Reused bool   `json:"reused"`
}

type finding struct {
	Hist   []step `json:"hist"`
	Step   int    `json:"step"`
	Detail string `json:"detail"`
	Reuse  bool   `json:"reuse"` // a bound fid was re-issued (the specification's `reused')
}

type out struct {
	Cases    int       `json:"cases"`
	Steps    int       `json:"steps"`
	Findings []finding `json:"findings"`
	Samples  []any     `json:"samples"`
	// PolicyDiffs counts requests whose fid number differs from the LIFO pool of FidPool.tla
	PolicyDiffs int `json:"policy_diffs"`
}

// conn is the client's transport end; the next write can be made to fail.
type conn struct {
	r, w     *peer.Pipe
	mu       sync.Mutex
	failNext bool
}

func (c *conn) Read(b []byte) (int, error) { return c.r.Read(b) }
func (c *conn) Write(b []byte) (int, error) {
	c.mu.Lock()
	f := c.failNext
	c.failNext = false
	c.mu.Unlock()
	if f {
		return 0, errors.New("fidsched: write failed")
	}
	return c.w.Write(b)
}
func (c *conn) Close() error { c.r.CloseRead(); c.w.CloseWrite(); return nil }

func run(t *wirecodec.Table, v *vec, o *out) {
	o.Cases++
	toSrv, toCli := peer.NewPipe(), peer.NewPipe()
	cc := &conn{r: toCli, w: toSrv}
	fr := peer.NewFrameReader(peer.ReadEnd{P: toSrv})
	// the scripted server: answers one request according to `mode', records what it saw
	var mu sync.Mutex
	mode := "ok"
	bound := map[uint64]bool{}
	type seen struct {
		name string
		fid  uint64
		re   bool
	}
	got := make(chan seen, 16)
	go func() {
		for b := range fr.C {
			f, err := t.Decode(b)
			if err != nil {
				continue
			}
			mu.Lock()
			m := mode
			mu.Unlock()
			switch f.Name {
			case "Tversion":
				toCli.Write(t.Encode("Rversion", f.Tag, wirecodec.Values{"msize": wirecodec.U(f.V, "msize"), "version": f.V["version"]}))
				continue
			}
			var s seen
			s.name = f.Name
			reply := ""
			switch f.Name {
			case "Tattach":
				s.fid = wirecodec.U(f.V, "fid")
				reply = "Rattach"
			case "Twalk":
				s.fid = wirecodec.U(f.V, "newfid")
				reply = "Rwalk"
			case "Tclunk":
				s.fid = wirecodec.U(f.V, "fid")
				reply = "Rclunk"
			case "Tremove":
				s.fid = wirecodec.U(f.V, "fid")
				reply = "Rremove"
			default:
				continue
			}
			mu.Lock()
			binds := f.Name == "Tattach" || f.Name == "Twalk"
			if binds {
				s.re = bound[s.fid]
				if m != "refused" {
					bound[s.fid] = true
				}
			} else {
				delete(bound, s.fid) // clunk and remove unbind whatever they answer
			}
			mu.Unlock()
			switch m {
			case "ok":
				vals := wirecodec.Values{}
				if reply == "Rattach" {
					vals["qid"] = wirecodec.Values{"type": 0x80, "path": 1}
				}
				toCli.Write(t.Encode(reply, f.Tag, vals))
			case "refused":
				toCli.Write(t.Encode("Rlerror", f.Tag, wirecodec.Values{"ecode": 13}))
			case "garbled":
				// a reply nobody waits for: tag outside anything the client has outstanding
				toCli.Write(t.Encode("Rclunk", f.Tag+1000, wirecodec.Values{}))
			}
			got <- s
		}
	}()
	cl, err := p9.NewClient(cc)
	if err != nil {
		o.Findings = append(o.Findings, finding{Hist: v.Hist, Step: -1, Detail: "NewClient: " + err.Error()})
		return
	}
	root, err := cl.Attach("")
	if err != nil {
		o.Findings = append(o.Findings, finding{Hist: v.Hist, Step: -1, Detail: "setup attach: " + err.Error()})
		return
	}
	if s := <-got; s.fid != 1 {
		o.Findings = append(o.Findings, finding{Hist: v.Hist, Step: -1, Detail: fmt.Sprintf("the first fid is %d, FidPool.tla: 1", s.fid)})
		return
	}
	files := map[uint64]p9.File{}
	actual := map[uint64]uint64{} // specification's fid -> the number the client really used, where they differ
	add := func(i int, d string, reuse bool) {
		o.Findings = append(o.Findings, finding{Hist: v.Hist, Step: i, Detail: d, Reuse: reuse})
	}
	for i, st := range v.Hist {
		o.Steps++
		mu.Lock()
		mode = st.Out
		mu.Unlock()
		if st.Out == "lost" {
			cc.mu.Lock()
			cc.failNext = true
			cc.mu.Unlock()
		}
		var f p9.File
		var err error
		switch st.Op {
		case "walk":
			_, f, err = root.Walk(nil)
		case "attach":
			f, err = cl.Attach("")
		case "close":
			err = files[st.Fid].Close()
			delete(files, st.Fid)
		case "remove":
			// Remove is not part of the File interface any more; the client's files still have it
			type remover interface{ Remove() error }
			err = files[st.Fid].(remover).Remove()
			delete(files, st.Fid)
		}
		if (st.Out == "ok") != (err == nil) {
			add(i, fmt.Sprintf("%s with outcome %s returned error %v", st.Op, st.Out, err), false)
			return
		}
		if st.Out != "lost" {
			select {
			case s := <-got:
				if st.Op == "close" || st.Op == "remove" {
					want := st.Fid
					if a, ok := actual[st.Fid]; ok {
						want = a
					}
					if s.fid != want {
						add(i, fmt.Sprintf("%s names fid %d, the File was bound to fid %d", s.name, s.fid, want), false)
						return
					}
				} else if s.fid != st.Fid {
					// another allocation policy than the specification's LIFO pool: not a violation of
					// C10 by itself (what matters is the server-side monitor below); counted
					o.PolicyDiffs++
					actual[st.Fid] = s.fid
				}
				if s.re {
					add(i, fmt.Sprintf("%s binds fid %d, which the server still has bound (its clunk was not confirmed / its binding request was not refused)", s.name, s.fid), true)
					return
				}
			case <-time.After(3 * time.Second):
				add(i, fmt.Sprintf("%s: the request never reached the server", st.Op), false)
				return
			}
		} else {
			select {
			case s := <-got:
				add(i, fmt.Sprintf("%s reached the server although the write failed (%v)", st.Op, s), false)
				return
			case <-time.After(2 * time.Millisecond):
			}
		}
		if err == nil && f != nil {
			files[st.Fid] = f
		}
	}
	if len(o.Samples) < 2 && len(v.Hist) >= 4 {
		o.Samples = append(o.Samples, v.Hist)
	}
	cc.Close()
}

func main() {
	in := flag.String("in", "", "")
	outp := flag.String("out", "", "")
	shard := flag.Int("shard", 0, "")
	nshard := flag.Int("nshard", 1, "")
	flag.Parse()
	f, err := os.Open(*in)
	if err != nil {
		fmt.Fprintln(os.Stderr, err)
		os.Exit(2)
	}
	t := wirecodec.MustLoad()
	o := &out{}
	sc := bufio.NewScanner(f)
	sc.Buffer(make([]byte, 1<<20), 16<<20)
	i := 0
	for sc.Scan() {
		i++
		if (i-1)%*nshard != *shard {
			continue
		}
		b := sc.Bytes()
		if len(b) > 0 && b[0] == '"' {
			var s string
			json.Unmarshal(b, &s)
			b = []byte(s)
		}
		var v vec
		if err := json.Unmarshal(b, &v); err != nil {
			o.Findings = append(o.Findings, finding{Step: -1, Detail: "bad vector: " + err.Error()})
			continue
		}
		run(t, &v, o)
		if len(o.Findings) > 200 {
			break
		}
	}
	b, _ := json.Marshal(o)
	if *outp == "" {
		os.Stdout.Write(b)
	} else {
		os.WriteFile(*outp, b, 0o644)
	}
}
