SPECIFICATION Spec
CONSTANTS
  Conns = {1}
  Fids = {1, 2}
  Names = {"a", "b"}
  BadNames = {}
  AttachNames = {""}
  Kinds = {"Tattach", "Twalk", "Tclunk", "Tlopen", "Tgetattr", "Tmkdir", "Tunlinkat", "Trenameat", "Disconnect"}
  MaxFiles = 5
  MaxDepth = 4
  FaultKinds = {}
  MaxFaults = 0
  InitWorld = "ab"
  Fixed = {}
VIEW View
CHECK_DEADLOCK FALSE
INVARIANTS
  RefConservation ClosedAtMostOnce NoUseAfterClose ClosedIffUnreferenced AllClosedAfterDisconnect
  OpenAtMostOnce PathCoherence TreeConsistent FencedNeverReachBackend
  NoUnsafeNameReachesBackend WalkOnlyThroughDirs UnsafeIsEINVALNoCall PanicIsEFAULT ObtainedFilesClosed NoInternalPanic
PROPERTIES
  UnboundIsEBADFP ClunkRemoveAlwaysUnbindP BindOnlyOnSuccessP ErrorLeavesTableUnchangedP IOOnlyWhenOpenCompatibleP DirOpsRefusedOnOpenedDirP NoAuthP
