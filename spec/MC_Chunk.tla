------------------------------ MODULE MC_Chunk ------------------------------
(* Exhaustive exploration of Chunk.tla; every finished behaviour is written  *)
(* as a vector (call, requests with outcomes, return) to $GEN_OUT.           *)
EXTENDS Chunk, Json, IOUtils, CSV

Dump == (Done /\ "GEN_OUT" \in DOMAIN IOEnv) =>
          CSVWrite("%1$s", <<ToJson([kind |-> kind, chunk |-> chunk, len |-> len, calls |-> calls, ret |-> ret])>>, IOEnv.GEN_OUT)
=============================================================================
