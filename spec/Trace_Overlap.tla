---------------------------- MODULE Trace_Overlap ----------------------------
(***************************************************************************)
(* Trace validation of backend enter/exit logs recorded from the real     *)
(* server (binding B3): the set of calls inside the backend is rebuilt    *)
(* event by event and every pair that is inside at the same time is       *)
(* judged by the File-interface contract as restated by C07.  Judgements  *)
(* are written to $GEN_OUT ({line, cell, a, b, dev}); a conflicting pair  *)
(* that is not a named deviation also violates NoConflict.                *)
(*                                                                         *)
(* Event: {ev: enter|exit|reset, cell, call, k, file, path, entry,        *)
(* nonames}.  Classes per File method (p9/file.go):                       *)
(***************************************************************************)
EXTENDS Integers, Sequences, FiniteSets, TLC, Json, IOUtils, CSV

CONSTANT Fixed
Dev(x) == x \notin Fixed

Trace == ndJsonDeserialize(IOEnv.TRACE_FILE)

ReadK   == {"Walk", "WalkGetAttr", "GetAttr", "Open", "ReadAt", "WriteAt", "Readdir", "Readlink", "FSync"}
WriteK  == {"Create", "Mkdir", "Symlink", "Link", "Mknod", "UnlinkAt", "SetAttr"}
GlobalK == {"RenameAt", "Renamed"}
Class(k) == IF k \in ReadK THEN "read" ELSE IF k \in WriteK THEN "write" ELSE IF k \in GlobalK THEN "global" ELSE "none"

VARIABLES l, ins, opens

vars == <<l, ins, opens>>

Init == l = 1 /\ ins = {} /\ opens = {}

Rec(e) == [call |-> e.call, k |-> e.k, path |-> e.path, entry |-> e.entry, nonames |-> e.nonames, file |-> e.file, req |-> e.req]

Next ==
  /\ l <= Len(Trace)
  /\ l' = l + 1
  /\ LET e == Trace[l] IN
     CASE e.ev = "reset" -> ins' = {} /\ opens' = {}
       [] e.ev = "enter" -> ins' = ins \cup {Rec(e)} /\ opens' = IF e.k = "Open" THEN opens \cup {<<e.file, e.call>>} ELSE opens
       [] e.ev = "exit"  -> ins' = {x \in ins : x.call # e.call} /\ UNCHANGED opens

Spec == Init /\ [][Next]_vars

EntryPath(a) == Append(a.path, a.entry)

Conflict(a, b) ==
  \/ Class(a.k) = "global" /\ Class(b.k) \in {"read", "write", "global"}
  \/ Class(a.k) = "write" /\ Class(b.k) \in {"read", "write"} /\ a.path = b.path
  \/ a.k = "UnlinkAt" /\ Class(b.k) \in {"read", "write"} /\ b.path = EntryPath(a)

\* Named deviations (see PathLocks.tla), identified narrowly by the request that
\* issued the call: the Walk(nil) of a clone runs under the parent's lock (R11);
\* the GetAttr a walk or attach issues on the File it has just obtained runs
\* without that File's path lock (R18).
WalkReqs == {"walk", "walkgetattr", "walk2", "attach", "Twalk", "Twalkgetattr", "Tattach"}
Deviant(a) == \/ (a.k \in {"Walk", "WalkGetAttr"} /\ a.nonames /\ a.req \in {"clone", "Twalk", "Twalkgetattr"} /\ Dev("R11"))
              \/ (a.k = "GetAttr" /\ a.req \in WalkReqs /\ Dev("R18"))

Pairs == {<<a, b>> \in ins \X ins : a.call < b.call /\ (Conflict(a, b) \/ Conflict(b, a))}

\* Open at most once per File
OpenOnce == \A x, y \in opens : x[1] = y[1] => x[2] = y[2]

Judge ==
  \A pr \in Pairs :
     IF "GEN_OUT" \in DOMAIN IOEnv
     THEN CSVWrite("%1$s", <<ToJson([line |-> l - 1, cell |-> Trace[l - 1].cell, a |-> pr[1], b |-> pr[2],
                                     dev |-> Deviant(pr[1]) \/ Deviant(pr[2])])>>, IOEnv.GEN_OUT)
     ELSE TRUE

NoConflict == \A pr \in Pairs : Deviant(pr[1]) \/ Deviant(pr[2])

\* acceptance: the whole trace was consumed
Done == l = Len(Trace) + 1
=============================================================================
