------------------------------ MODULE MC_Client ------------------------------
(* Model-checking wrapper of Client.tla with the edge dump for lib/bigstep.py *)
EXTENDS Client, Json, IOUtils, CSV, TLCExt

CallerObs(k) == IF pc[k]' = "done" THEN (IF res[k]' = "ok" THEN 100 + rm[k]' ELSE -1)
                ELSE IF pc[k]' = "idle" THEN 0 ELSE 1
\* observation: per caller 0 idle, 1 blocked, -1 error, 100+j success carrying the reply to request j;
\* and the callers whose requests reached the server, in order
ObsP == [callers |-> [k \in Callers |-> CallerObs(k)],
         wire |-> [i \in 1..Len(wire') |-> wire'[i].k]]

\* TLCFP yields 32 bits: with 10^5 states two of them collide in most runs, and a collision merges two states
\* of the dumped graph.  Two fingerprints of differently salted values give 64 bits.
FP2(v) == <<TLCFP(v), TLCFP(<<"salt", v>>)>>

EdgeDump == IF "GEN_OUT" \in DOMAIN IOEnv
            THEN CSVWrite("%1$s", <<ToJson([f |-> FP2(View), a |-> last', t |-> FP2(View'), o |-> ObsP])>>, IOEnv.GEN_OUT)
            ELSE TRUE
=============================================================================
