------------------------------ MODULE Session ------------------------------
(***************************************************************************)
(* The p9 server session, request-atomic.                                  *)
(*                                                                         *)
(* One transition = one T-message handled to completion on a connection    *)
(* (or a disconnect).  Every handler of p9/handlers.go is transcribed at   *)
(* the level "preamble checks -> backend calls in order with arguments ->  *)
(* state update -> reply", including reference counting (LookupFID /       *)
(* IncRef / DecRef / InsertFID / DeleteFID, p9/server.go), the path tree   *)
(* (p9/path_tree.go: childNodes / childRefs / deleted), Go's panic         *)
(* unwinding (only *deferred* clean-ups run) and error joining in DecRef.  *)
(*                                                                         *)
(* The backend is a *world model* of a path-joining file system (such as   *)
(* fsimpl/localfs): every backend File handle remembers the object it was  *)
(* bound to when handed out (ghost identity) and the path the backend      *)
(* *believes* it lives at, which changes only through Renamed().           *)
(*                                                                         *)
(* The record appended to `log' by every transition is what the Go         *)
(* harness replays against the real p9.Server (request, expected backend   *)
(* calls with scripted results, expected reply, expected Close events,     *)
(* believed paths afterwards).                                             *)
(*                                                                         *)
(* Sequential histories only: locks are in PathLocks.tla, the receive /    *)
(* reply machinery in ConnLoop.tla.                                        *)
(***************************************************************************)
EXTENDS Integers, Sequences, FiniteSets, TLC

CONSTANTS
  Conns,        \* connection ids, e.g. {1} or {1,2}
  Fids,         \* fid numbers a request may name
  Names,        \* safe component names (strings)
  BadNames,     \* unsafe names offered as request arguments only
  AttachNames,  \* attach name strings offered (keys of AttachSplit)
  Kinds,        \* request kinds enabled in this configuration
  MaxFiles,     \* bound on backend handles ever handed out
  MaxDepth,     \* bound on history length
  FaultKinds,   \* subset of {"EIO","panic"}: injected results
  MaxFaults,    \* fault budget per history
  InitWorld,    \* name of the initial backend tree
  CloneProbes,  \* TRUE: clone-and-clunk probes after every transition (see CloneProbesOn)
  Fixed         \* set of findings repaired in the tree (deviations disabled)

Nil == 0

(***************************************************************************)
(* Deviations of the code from the properties that are known findings are  *)
(* modelled explicitly and switched by `Fixed'.  "R1": Txattrwalk shares   *)
(* the File of its source fid (so it is closed twice).                     *)
(***************************************************************************)
Dev(x) == x \notin Fixed

VARIABLES
  fidtab,   \* [Conns -> [Fids -> ref id | Nil]]
  ref,      \* Seq of fidRef records
  node,     \* Seq of pathNode records; node 1 is the server's root pathNode
  otype,    \* Seq of object types: "dir","reg","sym","sock"   (object 1 = root)
  dent,     \* Seq of [Names -> object | Nil]                  (directory entries)
  bf,       \* Seq of backend File handles [obj, path, closed, opens, used]
  up,       \* [Conns -> BOOLEAN]   connection still open
  nfault,   \* faults injected so far
  depth,
  log       \* history of step records (hidden from VIEW)

vars == <<fidtab, ref, node, otype, dent, bf, up, nfault, depth, log>>
View == <<fidtab, ref, node, otype, dent, bf, up, nfault, depth>>

-----------------------------------------------------------------------------
(* Names *)

SafeName(n) == n \in Names          \* BadNames are exactly the unsafe ones
AllNames == Names \cup BadNames

\* Attach name -> components after "strip one leading slash, split on '/'".
\* <<>> means "attach the root itself".
AttachSplit(a) ==
  CASE a = ""      -> <<>>
    [] a = "/"     -> <<>>
    [] a = "a"     -> <<"a">>
    [] a = "/a"    -> <<"a">>
    [] a = "a/b"   -> <<"a", "b">>
    [] a = "/a/b"  -> <<"a", "b">>
    [] a = "a//b"  -> <<"a", "", "b">>
    [] a = "//a"   -> <<"", "a">>
    [] a = "/../b" -> <<"..", "b">>
    [] a = "a/./b" -> <<"a", ".", "b">>
    [] a = "a/"    -> <<"a", "">>
    [] a = "a/.."  -> <<"a", "..">>
    [] a = "."     -> <<".">>
    [] a = "b"     -> <<"b">>
    [] a = "s/a"   -> <<"s", "a">>
    [] a = "b/a"   -> <<"b", "a">>
    [] a = "a/a"   -> <<"a", "a">>
    [] a = "a/a/b" -> <<"a", "a", "b">>
    [] a = "/a/"   -> <<"a", "">>
    [] a = "LONG"  -> <<"LONG">>

-----------------------------------------------------------------------------
(* Initial backend trees.  Objects: 1 = root.                               *)

NoEnt == [n \in Names |-> Nil]
Ent(pairs) == [n \in Names |-> IF \E p \in pairs : p[1] = n
                                THEN (CHOOSE p \in pairs : p[1] = n)[2] ELSE Nil]

\* "ab":   /a (dir)  /a/b (reg)  /b (reg)
\* "deep": /a (dir)  /a/a (dir)  /a/a/b (reg)  /b (dir)
\* "mix":  /a (dir)  /a/b (sym)  /b (reg)  /s -> symlink (only if "s" \in Names)
WorldTypes(w) ==
  CASE w = "ab"   -> <<"dir", "dir", "reg", "reg">>
    [] w = "deep" -> <<"dir", "dir", "dir", "reg", "dir">>
    [] w = "mix"  -> <<"dir", "dir", "sym", "reg", "sym", "sock">>
    [] w = "empty" -> <<"dir">>

WorldDents(w) ==
  CASE w = "ab"   -> << Ent({<<"a", 2>>, <<"b", 4>>}), Ent({<<"b", 3>>}), NoEnt, NoEnt >>
    [] w = "deep" -> << Ent({<<"a", 2>>, <<"b", 5>>}), Ent({<<"a", 3>>}), Ent({<<"b", 4>>}), NoEnt, NoEnt >>
    [] w = "mix"  -> << Ent({<<"a", 2>>, <<"b", 4>>, <<"s", 5>>, <<"k", 6>>}), Ent({<<"b", 3>>}), NoEnt, NoEnt, NoEnt, NoEnt >>
    [] w = "empty" -> << NoEnt >>

-----------------------------------------------------------------------------
(* The working state threaded through a handler.                            *)

\* fault: [at |-> i, kind |-> "EIO"|"panic"]: the i-th backend call of this
\* request returns that instead of its natural result; at = 0 means no fault.
SX(c, fl, ft, rf, nd, ot, de, b) ==
  [ c |-> c, fidtab |-> ft[c], ref |-> rf, node |-> nd, otype |-> ot,
    dent |-> de, bf |-> b,
    calls |-> <<>>, closes |-> <<>>, panic |-> FALSE, cerr |-> "ok",
    fault |-> fl, fired |-> FALSE, ipanic |-> FALSE ]
S0(c, fl) == SX(c, fl, fidtab, ref, node, otype, dent, bf)

RECURSIVE ResolveFrom(_, _, _)
ResolveFrom(s, o, p) ==
  IF o = Nil THEN Nil
  ELSE IF p = <<>> THEN o
  ELSE IF s.otype[o] # "dir" THEN Nil
  ELSE ResolveFrom(s, s.dent[o][Head(p)], Tail(p))
Resolve(s, p) == ResolveFrom(s, 1, p)

IsPrefixOf(p, q) == Len(p) <= Len(q) /\ SubSeq(q, 1, Len(p)) = p

DirEmpty(s, o) == \A n \in Names : s.dent[o][n] = Nil

\* A backend call.  `nat' is the natural result chosen by the world model.
\* Returns the new state (call logged) and the result that was delivered.
\* After a panic nothing non-deferred runs; callers test s.panic.
BCall(s, call, nat) ==
  LET i   == Len(s.calls) + 1
      hit == s.fault.at # 0 /\ ~s.fired /\ s.fault.at = i
             /\ (call.k = "Renamed" => s.fault.kind = "panic")   \* Renamed cannot fail
      res == IF hit THEN s.fault.kind ELSE nat
      rec == [call EXCEPT !.res = res]
      s1  == [s EXCEPT !.calls = Append(@, rec),
                       !.fired = @ \/ hit,
                       !.panic = @ \/ (res = "panic")]
  IN [s |-> s1, res |-> res]

\* Call records.  Every record has the same fields so that JSON consumers
\* and TLC comparisons stay simple.
\*   k      operation            f     receiver handle (0 = the Attacher)
\*   names  name arguments       f2    second handle argument (Link target, RenameAt/Renamed dir)
\*   a      scalar argument (flags, count, ...) as a string
\*   res    result               nf    handle created by the call (0 = none)
\*   mode   type of nf           len   lenient matching allowed (pure query)
\*   fenced the server-side reference used was fenced when the call was made
\*   rdir   receiver handle's reference is a directory (for Walk)
CallRec(k, f, names, f2, a) ==
  [k |-> k, f |-> f, names |-> names, f2 |-> f2, a |-> a, res |-> "ok",
   nf |-> 0, mode |-> "", len |-> FALSE, fenced |-> FALSE, rdir |-> TRUE]

-----------------------------------------------------------------------------
(* Backend handle and world helpers                                         *)

NewHandle(s, o, path, opened) ==
  [s EXCEPT !.bf = Append(@, [obj |-> o, path |-> path, closed |-> 0,
                              opens |-> IF opened THEN 1 ELSE 0, uac |-> 0, cp |-> FALSE])]
HandleId(s) == Len(s.bf)     \* id of the handle NewHandle just made

\* Mark a call on a closed handle (use after close) for the invariant.  A File
\* whose Close panicked never finished closing and is not held to this.
Touch(s, f) == IF f # 0 /\ s.bf[f].closed > 0 /\ ~s.bf[f].cp
               THEN [s EXCEPT !.bf[f].uac = @ + 1] ELSE s

NewObj(s, t) == [s EXCEPT !.otype = Append(@, t), !.dent = Append(@, NoEnt)]
ObjId(s) == Len(s.otype)

-----------------------------------------------------------------------------
(* Reference counting and the path tree (server.go, path_tree.go)           *)

RefRec(file, mode, nd, parent) ==
  [file |-> file, cnt |-> 0, opened |-> FALSE, flags |-> "", mode |-> mode,
   node |-> nd, parent |-> parent,
   xop |-> "none", xname |-> "", xsize |-> 0, xbuf |-> 0, xflags |-> 0, xsrc |-> Nil]

NewRef(s, rec) == [s EXCEPT !.ref = Append(@, rec)]
RefId(s) == Len(s.ref)

NodeRec == [deleted |-> FALSE, kids |-> [n \in Names |-> Nil],
            crefs |-> [n \in Names |-> {}]]

IncRef(s, r) == [s EXCEPT !.ref[r].cnt = @ + 1]

IsDeleted(s, r) == s.node[s.ref[r].node].deleted
IsDirRef(s, r) == s.ref[r].mode = "dir"
IsRoot(s, r)   == s.ref[r].parent = Nil          \* the code's (mis-named) hasParent()

\* pathNode.pathNodeFor: existing child node or a fresh one.
NodeFor(s, pn, name) ==
  IF s.node[pn].kids[name] # Nil THEN [s |-> s, n |-> s.node[pn].kids[name]]
  ELSE LET s1 == [s EXCEPT !.node = Append(@, NodeRec)]
           id == Len(s1.node)
       IN [s |-> [s1 EXCEPT !.node[pn].kids[name] = id], n |-> id]

\* childRefNames lookup: the name under which r is registered in pn, or "" .
NameOf(s, pn, r) ==
  IF \E n \in Names : r \in s.node[pn].crefs[n]
  THEN CHOOSE n \in Names : r \in s.node[pn].crefs[n] ELSE ""

AddChild(s, pn, r, name) == [s EXCEPT !.node[pn].crefs[name] = @ \cup {r}]
RemoveChild(s, pn, r) == [s EXCEPT !.node[pn].crefs = [n \in Names |-> @[n] \ {r}]]

\* fidRef.DecRef: at zero Close the file, unregister from the parent's node,
\* drop the parent reference.  A Close error is remembered (errors.Join order:
\* own file first), a Close panic aborts the rest of this DecRef chain.
RECURSIVE DecRef(_, _)
DecRef(s, r) ==
  LET c  == s.ref[r].cnt - 1
      s1 == [s EXCEPT !.ref[r].cnt = c]
  IN IF c # 0 THEN s1
     ELSE
       IF s1.ref[r].xsrc # Nil
       THEN \* (fixed R1) an xattr reference owns no File: it only pins its source
            DecRef(s1, s1.ref[r].xsrc)
       ELSE
       LET f   == s1.ref[r].file
           cl  == BCall(Touch(s1, f), CallRec("Close", f, <<>>, 0, ""), "ok")
           s2  == [cl.s EXCEPT !.bf[f].closed = @ + 1,
                               !.bf[f].cp = (cl.res = "panic"),
                               !.closes = Append(@, f),
                               !.cerr = IF @ = "ok" /\ cl.res \notin {"ok", "panic"} THEN cl.res ELSE @]
           p   == s2.ref[r].parent
       IN IF cl.res = "panic" THEN s2
          ELSE IF p = Nil THEN s2
          ELSE DecRef(RemoveChild(s2, s2.ref[p].node, r), p)

\* connState.InsertFID: install and drop the previous binding (deferred inside).
InsertFID(s, fid, r) ==
  LET orig == s.fidtab[fid]
      s1   == [IncRef(s, r) EXCEPT !.fidtab[fid] = r]
  IN IF orig = Nil THEN s1 ELSE DecRef(s1, orig)

\* notifyDelete: mark a node and its whole subtree deleted.
RECURSIVE MarkDeleted(_, _)
MarkDeleted(s, pn) ==
  LET s1 == [s EXCEPT !.node[pn].deleted = TRUE]
      ks == {s.node[pn].kids[n] : n \in Names} \ {Nil}
      F[S \in SUBSET ks] == IF S = {} THEN s1
                            ELSE LET k == CHOOSE k \in S : TRUE IN MarkDeleted(F[S \ {k}], k)
  IN F[ks]

\* fidRef.markChildDeleted(name)
MarkChildDeleted(s, pn, name) ==
  LET orig == s.node[pn].kids[name]
      s1   == [s EXCEPT !.node[pn].crefs[name] = {}, !.node[pn].kids[name] = Nil]
  IN IF orig = Nil THEN s1 ELSE MarkDeleted(s1, orig)

\* The backend's reaction to Renamed(newDir, newName) on handle f.
BRenamed(s, f, pf, name) == [s EXCEPT !.bf[f].path = Append(s.bf[pf].path, name)]

\* notifyNameChange(pn): Renamed on every child reference of pn, then subtrees.
\* Go map order is not deterministic; the model uses a fixed order and the
\* harness compares Renamed calls as a set (see DESIGN.md section 4).
RECURSIVE NotifySubtree(_, _)
NotifySubtree(s, pn) ==
  LET pairs == {<<n, r>> \in Names \X (1..Len(s.ref)) : r \in s.node[pn].crefs[n]}
      G[S \in SUBSET pairs] ==
        IF S = {} THEN s
        ELSE LET x  == CHOOSE x \in S : TRUE
                 sp == G[S \ {x}]
             IN IF sp.panic THEN sp
                ELSE LET r  == x[2]
                         f  == sp.ref[r].file
                         pf == sp.ref[sp.ref[r].parent].file
                         c  == BCall(Touch(Touch(sp, f), pf), CallRec("Renamed", f, <<x[1]>>, pf, ""), "ok")
                     IN IF c.res = "ok" THEN BRenamed(c.s, f, pf, x[1]) ELSE c.s
      s1 == G[pairs]
      ks == {s.node[pn].kids[n] : n \in Names} \ {Nil}
      H[S \in SUBSET ks] == IF S = {} THEN s1
                            ELSE LET k == CHOOSE k \in S : TRUE
                                     sp == H[S \ {k}]
                                 IN IF sp.panic THEN sp ELSE NotifySubtree(sp, k)
  IN IF s1.panic THEN s1 ELSE H[ks]

\* fidRef.renameChildTo(oldName, target, newName) called on reference fr.
\* removeWithName's callback per moved reference:
\*   parent.DecRef; parent = target; target.IncRef; addChild; Renamed; (balancing DecRef)
RenameChildTo(s, fr, oldName, tr, newName) ==
  LET sn   == s.ref[fr].node
      tn   == s.ref[tr].node
      s1   == MarkChildDeleted(s, tn, newName)
      mv   == s1.node[sn].crefs[oldName]
      s2   == [s1 EXCEPT !.node[sn].crefs[oldName] = {}]
      G[S \in SUBSET mv] ==
        IF S = {} THEN s2
        ELSE LET r  == CHOOSE r \in S : TRUE
                 sp == G[S \ {r}]
             IN IF sp.panic THEN sp
                ELSE IF sp.ref[r].cnt <= 0 THEN sp          \* TryIncRef failed
                ELSE LET a  == IncRef(sp, r)                 \* TryIncRef
                         b  == DecRef(a, a.ref[r].parent)    \* drop original parent reference
                     IN IF b.panic THEN b
                        ELSE LET c  == IncRef([b EXCEPT !.ref[r].parent = tr], tr)
                                 d  == AddChild(c, tn, r, newName)
                                 f  == d.ref[r].file
                                 tf == d.ref[tr].file
                                 e  == BCall(Touch(Touch(d, f), tf), CallRec("Renamed", f, <<newName>>, tf, ""), "ok")
                                 g  == IF e.res = "ok" THEN BRenamed(e.s, f, tf, newName) ELSE e.s
                             IN IF g.panic THEN g     \* the balancing DecRef is not deferred
                                ELSE DecRef(g, r)
      s3   == G[mv]
      orig == s3.node[sn].kids[oldName]
  IN IF s3.panic THEN s3      \* removeWithName's deferred unlock only; kids entry stays
     ELSE LET s4 == [s3 EXCEPT !.node[sn].kids[oldName] = Nil]
          IN IF orig = Nil THEN s4
             ELSE NotifySubtree([s4 EXCEPT !.node[tn].kids[newName] = orig], orig)

-----------------------------------------------------------------------------
(* World-model results of backend operations (path-joining backend)         *)

\* Where does handle f point according to the backend?
At(s, f) == Resolve(s, s.bf[f].path)

NatEntryCreate(s, f, name) ==
  LET d == At(s, f) IN
  IF d = Nil THEN "ENOENT"
  ELSE IF s.otype[d] # "dir" THEN "ENOTDIR"
  ELSE IF s.dent[d][name] # Nil THEN "EEXIST" ELSE "ok"

NatUnlink(s, f, name) ==
  LET d == At(s, f) IN
  IF d = Nil THEN "ENOENT"
  ELSE IF s.otype[d] # "dir" THEN "ENOTDIR"
  ELSE LET o == s.dent[d][name] IN
       IF o = Nil THEN "ENOENT"
       ELSE IF s.otype[o] = "dir" /\ ~DirEmpty(s, o) THEN "ENOTEMPTY" ELSE "ok"

NatRename(s, f, oldName, f2, newName) ==
  LET d == At(s, f)  t == At(s, f2) IN
  IF d = Nil \/ t = Nil THEN "ENOENT"
  ELSE IF s.otype[d] # "dir" \/ s.otype[t] # "dir" THEN "ENOTDIR"
  ELSE LET o == s.dent[d][oldName]  x == s.dent[t][newName] IN
       IF o = Nil THEN "ENOENT"
       ELSE IF o = x THEN "ok"          \* hard links to one object: rename(2) does nothing
       ELSE IF s.otype[o] = "dir" /\ IsPrefixOf(Append(s.bf[f].path, oldName), s.bf[f2].path) THEN "EINVAL"
       ELSE IF x # Nil /\ s.otype[x] = "dir" /\ (s.otype[o] # "dir" \/ ~DirEmpty(s, x)) THEN "ENOTEMPTY"
       ELSE IF x # Nil /\ s.otype[x] # "dir" /\ s.otype[o] = "dir" THEN "ENOTDIR"
       ELSE "ok"

WorldRename(s, f, oldName, f2, newName) ==
  LET d == At(s, f)  t == At(s, f2)  o == s.dent[d][oldName] IN
  IF o = s.dent[t][newName] THEN s
  ELSE [s EXCEPT !.dent = [[@ EXCEPT ![d][oldName] = Nil] EXCEPT ![t][newName] = o]]

-----------------------------------------------------------------------------
(* Replies                                                                  *)

Err(e) == [t |-> "Rlerror", e |-> e, n |-> -1]
R(t)   == [t |-> t, e |-> "", n |-> -1]     \* n = -1: the count is not part of the comparison
Rn(t, n) == [t |-> t, e |-> "", n |-> n]

\* Result of a handler: final working state and reply.  A panic anywhere is
\* recovered in connState.handle and answered EFAULT.
Fin(s, reply) == [s |-> s, reply |-> IF s.panic THEN Err("EFAULT") ELSE reply]

-----------------------------------------------------------------------------
(* walkOne / doWalk                                                          *)

\* walkOne(from, names (0 or 1), getattr): WalkGetAttr first when getattr
\* (answered ENOSYS by this backend flavour, lenient), then Walk, then GetAttr.
\* r is the server reference whose File is the receiver.
\* Returns [s, e, nf, mode].
WalkOne(s, r, names, getattr) ==
  LET f    == s.ref[r].file
      fen  == IsDeleted(s, r)
      isd  == IsDirRef(s, r)
      st   == Touch(s, f)
      w0   == IF getattr
              THEN BCall(st, [CallRec("WalkGetAttr", f, names, 0, "") EXCEPT !.len = TRUE, !.fenced = fen, !.rdir = isd], "ENOSYS")
              ELSE [s |-> st, res |-> "ENOSYS"]
  IN IF w0.s.panic THEN [s |-> w0.s, e |-> "panic", nf |-> 0, mode |-> ""]
     ELSE IF w0.res # "ENOSYS" THEN [s |-> w0.s, e |-> w0.res, nf |-> 0, mode |-> ""]
     ELSE
     LET base == s.bf[f].path
         \* Walk(nil) hands out a copy of the same file; Walk(<<n>>) resolves the
         \* joined path (path-joining backend).
         tgt  == IF names = <<>> THEN s.bf[f].obj ELSE Resolve(w0.s, base \o names)
         nat  == IF tgt = Nil THEN "ENOENT" ELSE "ok"
         \* the new handle is announced in the call record so the puppet can label it
         pre  == IF nat = "ok" THEN NewHandle(w0.s, tgt, base \o names, FALSE) ELSE w0.s
         nfid == IF nat = "ok" THEN HandleId(pre) ELSE 0
         w1   == BCall(w0.s,
                       [CallRec("Walk", f, names, 0, "") EXCEPT !.nf = nfid,
                          !.mode = IF nat = "ok" THEN w0.s.otype[tgt] ELSE "",
                          !.fenced = fen, !.rdir = isd], nat)
     IN IF w1.res # "ok" THEN [s |-> w1.s, e |-> w1.res, nf |-> 0, mode |-> ""]
        ELSE LET s2 == [w1.s EXCEPT !.bf = pre.bf]
                 md == s2.otype[tgt]
             IN IF ~getattr THEN [s |-> s2, e |-> "ok", nf |-> nfid, mode |-> md]
                ELSE LET g == BCall(s2, [CallRec("GetAttr", nfid, <<>>, 0, "") EXCEPT !.len = TRUE], "ok")
                     IN IF g.res = "ok" THEN [s |-> g.s, e |-> "ok", nf |-> nfid, mode |-> md]
                        ELSE IF g.res = "panic" THEN [s |-> g.s, e |-> "panic", nf |-> 0, mode |-> ""]
                        ELSE \* "Don't leak the file": sf.Close()
                             LET cl == BCall(g.s, CallRec("Close", nfid, <<>>, 0, ""), "ok")
                                 s3 == [cl.s EXCEPT !.bf[nfid].closed = @ + 1, !.closes = Append(@, nfid)]
                             IN [s |-> s3, e |-> IF cl.res = "panic" THEN "panic" ELSE g.res, nf |-> 0, mode |-> ""]

\* doWalk.  Returns [s, e, nr (reference owned by the caller), nq].
RECURSIVE WalkSteps(_, _, _, _)
WalkSteps(s, wr, names, nq) ==
  \* wr: current walk reference (one reference held by this walk)
  IF names = <<>> THEN [s |-> s, e |-> "ok", nr |-> wr, nq |-> nq]
  ELSE IF ~IsDirRef(s, wr) THEN [s |-> DecRef(s, wr), e |-> "EINVAL", nr |-> Nil, nq |-> 0]
  ELSE IF IsDeleted(s, wr) THEN [s |-> DecRef(s, wr), e |-> "ENOENT", nr |-> Nil, nq |-> 0]
  ELSE LET w == WalkOne(s, wr, <<Head(names)>>, TRUE) IN
       IF w.s.panic THEN [s |-> w.s, e |-> "panic", nr |-> Nil, nq |-> 0]   \* walk reference leaks
       ELSE IF w.e # "ok" THEN [s |-> DecRef(w.s, wr), e |-> w.e, nr |-> Nil, nq |-> 0]
       ELSE LET nn == NodeFor(w.s, w.s.ref[wr].node, Head(names))
                s1 == NewRef(nn.s, RefRec(w.nf, w.mode, nn.n, wr))
                nr == RefId(s1)
                s2 == IncRef(AddChild(s1, s1.ref[wr].node, nr, Head(names)), nr)
            IN WalkSteps(s2, nr, Tail(names), nq + 1)

DoWalk(s, r, names, getattr) ==
  IF \E i \in 1..Len(names) : ~SafeName(names[i])
  THEN [s |-> s, e |-> "EINVAL", nr |-> Nil, nq |-> 0]
  ELSE IF names = <<>> THEN
    \* clone
    LET w == WalkOne(s, r, <<>>, getattr) IN
    IF w.s.panic \/ w.e # "ok" THEN [s |-> w.s, e |-> w.e, nr |-> Nil, nq |-> 0]
    ELSE LET s1 == NewRef(w.s, RefRec(w.nf, w.s.ref[r].mode, w.s.ref[r].node, w.s.ref[r].parent))
             nr == RefId(s1)
             p  == s1.ref[r].parent
         IN IF p = Nil THEN [s |-> IncRef(s1, nr), e |-> "ok", nr |-> nr, nq |-> 0]
            ELSE LET nm == NameOf(s1, s1.ref[p].node, r)
                     s2 == IF IsDeleted(s1, nr) THEN s1
                           ELSE IF nm = "" THEN [s1 EXCEPT !.panic = TRUE, !.ipanic = TRUE]  \* nameFor panics
                           ELSE AddChild(s1, s1.ref[p].node, nr, nm)
                 IN IF s2.panic THEN [s |-> s2, e |-> "panic", nr |-> Nil, nq |-> 0]
                    ELSE [s |-> IncRef(IncRef(s2, p), nr), e |-> "ok", nr |-> nr, nq |-> 0]
  ELSE WalkSteps(IncRef(s, r), r, names, 0)

-----------------------------------------------------------------------------
(* Handlers.  q is the request record.                                      *)

\* Common shape: LookupFID(fid) or EBADF, body, deferred DecRef.
Bound(s, fid) == s.fidtab[fid] # Nil

H_Twalk(s, q, getattr) ==
  IF ~Bound(s, q.fid) THEN Fin(s, Err("EBADF")) ELSE
  LET r  == s.fidtab[q.fid]
      s1 == IncRef(s, r) IN
  IF s1.ref[r].opened /\ q.fid = q.newfid THEN Fin(DecRef(s1, r), Err("EBUSY")) ELSE
  LET w == DoWalk(s1, r, q.names, getattr) IN
  IF w.e # "ok" THEN Fin(DecRef(w.s, r), Err(w.e)) ELSE
  LET s2 == InsertFID(w.s, q.newfid, w.nr)
      s3 == DecRef(s2, w.nr)            \* defer newRef.DecRef()
      s4 == DecRef(s3, r)               \* defer ref.DecRef()
  IN Fin(s4, Rn(IF getattr THEN "Rwalkgetattr" ELSE "Rwalk", w.nq))

H_Tattach(s, q) ==
  IF q.afid # "NOFID" THEN Fin(s, Err("EINVAL")) ELSE
  LET pre == NewHandle(s, 1, <<>>, FALSE)
      hid == HandleId(pre)
      a   == BCall(s, [CallRec("Attach", 0, <<>>, 0, "") EXCEPT !.nf = hid, !.mode = "dir"], "ok") IN
  IF a.res # "ok" THEN Fin(a.s, Err(a.res)) ELSE
  LET s1 == [a.s EXCEPT !.bf = pre.bf]
      g  == BCall(s1, [CallRec("GetAttr", hid, <<>>, 0, "") EXCEPT !.len = TRUE], "ok") IN
  IF g.res = "panic" THEN Fin(g.s, Err("EFAULT")) ELSE
  IF g.res # "ok" THEN
     LET cl == BCall(g.s, CallRec("Close", hid, <<>>, 0, ""), "ok")
     IN Fin([cl.s EXCEPT !.bf[hid].closed = @ + 1, !.closes = Append(@, hid)], Err(g.res))
  ELSE
  LET s2   == NewRef(g.s, [RefRec(hid, "dir", 1, Nil) EXCEPT !.cnt = 1])
      root == RefId(s2)
      names == AttachSplit(q.aname) IN
  IF names = <<>> THEN Fin(DecRef(InsertFID(s2, q.fid, root), root), R("Rattach")) ELSE
  LET w == DoWalk(s2, root, names, FALSE) IN
  IF w.e # "ok" THEN Fin(DecRef(w.s, root), Err(w.e)) ELSE
  LET s3 == InsertFID(w.s, q.fid, w.nr)
      s4 == DecRef(s3, w.nr)
      s5 == DecRef(s4, root)
  IN Fin(s5, R("Rattach"))

CanOpen(m) == m \in {"reg", "dir", "fifo", "blk", "chr"}

\* Open flags: the access mode is the low two bits; "RO+" / "WO+" carry further
\* bits (O_TRUNC, O_APPEND, ...) that must not influence the mode checks.
FMode(fl) == IF fl = "RO+" THEN "RO" ELSE IF fl = "WO+" THEN "WO" ELSE fl

H_Tlopen(s, q) ==
  IF ~Bound(s, q.fid) THEN Fin(s, Err("EBADF")) ELSE
  LET r  == s.fidtab[q.fid]
      s1 == IncRef(s, r) IN
  IF IsDeleted(s1, r) THEN Fin(DecRef(s1, r), Err("EINVAL")) ELSE
  IF s1.ref[r].opened \/ ~CanOpen(s1.ref[r].mode) THEN Fin(DecRef(s1, r), Err("EINVAL")) ELSE
  IF IsDirRef(s1, r) /\ FMode(q.flags) # "RO" THEN Fin(DecRef(s1, r), Err("EISDIR")) ELSE
  LET f == s1.ref[r].file
      c == BCall(Touch(s1, f), CallRec("Open", f, <<>>, 0, q.flags), "ok") IN
  IF c.res # "ok" THEN Fin(DecRef(c.s, r), Err(c.res)) ELSE
  LET s2 == [c.s EXCEPT !.ref[r].opened = TRUE, !.ref[r].flags = q.flags, !.bf[f].opens = @ + 1]
  IN Fin(DecRef(s2, r), R("Rlopen"))

\* Shared preamble of the create family: name check FIRST, then the fid.
DirPreamble(s, name, fid) ==
  IF ~SafeName(name) THEN "EINVAL"
  ELSE IF ~Bound(s, fid) THEN "EBADF"
  ELSE LET r == s.fidtab[fid] IN
       IF IsDeleted(s, r) \/ ~IsDirRef(s, r) THEN "EINVAL"
       ELSE IF s.ref[r].opened THEN "EINVAL" ELSE "ok"

H_Tlcreate(s, q, rt) ==
  LET pe == DirPreamble(s, q.name, q.fid) IN
  IF pe # "ok" THEN Fin(s, Err(pe)) ELSE
  LET r   == s.fidtab[q.fid]
      f   == s.ref[r].file
      s1  == Touch(IncRef(s, r), f)
      nat == NatEntryCreate(s1, f, q.name)
      wo  == IF nat = "ok" THEN NewObj(s1, "reg") ELSE s1
      pre == IF nat = "ok" THEN NewHandle(wo, ObjId(wo), Append(s1.bf[f].path, q.name), TRUE) ELSE s1
      hid == IF nat = "ok" THEN HandleId(pre) ELSE 0
      c   == BCall(s1, [CallRec("Create", f, <<q.name>>, 0, q.flags) EXCEPT !.nf = hid, !.mode = "reg"], nat) IN
  IF c.res # "ok" THEN Fin(DecRef(c.s, r), Err(c.res)) ELSE
  LET d   == At(s1, f)
      s2  == [c.s EXCEPT !.bf = pre.bf, !.otype = pre.otype,
                         !.dent = [pre.dent EXCEPT ![d][q.name] = ObjId(wo)]]
      nn  == NodeFor(s2, s2.ref[r].node, q.name)
      s3  == NewRef(nn.s, [RefRec(hid, "reg", nn.n, r) EXCEPT !.opened = TRUE, !.flags = q.flags])
      nr  == RefId(s3)
      s4  == IncRef(AddChild(s3, s3.ref[r].node, nr, q.name), r)
      s5  == InsertFID(s4, q.fid, nr)
  IN Fin(DecRef(s5, r), R(rt))

\* Mkdir / Symlink / Mknod (and their Tu* forms): one write-class call.
H_Mk(s, q, op, otyp, rt) ==
  LET pe == DirPreamble(s, q.name, q.fid) IN
  IF pe # "ok" THEN Fin(s, Err(pe)) ELSE
  LET r   == s.fidtab[q.fid]
      s1  == IncRef(s, r)
      f   == s1.ref[r].file
      nat == NatEntryCreate(s1, f, q.name)
      c   == BCall(Touch(s1, f), CallRec(op, f, <<q.name>>, 0, ""), nat) IN
  IF c.res # "ok" THEN Fin(DecRef(c.s, r), Err(c.res)) ELSE
  LET wo == NewObj(c.s, otyp)
      d  == At(c.s, f)
      s2 == [wo EXCEPT !.dent[d][q.name] = ObjId(wo)]
  IN Fin(DecRef(s2, r), R(rt))

H_Tlink(s, q) ==
  IF ~SafeName(q.name) THEN Fin(s, Err("EINVAL")) ELSE
  IF ~Bound(s, q.fid) THEN Fin(s, Err("EBADF")) ELSE
  IF ~Bound(s, q.fid2) THEN Fin(s, Err("EBADF")) ELSE
  LET r  == s.fidtab[q.fid]
      t  == s.fidtab[q.fid2]
      s1 == IncRef(IncRef(s, r), t) IN
  IF IsDeleted(s1, r) \/ ~IsDirRef(s1, r) \/ s1.ref[r].opened
  THEN Fin(DecRef(DecRef(s1, t), r), Err("EINVAL")) ELSE
  LET f   == s1.ref[r].file
      tf  == s1.ref[t].file
      o   == At(s1, tf)
      n0  == NatEntryCreate(s1, f, q.name)
      nat == IF o = Nil THEN "ENOENT" ELSE IF s1.otype[o] = "dir" THEN "EPERM" ELSE n0
      c   == BCall(Touch(Touch(s1, f), tf), CallRec("Link", f, <<q.name>>, tf, ""), nat) IN
  IF c.res # "ok" THEN Fin(DecRef(DecRef(c.s, t), r), Err(c.res)) ELSE
  LET d  == At(c.s, f)
      s2 == [c.s EXCEPT !.dent[d][q.name] = o]
  IN Fin(DecRef(DecRef(s2, t), r), R("Rlink"))

H_Tunlinkat(s, q) ==
  LET pe == DirPreamble(s, q.name, q.fid) IN
  IF pe # "ok" THEN Fin(s, Err(pe)) ELSE
  LET r   == s.fidtab[q.fid]
      s1  == IncRef(s, r)
      nn  == NodeFor(s1, s1.ref[r].node, q.name)      \* pathNodeFor creates the node
      f   == s1.ref[r].file
      nat == NatUnlink(nn.s, f, q.name)
      c   == BCall(Touch(nn.s, f), CallRec("UnlinkAt", f, <<q.name>>, 0, ""), nat) IN
  IF c.res # "ok" THEN Fin(DecRef(c.s, r), Err(c.res)) ELSE
  LET d  == At(c.s, f)
      s2 == [c.s EXCEPT !.dent[d][q.name] = Nil]
      s3 == MarkChildDeleted(s2, s2.ref[r].node, q.name)
  IN Fin(DecRef(s3, r), R("Runlinkat"))

H_Trenameat(s, q) ==
  IF ~SafeName(q.name) \/ ~SafeName(q.name2) THEN Fin(s, Err("EINVAL")) ELSE
  IF ~Bound(s, q.fid) THEN Fin(s, Err("EBADF")) ELSE
  IF ~Bound(s, q.fid2) THEN Fin(s, Err("EBADF")) ELSE
  LET r  == s.fidtab[q.fid]
      t  == s.fidtab[q.fid2]
      s1 == IncRef(IncRef(s, r), t)
      done(x, rep) == Fin(DecRef(DecRef(x, t), r), rep) IN
  IF IsDeleted(s1, r) \/ ~IsDirRef(s1, r) \/ IsDeleted(s1, t) \/ ~IsDirRef(s1, t) THEN done(s1, Err("EINVAL")) ELSE
  IF s1.ref[r].opened THEN done(s1, Err("EINVAL")) ELSE
  IF s1.ref[r].node = s1.ref[t].node /\ q.name = q.name2 THEN done(s1, R("Rrenameat")) ELSE
  LET f   == s1.ref[r].file
      tf  == s1.ref[t].file
      nat == NatRename(s1, f, q.name, tf, q.name2)
      c   == BCall(Touch(Touch(s1, f), tf), CallRec("RenameAt", f, <<q.name, q.name2>>, tf, ""), nat) IN
  IF c.res # "ok" THEN done(c.s, Err(c.res)) ELSE
  LET s2 == WorldRename(c.s, f, q.name, tf, q.name2)
      s3 == RenameChildTo(s2, r, q.name, t, q.name2)
  IN done(s3, R("Rrenameat"))

H_Trename(s, q) ==
  IF ~SafeName(q.name) THEN Fin(s, Err("EINVAL")) ELSE
  IF ~Bound(s, q.fid) THEN Fin(s, Err("EBADF")) ELSE
  IF ~Bound(s, q.fid2) THEN Fin(s, Err("EBADF")) ELSE
  LET r  == s.fidtab[q.fid]
      t  == s.fidtab[q.fid2]
      s1 == IncRef(IncRef(s, r), t)
      done(x, rep) == Fin(DecRef(DecRef(x, t), r), rep) IN
  IF IsRoot(s1, r) THEN done(s1, Err("EINVAL")) ELSE
  IF IsDeleted(s1, r) \/ IsDeleted(s1, t) \/ ~IsDirRef(s1, t) THEN done(s1, Err("EINVAL")) ELSE
  LET p   == s1.ref[r].parent IN
  IF IsDeleted(s1, p) THEN done([s1 EXCEPT !.panic = TRUE, !.ipanic = TRUE], Err("EFAULT")) ELSE
  LET old == NameOf(s1, s1.ref[p].node, r) IN
  IF old = "" THEN done([s1 EXCEPT !.panic = TRUE, !.ipanic = TRUE], Err("EFAULT")) ELSE
  IF s1.ref[p].node = s1.ref[t].node /\ old = q.name THEN done(s1, R("Rrename")) ELSE
  LET pf  == s1.ref[p].file
      tf  == s1.ref[t].file
      nat == NatRename(s1, pf, old, tf, q.name)
      c   == BCall(Touch(Touch(s1, pf), tf), CallRec("RenameAt", pf, <<old, q.name>>, tf, ""), nat) IN
  IF c.res # "ok" THEN done(c.s, Err(c.res)) ELSE
  LET s2 == WorldRename(c.s, pf, old, tf, q.name)
      s3 == RenameChildTo(s2, p, old, t, q.name)
  IN done(s3, R("Rrename"))

\* DeleteFID returning the reply-relevant outcome.
DeleteFID(s, fid) ==
  IF ~Bound(s, fid) THEN [s |-> s, e |-> "EBADF"]
  ELSE LET r  == s.fidtab[fid]
           s1 == DecRef([s EXCEPT !.fidtab[fid] = Nil, !.cerr = "ok"], r)
       IN [s |-> s1, e |-> s1.cerr]

H_Tremove(s, q) ==
  IF ~Bound(s, q.fid) THEN Fin(s, Err("EBADF")) ELSE
  LET r  == s.fidtab[q.fid]
      s1 == IncRef(s, r)
      \* the body; e is the remove error
      body ==
        IF IsRoot(s1, r) THEN [s |-> s1, e |-> "EINVAL"]
        ELSE IF IsDeleted(s1, r) THEN [s |-> s1, e |-> "EINVAL"]
        ELSE LET p  == s1.ref[r].parent
                 nm == NameOf(s1, s1.ref[p].node, r) IN
             IF nm = "" THEN [s |-> [s1 EXCEPT !.panic = TRUE, !.ipanic = TRUE], e |-> "panic"]
             ELSE LET pf == s1.ref[p].file
                      c  == BCall(Touch(s1, pf), CallRec("UnlinkAt", pf, <<nm>>, 0, ""), NatUnlink(s1, pf, nm)) IN
                  IF c.res # "ok" THEN [s |-> c.s, e |-> c.res]
                  ELSE LET d  == At(c.s, pf)
                           s2 == [c.s EXCEPT !.dent[d][nm] = Nil]
                       IN [s |-> MarkChildDeleted(s2, s2.ref[p].node, nm), e |-> "ok"]
  IN IF body.s.panic THEN Fin(DecRef(body.s, r), Err("EFAULT")) ELSE
     LET dl == DeleteFID(body.s, q.fid)
         s3 == DecRef(dl.s, r)
     IN IF dl.s.panic THEN Fin(s3, Err("EFAULT"))
        ELSE IF dl.e # "ok" THEN Fin(s3, Err(dl.e))
        ELSE IF body.e # "ok" THEN Fin(s3, Err(body.e))
        ELSE Fin(s3, R("Rremove"))

H_Tclunk(s, q) ==
  \* clunkHandleXattr
  IF ~Bound(s, q.fid) THEN Fin(s, Err("EBADF")) ELSE
  LET r  == s.fidtab[q.fid]
      s1 == IncRef(s, r)
      x  == IF s1.ref[r].xop # "create" THEN [s |-> s1, e |-> "ok"]
            ELSE IF s1.ref[r].xbuf # s1.ref[r].xsize THEN [s |-> s1, e |-> "EINVAL"]
            ELSE LET f  == s1.ref[r].file
                     op == IF s1.ref[r].xflags = 2 /\ s1.ref[r].xsize = 0 THEN "RemoveXattr" ELSE "SetXattr"
                     c  == BCall(Touch(s1, f), [CallRec(op, f, <<>>, 0, s1.ref[r].xname) EXCEPT !.fenced = IsDeleted(s1, r)], "ok")
                 IN [s |-> c.s, e |-> c.res]
      s2 == DecRef(x.s, r) IN
  IF s2.panic THEN Fin(s2, Err("EFAULT")) ELSE
  LET dl == DeleteFID(s2, q.fid) IN
  IF dl.e # "ok" THEN Fin(dl.s, Err(dl.e))
  ELSE IF x.e # "ok" THEN Fin(dl.s, Err(x.e))
  ELSE Fin(dl.s, R("Rclunk"))

\* One read-class call on the fid's own File, guarded by a predicate.
H_Simple(s, q, op, guardErr, lenient, rt, arg) ==
  IF ~Bound(s, q.fid) THEN Fin(s, Err("EBADF")) ELSE
  LET r  == s.fidtab[q.fid]
      s1 == IncRef(s, r) IN
  IF guardErr # "ok" THEN Fin(DecRef(s1, r), Err(guardErr)) ELSE
  LET f == s1.ref[r].file
      c == BCall(Touch(s1, f), [CallRec(op, f, <<>>, 0, arg) EXCEPT !.len = lenient, !.fenced = IsDeleted(s1, r)], "ok") IN
  IF c.res # "ok" THEN Fin(DecRef(c.s, r), Err(c.res))
  ELSE Fin(DecRef(c.s, r), R(rt))

RefOf(s, q) == s.fidtab[q.fid]

G_Readlink(s, q) == LET r == RefOf(s, q) IN IF IsDeleted(s, r) \/ s.ref[r].mode # "sym" THEN "EINVAL" ELSE "ok"
G_Setattr(s, q)  == IF IsDeleted(s, RefOf(s, q)) THEN "EINVAL" ELSE "ok"
G_Readdir(s, q)  == LET r == RefOf(s, q) IN
                    IF IsDeleted(s, r) \/ ~IsDirRef(s, r) THEN "EINVAL"
                    ELSE IF ~s.ref[r].opened THEN "EINVAL" ELSE "ok"
G_Fsync(s, q)    == IF ~s.ref[RefOf(s, q)].opened THEN "EINVAL" ELSE "ok"

\* Tread / Twrite with the xattr sub-protocols.  q.n is the count / data
\* length, q.off the offset (small naturals).
H_Tread(s, q) ==
  IF ~Bound(s, q.fid) THEN Fin(s, Err("EBADF")) ELSE
  LET r == s.fidtab[q.fid]  x == s.ref[r] IN
  IF x.xop = "none" THEN
     H_Simple(s, q, "ReadAt",
              IF ~x.opened THEN "EINVAL" ELSE IF FMode(x.flags) = "WO" THEN "EPERM" ELSE "ok",
              FALSE, "Rread", "")
  ELSE IF x.xop = "walk" THEN
     IF q.n = 0 THEN Fin(s, IF x.xsize = 0 THEN Rn("Rread", 0) ELSE Err("EINVAL"))
     ELSE IF q.off + q.n > x.xbuf THEN Fin(s, Err("EINVAL"))
     ELSE Fin(s, Rn("Rread", q.n))
  ELSE Fin(s, Err("EINVAL"))

H_Twrite(s, q) ==
  IF ~Bound(s, q.fid) THEN Fin(s, Err("EBADF")) ELSE
  LET r == s.fidtab[q.fid]  x == s.ref[r] IN
  IF x.xop = "none" THEN
     H_Simple(s, q, "WriteAt",
              IF ~x.opened THEN "EINVAL" ELSE IF FMode(x.flags) = "RO" THEN "EPERM" ELSE "ok",
              FALSE, "Rwrite", "")
  ELSE IF x.xop = "create" THEN
     IF x.xbuf # q.off THEN Fin(s, Err("EINVAL"))
     ELSE IF q.off + q.n > x.xsize THEN Fin(s, Err("EINVAL"))
     ELSE Fin([s EXCEPT !.ref[r].xbuf = @ + q.n], Rn("Rwrite", q.n))
  ELSE Fin(s, Err("EINVAL"))

\* Txattrwalk: q.name = "" lists, otherwise gets; q.n is the size the backend reports.
H_Txattrwalk(s, q) ==
  IF ~Bound(s, q.fid) THEN Fin(s, Err("EBADF")) ELSE
  LET r  == s.fidtab[q.fid]
      s1 == IncRef(s, r) IN
  IF IsDeleted(s1, r) THEN Fin(DecRef(s1, r), Err("EINVAL")) ELSE
  LET f  == s1.ref[r].file
      op == IF q.xname = "" THEN "ListXattrs" ELSE "GetXattr"
      \* size of the value; a list is the NUL-joined, NUL-terminated names
      \* (empty list: 1 byte, one one-letter name: 2 bytes)
      sz == IF q.xname = "" THEN (IF q.n = 0 THEN 1 ELSE 2) ELSE q.n
      c  == BCall(Touch(s1, f), CallRec(op, f, <<>>, 0, q.xname), "ok") IN
  IF c.res # "ok" THEN Fin(DecRef(c.s, r), Err(c.res)) ELSE
  LET rec == [RefRec(f, "none", c.s.ref[r].node, Nil) EXCEPT
                 !.xop = "walk", !.xname = q.xname, !.xsize = sz, !.xbuf = sz,
                 !.xsrc = IF Dev("R1") THEN Nil ELSE r]
      s2  == NewRef(IF Dev("R1") THEN c.s ELSE IncRef(c.s, r), rec)
      s3  == InsertFID(s2, q.newfid, RefId(s2))
  IN Fin(DecRef(s3, r), Rn("Rxattrwalk", sz))

H_Txattrcreate(s, q) ==
  IF ~Bound(s, q.fid) THEN Fin(s, Err("EBADF")) ELSE
  LET r == s.fidtab[q.fid] IN
  IF IsDeleted(s, r) THEN Fin(s, Err("EINVAL")) ELSE
  Fin([s EXCEPT !.ref[r].xop = "create", !.ref[r].xname = q.xname, !.ref[r].xsize = q.n,
                !.ref[r].xbuf = 0, !.ref[r].xflags = q.xflags], R("Rxattrcreate"))

Handle(s, q) ==
  CASE q.t = "Twalk"        -> H_Twalk(s, q, FALSE)
    [] q.t = "Twalkgetattr" -> H_Twalk(s, q, TRUE)
    [] q.t = "Tattach"      -> H_Tattach(s, q)
    [] q.t = "Tauth"        -> Fin(s, Err("ENOSYS"))
    [] q.t = "Tflush"       -> Fin(s, R("Rflush"))
    [] q.t = "Tversion"     -> Fin(s, R("Rversion"))
    [] q.t = "Tclunk"       -> H_Tclunk(s, q)
    [] q.t = "Tremove"      -> H_Tremove(s, q)
    [] q.t = "Tlopen"       -> H_Tlopen(s, q)
    [] q.t = "Tlcreate"     -> H_Tlcreate(s, q, "Rlcreate")
    [] q.t = "Tucreate"     -> H_Tlcreate(s, q, "Rucreate")
    [] q.t = "Tmkdir"       -> H_Mk(s, q, "Mkdir", "dir", "Rmkdir")
    [] q.t = "Tumkdir"      -> H_Mk(s, q, "Mkdir", "dir", "Rumkdir")
    [] q.t = "Tsymlink"     -> H_Mk(s, q, "Symlink", "sym", "Rsymlink")
    [] q.t = "Tusymlink"    -> H_Mk(s, q, "Symlink", "sym", "Rusymlink")
    [] q.t = "Tmknod"       -> H_Mk(s, q, "Mknod", "reg", "Rmknod")
    [] q.t = "Tumknod"      -> H_Mk(s, q, "Mknod", "reg", "Rumknod")
    [] q.t = "Tlink"        -> H_Tlink(s, q)
    [] q.t = "Tunlinkat"    -> H_Tunlinkat(s, q)
    [] q.t = "Trenameat"    -> H_Trenameat(s, q)
    [] q.t = "Trename"      -> H_Trename(s, q)
    [] q.t = "Treadlink"    -> H_Simple(s, q, "Readlink", IF Bound(s, q.fid) THEN G_Readlink(s, q) ELSE "ok", FALSE, "Rreadlink", "")
    [] q.t = "Tgetattr"     -> H_Simple(s, q, "GetAttr", "ok", FALSE, "Rgetattr", "")
    [] q.t = "Tsetattr"     -> H_Simple(s, q, "SetAttr", IF Bound(s, q.fid) THEN G_Setattr(s, q) ELSE "ok", FALSE, "Rsetattr", "")
    [] q.t = "Treaddir"     -> H_Simple(s, q, "Readdir", IF Bound(s, q.fid) THEN G_Readdir(s, q) ELSE "ok", FALSE, "Rreaddir", "")
    [] q.t = "Tfsync"       -> H_Simple(s, q, "FSync", IF Bound(s, q.fid) THEN G_Fsync(s, q) ELSE "ok", FALSE, "Rfsync", "")
    [] q.t = "Tstatfs"      -> H_Simple(s, q, "StatFS", "ok", FALSE, "Rstatfs", "")
    [] q.t = "Tlock"        -> H_Simple(s, q, "Lock", "ok", FALSE, "Rlock", "")
    [] q.t = "Tread"        -> H_Tread(s, q)
    [] q.t = "Twrite"       -> H_Twrite(s, q)
    [] q.t = "Txattrwalk"   -> H_Txattrwalk(s, q)
    [] q.t = "Txattrcreate" -> H_Txattrcreate(s, q)

-----------------------------------------------------------------------------
(* Requests.  Every request record has the same fields.                     *)

Req(t) == [t |-> t, fid |-> 0, newfid |-> 0, fid2 |-> 0, names |-> <<>>, name |-> "",
           name2 |-> "", aname |-> "", afid |-> "NOFID", flags |-> "", n |-> 0, off |-> 0,
           xname |-> "", xflags |-> 0]

WalkNameLists == {<<>>} \cup {<<n>> : n \in AllNames}
                 \cup {<<n, m>> : n \in Names, m \in AllNames}
                 \cup {<<n, m>> : n \in BadNames, m \in Names}

\* Fid numbers a request may name: those of the configuration plus one that is
\* never bound by the configuration's requests when NOFID-like behaviour matters.
Requests ==
  UNION {
    IF "Twalk" \in Kinds THEN {[Req("Twalk") EXCEPT !.fid = f, !.newfid = g, !.names = ns] : f \in Fids, g \in Fids, ns \in WalkNameLists} ELSE {},
    IF "Twalkgetattr" \in Kinds THEN {[Req("Twalkgetattr") EXCEPT !.fid = f, !.newfid = g, !.names = ns] : f \in Fids, g \in Fids, ns \in WalkNameLists} ELSE {},
    IF "Tattach" \in Kinds THEN {[Req("Tattach") EXCEPT !.fid = f, !.aname = a, !.afid = af] : f \in Fids, a \in AttachNames, af \in {"NOFID"}} ELSE {},
    IF "TattachAuth" \in Kinds THEN {[Req("Tattach") EXCEPT !.fid = f, !.aname = "", !.afid = "1"] : f \in Fids} ELSE {},
    IF "Tauth" \in Kinds THEN {Req("Tauth")} ELSE {},
    IF "Tflush" \in Kinds THEN {Req("Tflush")} ELSE {},
    IF "Tversion" \in Kinds THEN {Req("Tversion")} ELSE {},
    IF "Tclunk" \in Kinds THEN {[Req("Tclunk") EXCEPT !.fid = f] : f \in Fids} ELSE {},
    IF "Tremove" \in Kinds THEN {[Req("Tremove") EXCEPT !.fid = f] : f \in Fids} ELSE {},
    IF "Tlopen" \in Kinds THEN {[Req("Tlopen") EXCEPT !.fid = f, !.flags = fl] : f \in Fids, fl \in {"RO", "WO", "RW", "WO+"}} ELSE {},
    UNION {IF k \in Kinds THEN {[Req(k) EXCEPT !.fid = f, !.name = n, !.flags = fl] : f \in Fids, n \in AllNames, fl \in {"RO+", "WO", "WO+"}} ELSE {} : k \in {"Tlcreate", "Tucreate"}},
    UNION {IF k \in Kinds THEN {[Req(k) EXCEPT !.fid = f, !.name = n] : f \in Fids, n \in AllNames} ELSE {}
           : k \in {"Tmkdir", "Tumkdir", "Tsymlink", "Tusymlink", "Tmknod", "Tumknod", "Tunlinkat"}},
    IF "Tlink" \in Kinds THEN {[Req("Tlink") EXCEPT !.fid = f, !.fid2 = g, !.name = n] : f \in Fids, g \in Fids, n \in AllNames} ELSE {},
    IF "Trenameat" \in Kinds THEN {[Req("Trenameat") EXCEPT !.fid = f, !.fid2 = g, !.name = n, !.name2 = m] : f \in Fids, g \in Fids, n \in AllNames, m \in AllNames} ELSE {},
    IF "Trename" \in Kinds THEN {[Req("Trename") EXCEPT !.fid = f, !.fid2 = g, !.name = n] : f \in Fids, g \in Fids, n \in AllNames} ELSE {},
    UNION {IF k \in Kinds THEN {[Req(k) EXCEPT !.fid = f] : f \in Fids} ELSE {}
           : k \in {"Treadlink", "Tgetattr", "Tsetattr", "Treaddir", "Tfsync", "Tstatfs", "Tlock"}},
    IF "Tread" \in Kinds THEN {[Req("Tread") EXCEPT !.fid = f, !.n = n, !.off = o] : f \in Fids, n \in 0..2, o \in 0..1} ELSE {},
    IF "Twrite" \in Kinds THEN {[Req("Twrite") EXCEPT !.fid = f, !.n = n, !.off = o] : f \in Fids, n \in 0..2, o \in 0..1} ELSE {},
    IF "Txattrwalk" \in Kinds THEN {[Req("Txattrwalk") EXCEPT !.fid = f, !.newfid = g, !.xname = x, !.n = n] : f \in Fids, g \in Fids, x \in {"", "user.x"}, n \in {0, 2}} ELSE {},
    IF "Txattrcreate" \in Kinds THEN {[Req("Txattrcreate") EXCEPT !.fid = f, !.xname = "user.x", !.n = n, !.xflags = fl] : f \in Fids, n \in {0, 2}, fl \in {0, 2}} ELSE {}
  }

NoFault == [at |-> 0, kind |-> "none"]
FaultChoices == {NoFault} \cup IF nfault < MaxFaults
                           THEN {[at |-> i, kind |-> k] : i \in 1..8, k \in FaultKinds} ELSE {}

-----------------------------------------------------------------------------
(* Transitions                                                              *)

Init ==
  /\ fidtab = [c \in Conns |-> [f \in Fids |-> Nil]]
  /\ ref = <<>>
  /\ node = <<NodeRec>>
  /\ otype = WorldTypes(InitWorld)
  /\ dent = WorldDents(InitWorld)
  /\ bf = <<>>
  /\ up = [c \in Conns |-> TRUE]
  /\ nfault = 0
  /\ depth = 0
  /\ log = <<>>

Commit(c, out, steprec) ==
  /\ fidtab' = [fidtab EXCEPT ![c] = out.s.fidtab]
  /\ ref' = out.s.ref
  /\ node' = out.s.node
  /\ otype' = out.s.otype
  /\ dent' = out.s.dent
  /\ bf' = out.s.bf
  /\ depth' = depth + 1
  /\ log' = Append(log, steprec)

(* Which fids / names a request mentions (used by the properties and by the  *)
(* replay annotations below).                                               *)
FidsOfReq(q) ==
  CASE q.t \in {"Tlink", "Trenameat", "Trename"} -> {q.fid, q.fid2}
    [] q.t \in {"Tauth", "Tflush", "Tversion", "Tattach", "Disconnect"} -> {}
    [] OTHER -> {q.fid}

NameArgs(q) ==
  CASE q.t \in {"Twalk", "Twalkgetattr"} -> {q.names[i] : i \in 1..Len(q.names)}
    [] q.t = "Trenameat" -> {q.name, q.name2}
    [] q.t \in {"Tlcreate", "Tucreate", "Tmkdir", "Tumkdir", "Tsymlink", "Tusymlink",
                "Tmknod", "Tumknod", "Tunlinkat", "Tlink", "Trename"} -> {q.name}
    [] q.t = "Tattach" -> {AttachSplit(q.aname)[i] : i \in 1..Len(AttachSplit(q.aname))}
    [] OTHER -> {}


\* Errnos the harness accepts for the step.  Where the statements of C04 (EBADF
\* for an unbound fid) and C09 (EINVAL first for an unsafe name) both apply,
\* either is accepted.
OkErr(c, q, reply) ==
  IF reply.t # "Rlerror" THEN {}
  ELSE IF NameArgs(q) \cap BadNames # {} /\ (\E f \in FidsOfReq(q) : fidtab[c][f] = Nil)
       THEN {reply.e, "EBADF", "EINVAL"}
  ELSE {reply.e}

\* The request names a fid whose path is fenced (C08 owns its outcome).
Fenced(c, q) == \E f \in FidsOfReq(q) : fidtab[c][f] # Nil /\ node[ref[fidtab[c][f]].node].deleted

Paths(s) == [f \in 1..Len(s.bf) |-> s.bf[f].path]

\* The path tree as seen from the server's root node (compared with a read-only
\* snapshot of the real tree after every replayed step).
RECURSIVE TreeSnap(_, _)
TreeSnap(nd, n) ==
  [ deleted |-> nd[n].deleted,
    kids |-> [x \in {x \in Names : nd[n].kids[x] # Nil} |-> TreeSnap(nd, nd[n].kids[x])],
    refs |-> [x \in {x \in Names : nd[n].crefs[x] # {}} |-> Cardinality(nd[n].crefs[x])] ]

Serve(c, q, fl) ==
  LET out == Handle(S0(c, fl), q) IN
  /\ fl.at # 0 => out.s.fired                 \* a fault that does not strike is no new behaviour
  /\ Len(out.s.bf) <= MaxFiles
  /\ nfault' = IF fl.at = 0 THEN nfault ELSE nfault + 1
  /\ UNCHANGED up
  /\ Commit(c, out, [c |-> c, req |-> q, calls |-> out.s.calls, reply |-> out.reply,
                     closes |-> out.s.closes, paths |-> Paths(out.s),
                     ipanic |-> out.s.ipanic, okerr |-> OkErr(c, q, out.reply), fen |-> Fenced(c, q),
                     tree |-> TreeSnap(out.s.node, 1)])

\* connState.stop(): drop every table reference.
Disconnect(c) ==
  LET fs == {f \in Fids : fidtab[c][f] # Nil}
      D[S \in SUBSET fs] == IF S = {} THEN S0(c, NoFault)
                            ELSE LET f == CHOOSE f \in S : TRUE
                                     sp == D[S \ {f}]
                                 IN DecRef([sp EXCEPT !.fidtab[f] = Nil], sp.fidtab[f])
      out == [s |-> D[fs], reply |-> R("closed")]
  IN /\ up[c]
     /\ up' = [up EXCEPT ![c] = FALSE]
     /\ UNCHANGED nfault
     /\ Commit(c, out, [c |-> c, req |-> Req("Disconnect"), calls |-> out.s.calls, reply |-> out.reply,
                        closes |-> out.s.closes, paths |-> Paths(out.s), ipanic |-> FALSE,
                        okerr |-> {}, fen |-> FALSE, tree |-> TreeSnap(out.s.node, 1)])

\* Probes: read-only requests evaluated on the state *after* a transition.
\* They make the abstract state observable from outside (is the fid bound, to
\* which File, is it open): the harness sends them after the last step of a
\* generated history and compares, so that an edge that leaves the wrong
\* state behind is caught even though TLC merges histories by state.
ProbeReqs == UNION {{[Req("Tgetattr") EXCEPT !.fid = f], [Req("Tfsync") EXCEPT !.fid = f]} : f \in Fids}
ProbeOrder == CHOOSE sq \in [1..Cardinality(ProbeReqs) -> ProbeReqs] : \A i, j \in DOMAIN sq : i # j => sq[i] # sq[j]
ProbesOn(c) ==    \* evaluated on the primed state (used in action constraints only)
  [i \in 1..Cardinality(ProbeReqs) |->
     LET q == ProbeOrder[i]
         out == Handle(SX(c, [at |-> 0, kind |-> "none"], fidtab', ref', node', otype', dent', bf'), q)
     IN [c |-> c, req |-> q, calls |-> out.s.calls, reply |-> out.reply, closes |-> out.s.closes,
         paths |-> <<>>, ipanic |-> FALSE, okerr |-> IF out.reply.t = "Rlerror" THEN {out.reply.e} ELSE {},
         fen |-> FALSE, tree |-> <<>>]]
\* Clone probes: for every bound fid (while a fid number is free) a zero-name walk onto the free
\* number followed by the clunk of the clone.  The pair leaves the state as it found it, but makes
\* the reference structure observable: which Files the clone's release closes (a clone that did
\* not take its parent reference closes the parent's File early).
Rec(c, q, out) == [c |-> c, req |-> q, calls |-> out.s.calls, reply |-> out.reply, closes |-> out.s.closes,
                   paths |-> <<>>, ipanic |-> FALSE, okerr |-> IF out.reply.t = "Rlerror" THEN {out.reply.e} ELSE {},
                   fen |-> FALSE, tree |-> <<>>]
CloneProbesOn(c) ==
  LET free == {g \in Fids : fidtab'[c][g] = Nil}
      bound == {f \in Fids : fidtab'[c][f] # Nil}
      Pair(f, g) == LET q1 == [Req("Twalk") EXCEPT !.fid = f, !.newfid = g]
                        o1 == Handle(SX(c, [at |-> 0, kind |-> "none"], fidtab', ref', node', otype', dent', bf'), q1)
                        q2 == [Req("Tclunk") EXCEPT !.fid = g]
                        o2 == Handle([o1.s EXCEPT !.calls = <<>>, !.closes = <<>>], q2)
                    IN <<Rec(c, q1, o1), Rec(c, q2, o2)>>
      RECURSIVE All(_)
      All(S) == IF S = {} THEN <<>> ELSE LET f == CHOOSE x \in S : \A y \in S : x <= y IN
                                          Pair(f, CHOOSE g \in free : \A h \in free : g <= h) \o All(S \ {f})
  IN IF free = {} \/ ~CloneProbes \/ Len(bf') + 1 > MaxFiles THEN <<>> ELSE All(bound)
RECURSIVE ProbesFor(_)
ProbesFor(cs) == IF cs = {} THEN <<>>
                 ELSE LET c == CHOOSE c \in cs : \A d \in cs : c <= d IN ProbesOn(c) \o CloneProbesOn(c) \o ProbesFor(cs \ {c})
ProbesAfter == ProbesFor({c \in Conns : up'[c]})

Next ==
  /\ depth < MaxDepth
  /\ \/ \E c \in Conns, q \in Requests, fl \in FaultChoices : up[c] /\ Serve(c, q, fl)
     \/ ("Disconnect" \in Kinds /\ \E c \in Conns : Disconnect(c))

Spec == Init /\ [][Next]_vars

-----------------------------------------------------------------------------
(* Properties.  They are stated over the state and the last step record,    *)
(* independently of how the handlers above are written.                     *)

Last == log[Len(log)]
HasLast == Len(log) > 0
Panicked == \E i \in 1..Len(log) : \E j \in 1..Len(log[i].calls) : log[i].calls[j].res = "panic"

Live(r) == ref[r].cnt > 0

\* ---- C05 -----------------------------------------------------------------
\* Reference conservation: a reference's count is exactly the table entries
\* naming it plus the live children holding it as parent (no request is in
\* flight between transitions).  Only asserted while no panic has torn an
\* update (DESIGN.md: R23).
RefConservation ==
  ~Panicked =>
  \A r \in 1..Len(ref) :
     ref[r].cnt = Cardinality({<<c, f>> \in Conns \X Fids : fidtab[c][f] = r})
                + Cardinality({x \in 1..Len(ref) : Live(x) /\ ref[x].parent = r})
                + Cardinality({x \in 1..Len(ref) : Live(x) /\ ref[x].xsrc = r})

ClosedAtMostOnce == \A f \in 1..Len(bf) : bf[f].closed <= 1
NoUseAfterClose  == \A f \in 1..Len(bf) : bf[f].uac = 0

\* A handle is closed iff no live reference uses it (exactly-once, no leak).
ClosedIffUnreferenced ==
  ~Panicked =>
  \A f \in 1..Len(bf) : (bf[f].closed = 0) <=> (\E r \in 1..Len(ref) : Live(r) /\ ref[r].file = f)

AllClosedAfterDisconnect ==
  (~Panicked /\ \A c \in Conns : ~up[c]) => \A f \in 1..Len(bf) : bf[f].closed = 1

\* ---- C04 -----------------------------------------------------------------
OpenAtMostOnce == \A f \in 1..Len(bf) : bf[f].opens <= 1

\* Replies to unbound fids; clunk/remove always unbind; binding only on success.
\* Action properties (checked as [][...]_vars).
UnboundIsEBADF ==
  \A c \in Conns : (log' # log /\ log'[Len(log')].c = c /\ log'[Len(log')].req.t # "Disconnect") =>
    LET st == log'[Len(log')]  q == st.req IN
    (\E f \in FidsOfReq(q) : fidtab[c][f] = Nil) =>
       /\ st.reply.t = "Rlerror"
       /\ st.reply.e \in (IF NameArgs(q) \cap BadNames # {} THEN {"EBADF", "EINVAL"} ELSE {"EBADF"})
       /\ st.calls = <<>>
       /\ fidtab'[c] = fidtab[c]

\* (A panic inside the backend aborts the handler before the unbind; the
\* statements of C04/C15 promise the unbind after *errors*.)
StepPanicked(st) == st.ipanic \/ \E j \in 1..Len(st.calls) : st.calls[j].res = "panic"
ClunkRemoveAlwaysUnbind ==
  log' # log =>
    LET st == log'[Len(log')]  q == st.req IN
    (q.t \in {"Tclunk", "Tremove"} /\ ~StepPanicked(st)) => fidtab'[st.c][q.fid] = Nil

\* newfid is (re)bound only by a successful walk / attach / xattrwalk / create.
BindOnlyOnSuccess ==
  log' # log =>
    LET st == log'[Len(log')]  q == st.req  c == st.c IN
    q.t # "Disconnect" =>
    \A f \in Fids :
      fidtab'[c][f] # fidtab[c][f] =>
         \/ st.reply.t # "Rlerror" /\
              \/ q.t \in {"Twalk", "Twalkgetattr", "Txattrwalk"} /\ f = q.newfid
              \/ q.t \in {"Tattach", "Tlcreate", "Tucreate"} /\ f = q.fid
         \/ q.t \in {"Tclunk", "Tremove"} /\ f = q.fid /\ fidtab'[c][f] = Nil

ErrorLeavesTableUnchanged ==
  log' # log =>
    LET st == log'[Len(log')]  q == st.req IN
    (st.reply.t = "Rlerror" /\ q.t \notin {"Tclunk", "Tremove", "Disconnect"} /\ ~StepPanicked(st))
        => fidtab'[st.c] = fidtab[st.c]

\* I/O only on a fid opened in a compatible mode (on the reference state before the step).
IOOnlyWhenOpenCompatible ==
  log' # log =>
    LET st == log'[Len(log')]  q == st.req  c == st.c IN
    (q.t \in {"Tread", "Twrite", "Treaddir", "Tfsync"} /\ fidtab[c][q.fid] # Nil /\ ref[fidtab[c][q.fid]].xop = "none") =>
      LET x == ref[fidtab[c][q.fid]] IN
      /\ ~x.opened => (st.reply = Err("EINVAL") /\ st.calls = <<>>)
      /\ (x.opened /\ q.t = "Tread" /\ FMode(x.flags) = "WO") => (st.reply = Err("EPERM") /\ st.calls = <<>>)
      /\ (x.opened /\ q.t = "Twrite" /\ FMode(x.flags) = "RO") => (st.reply = Err("EPERM") /\ st.calls = <<>>)

DirOpsRefusedOnOpenedDir ==
  log' # log =>
    LET st == log'[Len(log')]  q == st.req  c == st.c IN
    /\ (q.t \in {"Tlcreate", "Tucreate", "Tmkdir", "Tumkdir", "Tsymlink", "Tusymlink", "Tmknod", "Tumknod",
                 "Tunlinkat", "Tlink", "Trenameat"}
        /\ fidtab[c][q.fid] # Nil /\ ref[fidtab[c][q.fid]].opened /\ ref[fidtab[c][q.fid]].mode = "dir"
        /\ (q.t \in {"Tlink", "Trenameat"} => fidtab[c][q.fid2] # Nil))
         => (st.reply = Err("EINVAL") /\ st.calls = <<>>)
    /\ (q.t \in {"Twalk", "Twalkgetattr"} /\ fidtab[c][q.fid] # Nil /\ ref[fidtab[c][q.fid]].opened /\ q.fid = q.newfid)
         => (st.reply = Err("EBUSY") /\ st.calls = <<>>)
    /\ (q.t = "Tlopen" /\ fidtab[c][q.fid] # Nil /\ ~node[ref[fidtab[c][q.fid]].node].deleted
        /\ ~ref[fidtab[c][q.fid]].opened /\ ref[fidtab[c][q.fid]].mode = "dir" /\ FMode(q.flags) # "RO")
         => (st.reply = Err("EISDIR") /\ st.calls = <<>>)

NoAuth ==
  log' # log =>
    LET st == log'[Len(log')]  q == st.req IN
    /\ q.t = "Tauth" => st.reply = Err("ENOSYS")
    /\ (q.t = "Tattach" /\ q.afid # "NOFID") => (st.reply = Err("EINVAL") /\ st.calls = <<>>)

\* ---- C08 -----------------------------------------------------------------
\* Every live handle used by an unfenced reference is believed by the backend
\* to live where the object it was bound to actually is.
PathCoherence ==
  ~Panicked =>
  \A r \in 1..Len(ref) :
    (Live(r) /\ ~node[ref[r].node].deleted /\ ref[r].xop # "walk") =>
       ResolveFrom([otype |-> otype, dent |-> dent], 1, bf[ref[r].file].path) = bf[ref[r].file].obj

\* Child maps agree with the references' own view.
TreeConsistent ==
  ~Panicked =>
  /\ \A r \in 1..Len(ref) :
       (Live(r) /\ ref[r].parent # Nil /\ ~node[ref[r].node].deleted) =>
          \E n \in Names : /\ r \in node[ref[ref[r].parent].node].crefs[n]
                           /\ node[ref[ref[r].parent].node].kids[n] = ref[r].node
  /\ \A p \in 1..Len(node) : \A n \in Names : \A r \in node[p].crefs[n] :
       Live(r) /\ ref[r].parent # Nil /\ ref[ref[r].parent].node = p
  /\ \A p \in 1..Len(node) : node[p].deleted =>
       \A n \in Names : node[p].kids[n] # Nil => node[node[p].kids[n]].deleted

PathDependent == {"Walk", "WalkGetAttr", "Create", "Mkdir", "Symlink", "Link", "Mknod", "UnlinkAt", "RenameAt",
                  "Open", "SetAttr", "Readlink", "Readdir", "GetXattr", "ListXattrs"}

FencedNeverReachBackend ==
  HasLast => \A j \in 1..Len(Last.calls) :
     LET cl == Last.calls[j] IN
     (cl.fenced /\ cl.k \in PathDependent) => (cl.k \in {"Walk", "WalkGetAttr"} /\ cl.names = <<>>)

\* ---- C09 -----------------------------------------------------------------
NoUnsafeNameReachesBackend ==
  HasLast => \A j \in 1..Len(Last.calls) : \A i \in 1..Len(Last.calls[j].names) : Last.calls[j].names[i] \in Names

WalkOnlyThroughDirs ==
  HasLast => \A j \in 1..Len(Last.calls) :
     LET cl == Last.calls[j] IN
     /\ (cl.k \in {"Walk", "WalkGetAttr"} /\ cl.names # <<>>) => (cl.rdir /\ Len(cl.names) = 1)

UnsafeIsEINVALNoCall ==
  HasLast => ((NameArgs(Last.req) \cap BadNames # {} /\ Last.req.t # "Tattach")
               => (Last.reply.t = "Rlerror" /\ Last.reply.e \in {"EINVAL", "EBADF", "EBUSY"} /\
                   \A j \in 1..Len(Last.calls) : Last.calls[j].k \in {"Attach", "GetAttr", "Close"}))

\* ---- C15 -----------------------------------------------------------------
PanicIsEFAULT ==
  HasLast => ((\E j \in 1..Len(Last.calls) : Last.calls[j].res = "panic") => Last.reply = Err("EFAULT"))

\* Files obtained during a request that failed with a backend *error* are closed in that step.
\* (Not asserted once an earlier panic has torn a multi-step update: DESIGN.md section 7.)
PanickedEarlier == \E i \in 1..(Len(log) - 1) : \E j \in 1..Len(log[i].calls) : log[i].calls[j].res = "panic"
ObtainedFilesClosed ==
  (HasLast /\ ~PanickedEarlier) =>
    ((Last.reply.t = "Rlerror" /\ ~\E j \in 1..Len(Last.calls) : Last.calls[j].res = "panic") =>
       \A j \in 1..Len(Last.calls) :
          (Last.calls[j].nf # 0 /\ Last.calls[j].res = "ok") => bf[Last.calls[j].nf].closed = 1)

\* The internal assertions of the code ("expected name for", "parent deleted")
\* are never reached in sequential histories.
NoInternalPanic == (HasLast /\ ~PanickedEarlier) => ~Last.ipanic

UnboundIsEBADFP == [][UnboundIsEBADF]_vars
ClunkRemoveAlwaysUnbindP == [][ClunkRemoveAlwaysUnbind]_vars
BindOnlyOnSuccessP == [][BindOnlyOnSuccess]_vars
ErrorLeavesTableUnchangedP == [][ErrorLeavesTableUnchanged]_vars
IOOnlyWhenOpenCompatibleP == [][IOOnlyWhenOpenCompatible]_vars
DirOpsRefusedOnOpenedDirP == [][DirOpsRefusedOnOpenedDir]_vars
NoAuthP == [][NoAuth]_vars

=============================================================================
