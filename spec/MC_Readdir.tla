------------------------------ MODULE MC_Readdir ------------------------------
EXTENDS Readdir, Json, IOUtils, CSV
Dump == (done /\ "GEN_OUT" \in DOMAIN IOEnv) =>
          CSVWrite("%1$s", <<ToJson([n |-> n, backend |-> backend, fitseq |-> fitseq, calls |-> calls])>>, IOEnv.GEN_OUT)
=============================================================================
