------------------------------ MODULE MC_Frames ------------------------------
EXTENDS Frames, Json, IOUtils, CSV
Finished == ~up \/ i > Len(stream)
Dump == (Finished /\ "GEN_OUT" \in DOMAIN IOEnv) =>
          CSVWrite("%1$s", <<ToJson([stream |-> stream, replies |-> replies, consumed |-> consumed])>>, IOEnv.GEN_OUT)
ASSUME "VEC_SIZE" \in DOMAIN IOEnv =>
  \A c \in SizeCases : CSVWrite("%1$s", <<ToJson([msize |-> c[1], size |-> c[2], accept |-> Accept(c[2], c[1])])>>, IOEnv.VEC_SIZE)
=============================================================================
