----------------------------- MODULE PathLocks -----------------------------
(***************************************************************************)
(* The lock protocol that p9/server.go and p9/handlers.go wrap around      *)
(* backend calls, and the concurrency classes documented on the File       *)
(* interface (p9/file.go) as restated by property C07.                     *)
(*                                                                         *)
(* Locks: renameMu (one per Server) and opMu per path node, all Go         *)
(* sync.RWMutex, modelled WITH WRITER PREFERENCE (a blocked writer blocks  *)
(* new readers).  Path nodes: 1 = root, 2 = a, 3 = a/b, 4 = c.             *)
(*                                                                         *)
(* Every request kind is a *plan*: lock acquisitions in the code's order,  *)
(* then its backend calls (each may stay inside the backend for as long as *)
(* the environment likes), then the deferred releases.  Plans:             *)
(*   read(n)    safelyRead: renameMu R, opMu[n] R, call (read class, n)    *)
(*   open(n,f)  Tlopen on fid f of node n: the fid's openMu, then           *)
(*              safelyRead(n): Open.  (As found - R10 - there was no        *)
(*              openMu: two Tlopen on one fid both reached File.Open.)      *)
(*   write(n)   safelyWrite: renameMu R, opMu[n] W, call (write class, n)  *)
(*   unlink(n,e) safelyWrite(n) + opMu[e] W, UnlinkAt(n, entry e)          *)
(*   walk(n,e)  safelyRead(n): Walk(name) on n, then GetAttr on the new    *)
(*              child e while only n is locked                             *)
(*   clone(n)   safelyRead(parent(n)): Walk(nil) on n                      *)
(*   global     safelyGlobal: renameMu W, RenameAt, Renamed                *)
(*   remove(n)  safelyGlobal: UnlinkAt(parent(n), entry n)                 *)
(*   none(n)    no lock: StatFS, Lock, Close                               *)
(*   attach     no lock: Attach, GetAttr on the root                       *)
(* Deviations of these plans from the documented classes are named (R11,   *)
(* R18) and tolerated by ContractInv only while they are not in `Fixed'.   *)
(***************************************************************************)
EXTENDS Integers, Sequences, FiniteSets, TLC

CONSTANTS H,        \* handlers
          Plans,    \* plan names offered
          Loop,     \* TRUE: a handler serves request after request; FALSE: one request each
          Fixed

Dev(x) == x \notin Fixed

Nodes == 1..4
Parent(n) == CASE n = 1 -> 1 [] n = 2 -> 1 [] n = 3 -> 2 [] n = 4 -> 1
RM == 0                  \* lock id of renameMu; opMu[n] has lock id n
OM(n, f) == 10 * n + f   \* lock id of the openMu of fid f (1 or 2) on node n

\* A plan instance: [p |-> name, n |-> node, e |-> entry/child node]
\* Steps: <<"L", lock, mode>>  <<"C", kind, class, path, entry>>  <<"U">>
Call(k, cls, path, entry) == <<"C", k, cls, path, entry>>
Steps(pl) ==
  CASE pl.p = "read"   -> << <<"L", RM, "r">>, <<"L", pl.n, "r">>, Call("Read", "read", pl.n, 0), <<"U">>, <<"E">> >>
    [] pl.p = "open"   -> IF Dev("R10")
                          THEN << <<"L", RM, "r">>, <<"L", pl.n, "r">>, Call("Open", "read", pl.n, 0), <<"U">>, <<"E">> >>
                          ELSE << <<"L", OM(pl.n, pl.e), "w">>, <<"L", RM, "r">>, <<"L", pl.n, "r">>, Call("Open", "read", pl.n, 0), <<"U">>, <<"E">> >>
    [] pl.p = "write"  -> << <<"L", RM, "r">>, <<"L", pl.n, "w">>, Call("Write", "write", pl.n, 0), <<"U">>, <<"E">> >>
    [] pl.p = "unlink" -> << <<"L", RM, "r">>, <<"L", pl.n, "w">>, <<"L", pl.e, "w">>,
                             Call("UnlinkAt", "write", pl.n, pl.e), <<"U">>, <<"E">> >>
    \* Twalk/Twalkgetattr first look at the fid's open state under safelyRead of
    \* the fid's own node (the EBUSY check), release, and then walk
    [] pl.p = "walk"   -> << <<"L", RM, "r">>, <<"L", pl.n, "r">>, <<"U">>,
                             <<"L", RM, "r">>, <<"L", pl.n, "r">>, Call("Walk", "read", pl.n, 0),
                             Call("ChildGetAttr", "read", pl.e, 0), <<"U">>, <<"E">> >>
    \* a two-component walk root -> a -> a/b: one safelyRead per component, on the
    \* node being walked FROM
    [] pl.p = "walk2"  -> << <<"L", RM, "r">>, <<"L", 1, "r">>, <<"U">>,
                             <<"L", RM, "r">>, <<"L", 1, "r">>, Call("Walk", "read", 1, 0),
                             Call("ChildGetAttr", "read", 2, 0), <<"U">>,
                             <<"L", RM, "r">>, <<"L", 2, "r">>, Call("Walk", "read", 2, 0),
                             Call("ChildGetAttr", "read", 3, 0), <<"U">>, <<"E">> >>
    [] pl.p = "clone"  -> << <<"L", RM, "r">>, <<"L", pl.n, "r">>, <<"U">>,
                             <<"L", RM, "r">>, <<"L", Parent(pl.n), "r">>, Call("Clone", "read", pl.n, 0), <<"U">>, <<"E">> >>
    [] pl.p = "global" -> << <<"L", RM, "w">>, Call("RenameAt", "global", pl.n, 0), Call("Renamed", "global", pl.n, 0), <<"U">>, <<"E">> >>
    [] pl.p = "remove" -> << <<"L", RM, "w">>, Call("UnlinkAt", "write", Parent(pl.n), pl.n), <<"U">>, <<"E">> >>
    [] pl.p = "none"   -> << Call("None", "none", pl.n, 0), <<"E">> >>
    [] pl.p = "attach" -> << Call("Attach", "none", 1, 0), Call("ChildGetAttr", "read", 1, 0), <<"E">> >>

PlanSet ==
  UNION { IF "read" \in Plans   THEN {[p |-> "read", n |-> n, e |-> 0] : n \in Nodes} ELSE {},
          IF "open" \in Plans   THEN {[p |-> "open", n |-> n, e |-> f] : n \in Nodes, f \in {1, 2}} ELSE {},
          IF "write" \in Plans  THEN {[p |-> "write", n |-> n, e |-> 0] : n \in Nodes} ELSE {},
          IF "unlink" \in Plans THEN {[p |-> "unlink", n |-> Parent(e), e |-> e] : e \in {2, 3, 4}} ELSE {},
          IF "walk" \in Plans   THEN {[p |-> "walk", n |-> Parent(e), e |-> e] : e \in {2, 3, 4}} ELSE {},
          IF "walk2" \in Plans  THEN {[p |-> "walk2", n |-> 1, e |-> 3]} ELSE {},
          IF "clone" \in Plans  THEN {[p |-> "clone", n |-> n, e |-> 0] : n \in Nodes} ELSE {},
          IF "global" \in Plans THEN {[p |-> "global", n |-> n, e |-> 0] : n \in {1, 2}} ELSE {},
          IF "remove" \in Plans THEN {[p |-> "remove", n |-> n, e |-> 0] : n \in {2, 3}} ELSE {},
          IF "none" \in Plans   THEN {[p |-> "none", n |-> n, e |-> 0] : n \in {2}} ELSE {},
          IF "attach" \in Plans THEN {[p |-> "attach", n |-> 1, e |-> 0]} ELSE {} }

VARIABLES plan,     \* [H -> plan instance | none]
          pc,       \* [H -> index into Steps]
          inside,   \* [H -> TRUE while the current call step is inside the backend]
          wr,       \* [lock -> handler holding it for write | 0]
          rd,       \* [lock -> set of handlers holding it for read]
          ww,       \* [lock -> set of handlers waiting to write]
          rw,       \* [lock -> set of handlers blocked in RLock behind a writer]
          ba        \* [H -> {<<a, pc[a]>>}]: the calls that were inside the backend when the handler began
                    \*   (history, for the ordered rendezvous experiments of the harness)

vars == <<plan, pc, inside, wr, rd, ww, rw, ba>>
View == <<plan, pc, inside, wr, rd, ww, rw>>       \* for looping configurations, where ba is history only
Locks == {RM} \cup Nodes \cup {OM(n, f) : n \in Nodes, f \in {1, 2}}
NoPlan == [p |-> "-", n |-> 0, e |-> 0]

Init == /\ plan = [h \in H |-> NoPlan] /\ pc = [h \in H |-> 0] /\ inside = [h \in H |-> FALSE]
        /\ wr = [l \in Locks |-> 0] /\ rd = [l \in Locks |-> {}] /\ ww = [l \in Locks |-> {}]
        /\ rw = [l \in Locks |-> {}]
        /\ ba = [h \in H |-> {}]

Cur(h) == Steps(plan[h])[pc[h]]

Begin(h) == /\ pc[h] = 0 /\ (Loop \/ ba[h] # {<<0, 0>>})
            /\ \E pl \in PlanSet : plan' = [plan EXCEPT ![h] = pl]
            /\ pc' = [pc EXCEPT ![h] = 1]
            /\ ba' = [ba EXCEPT ![h] = {<<a, pc[a]>> : a \in {x \in H : x # h /\ pc[x] > 0 /\ inside[x]}}]
            /\ UNCHANGED <<inside, wr, rd, ww, rw>>

\* RLock: succeeds unless a writer holds or waits; otherwise the reader blocks
\* (BlockR) and is admitted when that writer unlocks - Go's RWMutex hands the
\* lock to every reader that queued up behind a writer before the next writer.
AcquireR(h) == /\ pc[h] > 0 /\ Cur(h)[1] = "L" /\ Cur(h)[3] = "r"
               /\ LET l == Cur(h)[2] IN
                  /\ wr[l] = 0 /\ ww[l] = {} /\ h \notin rw[l]
                  /\ rd' = [rd EXCEPT ![l] = @ \cup {h}]
               /\ pc' = [pc EXCEPT ![h] = @ + 1] /\ UNCHANGED <<plan, inside, wr, ww, rw, ba>>
BlockR(h) == /\ pc[h] > 0 /\ Cur(h)[1] = "L" /\ Cur(h)[3] = "r"
             /\ LET l == Cur(h)[2] IN
                /\ (wr[l] # 0 \/ ww[l] # {}) /\ h \notin rw[l]
                /\ rw' = [rw EXCEPT ![l] = @ \cup {h}]
             /\ UNCHANGED <<plan, pc, inside, wr, rd, ww, ba>>

\* Lock: announce (from then on new readers wait), then obtain when free.
WantW(h) == /\ pc[h] > 0 /\ Cur(h)[1] = "L" /\ Cur(h)[3] = "w"
            /\ LET l == Cur(h)[2] IN h \notin ww[l] /\ ww' = [ww EXCEPT ![l] = @ \cup {h}]
            /\ UNCHANGED <<rw, plan, pc, inside, wr, rd, ba>>
AcquireW(h) == /\ pc[h] > 0 /\ Cur(h)[1] = "L" /\ Cur(h)[3] = "w"
               /\ LET l == Cur(h)[2] IN
                  /\ h \in ww[l] /\ wr[l] = 0 /\ rd[l] = {}
                  /\ wr' = [wr EXCEPT ![l] = h] /\ ww' = [ww EXCEPT ![l] = @ \ {h}]
               /\ pc' = [pc EXCEPT ![h] = @ + 1] /\ UNCHANGED <<rw, plan, inside, rd, ba>>

Enter(h) == /\ pc[h] > 0 /\ Cur(h)[1] = "C" /\ ~inside[h]
            /\ inside' = [inside EXCEPT ![h] = TRUE] /\ UNCHANGED <<plan, pc, wr, rd, ww, rw, ba>>
Exit(h)  == /\ pc[h] > 0 /\ Cur(h)[1] = "C" /\ inside[h]
            /\ inside' = [inside EXCEPT ![h] = FALSE] /\ pc' = [pc EXCEPT ![h] = @ + 1]
            /\ UNCHANGED <<plan, wr, rd, ww, rw, ba>>

\* deferred unlocks: everything the handler holds.  Unlocking a write lock
\* admits every reader that blocked behind it.
Release(h) == /\ pc[h] > 0 /\ Cur(h)[1] = "U"
              /\ LET wl == {l \in Locks : wr[l] = h}              \* write locks released now
                      adm == UNION {rw[l] : l \in wl}              \* readers admitted
                  IN /\ wr' = [l \in Locks |-> IF wr[l] = h THEN 0 ELSE wr[l]]
                     /\ rd' = [l \in Locks |-> IF l \in wl THEN (rd[l] \ {h}) \cup rw[l] ELSE rd[l] \ {h}]
                     /\ rw' = [l \in Locks |-> IF l \in wl THEN {} ELSE rw[l]]
                     /\ pc' = [x \in H |-> IF x = h \/ x \in adm THEN pc[x] + 1 ELSE pc[x]]
              /\ UNCHANGED <<plan, inside, ww, ba>>
End(h) == /\ pc[h] > 0 /\ Cur(h)[1] = "E"
          /\ pc' = [pc EXCEPT ![h] = 0] /\ plan' = [plan EXCEPT ![h] = NoPlan]
          /\ ba' = IF Loop THEN ba ELSE [ba EXCEPT ![h] = {<<0, 0>>}]       \* marks "has run"
          /\ UNCHANGED <<inside, wr, rd, ww, rw>>

Step(h) == Begin(h) \/ AcquireR(h) \/ BlockR(h) \/ WantW(h) \/ AcquireW(h) \/ Enter(h) \/ Exit(h) \/ Release(h) \/ End(h)
\* One-shot configurations end in an explicit terminal step, so that TLC's
\* deadlock check reports exactly the states in which some handler is stuck.
Finished == ~Loop /\ (\A h \in H : ba[h] = {<<0, 0>>}) /\ UNCHANGED vars
Next == (\E h \in H : Step(h)) \/ Finished
\* Go's mutexes are starvation-free (a waiter is eventually served): strong
\* fairness for the acquisitions, weak fairness for the rest.
Spec == Init /\ [][Next]_vars /\ \A h \in H : WF_vars(Step(h)) /\ SF_vars(AcquireW(h)) /\ SF_vars(AcquireR(h))

-----------------------------------------------------------------------------
(* The contract of C07 *)

In(h) == pc[h] > 0 /\ Cur(h)[1] = "C" /\ inside[h]
K(h) == Cur(h)[2]   Cls(h) == Cur(h)[3]   Path(h) == Cur(h)[4]   Entry(h) == Cur(h)[5]

\* Known deviations of the lock plans from the documented classes:
\*   R11  Walk(nil) ("Clone") on a node runs under its PARENT's lock
\*   R18  GetAttr on a freshly walked child (or the attach root) runs without the child's lock
Deviant(h) == (K(h) = "Clone" /\ Dev("R11")) \/ (K(h) = "ChildGetAttr" /\ Dev("R18"))

Conflict(a, b) ==
  \/ Cls(a) = "global" /\ Cls(b) \in {"read", "write", "global"}
  \/ Cls(a) = "write" /\ Cls(b) \in {"read", "write"} /\ Path(a) = Path(b)
  \/ K(a) = "UnlinkAt" /\ Cls(b) \in {"read", "write"} /\ Path(b) = Entry(a)

ContractInv ==
  \A a, b \in H : (a # b /\ In(a) /\ In(b) /\ (Conflict(a, b) \/ Conflict(b, a))) => (Deviant(a) \/ Deviant(b))

\* File.Open is not entered twice on one File (one fid) at a time
OpenOnceInv == \A a, b \in H : (a # b /\ In(a) /\ In(b) /\ K(a) = "Open" /\ K(b) = "Open")
                                 => ~(plan[a].n = plan[b].n /\ plan[a].e = plan[b].e)

\* every handler that began eventually finishes when the backend lets calls return
Terminates == \A h \in H : (pc[h] > 0) ~> (pc[h] = 0)

LocksSane == \A l \in Locks : (wr[l] # 0 => rd[l] = {})

\* one-shot configurations (Loop = FALSE): every handler runs its request to the end
AllDone == <>(\A h \in H : ba[h] = {<<0, 0>>})
=============================================================================
