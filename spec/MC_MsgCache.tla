----------------------------- MODULE MC_MsgCache -----------------------------
EXTENDS MsgCache, Json, IOUtils, CSV
Dump == (Len(hist) = MaxLen /\ "GEN_OUT" \in DOMAIN IOEnv) =>
          CSVWrite("%1$s", <<ToJson([typ |-> typ, hist |-> hist])>>, IOEnv.GEN_OUT)
=============================================================================
