----------------------------- MODULE ClientFile -----------------------------
(***************************************************************************)
(* Client/server transparency (C03): for every File operation the client   *)
(* implements, which T-message carries it at each negotiated version, what *)
(* is rewritten on the way, and how backend errors come back.              *)
(* p9/client_file.go, p9/version.go, linux/errors.go ExtractErrno.         *)
(*                                                                         *)
(* The tables are checked against Wire.tla (a version only uses message    *)
(* types it defines) and enumerated into scenarios for harness/cmd/transp, *)
(* which runs p9.Client <-> recording proxy <-> p9.Server <-> recording    *)
(* backend.                                                                *)
(***************************************************************************)
EXTENDS Wire

Versions == 0..7

\* File operation -> arguments (name, kind).  Kinds: name names flags perm mode uid gid u32 u64 off bytes
\* len attrmask setattr lock str file
A(n, k) == <<n, k>>
Methods ==
  [ Walk        |-> << A("names", "names") >>,
    WalkGetAttr |-> << A("names", "names") >>,
    StatFS      |-> << >>,
    GetAttr     |-> << A("mask", "attrmask") >>,
    SetAttr     |-> << A("valid", "setattrmask"), A("attr", "setattr") >>,
    Open        |-> << A("flags", "flags") >>,
    ReadAt      |-> << A("len", "len"), A("offset", "off") >>,
    WriteAt     |-> << A("data", "bytes"), A("offset", "off") >>,
    FSync       |-> << >>,
    Lock        |-> << A("pid", "u32"), A("type", "u8"), A("flags", "u32"), A("start", "u64"), A("length", "u64"), A("client", "str") >>,
    Create      |-> << A("name", "name"), A("flags", "flags"), A("perm", "perm"), A("uid", "uid"), A("gid", "gid") >>,
    Mkdir       |-> << A("name", "name"), A("perm", "perm"), A("uid", "uid"), A("gid", "gid") >>,
    Symlink     |-> << A("target", "str"), A("name", "name"), A("uid", "uid"), A("gid", "gid") >>,
    Link        |-> << A("name", "name") >>,
    Mknod       |-> << A("name", "name"), A("mode", "mode"), A("major", "u32"), A("minor", "u32"), A("uid", "uid"), A("gid", "gid") >>,
    Rename      |-> << A("name", "name") >>,
    RenameAt    |-> << A("oldname", "name"), A("newname", "name") >>,
    UnlinkAt    |-> << A("name", "name"), A("flags", "u32") >>,
    Readdir     |-> << A("offset", "u64"), A("count", "u32") >>,
    Readlink    |-> << >>,
    GetXattr    |-> << A("name", "str") >>,
    ListXattrs  |-> << >>,
    Remove      |-> << >>,
    Close       |-> << >>,
    SetXattr    |-> << A("name", "str") >>,          \* fails locally with ENOSYS, nothing is sent
    RemoveXattr |-> << A("name", "str") >> ]

MethodNames == DOMAIN Methods
Local == {"SetXattr", "RemoveXattr"}

\* The T-messages an operation is carried by at version v, in order.
TTypes(m, v) ==
  CASE m = "Walk"        -> <<"Twalk">>
    [] m = "WalkGetAttr" -> IF v >= 2 THEN <<"Twalkgetattr">> ELSE <<"Twalk", "Tgetattr">>
    [] m = "StatFS"      -> <<"Tstatfs">>
    [] m = "GetAttr"     -> <<"Tgetattr">>
    [] m = "SetAttr"     -> <<"Tsetattr">>
    [] m = "Open"        -> <<"Tlopen">>
    [] m = "ReadAt"      -> <<"Tread">>
    [] m = "WriteAt"     -> <<"Twrite">>
    [] m = "FSync"       -> <<"Tfsync">>
    [] m = "Lock"        -> <<"Tlock">>
    [] m = "Create"      -> IF v >= 3 THEN <<"Tucreate">> ELSE <<"Tlcreate">>
    [] m = "Mkdir"       -> IF v >= 3 THEN <<"Tumkdir">> ELSE <<"Tmkdir">>
    [] m = "Symlink"     -> IF v >= 3 THEN <<"Tusymlink">> ELSE <<"Tsymlink">>
    [] m = "Mknod"       -> IF v >= 3 THEN <<"Tumknod">> ELSE <<"Tmknod">>
    [] m = "Link"        -> <<"Tlink">>
    [] m = "Rename"      -> <<"Trename">>
    [] m = "RenameAt"    -> <<"Trenameat">>
    [] m = "UnlinkAt"    -> <<"Tunlinkat">>
    [] m = "Readdir"     -> <<"Treaddir">>
    [] m = "Readlink"    -> <<"Treadlink">>
    [] m = "GetXattr"    -> <<"Txattrwalk", "Tread", "Tclunk">>
    [] m = "ListXattrs"  -> <<"Txattrwalk", "Tread", "Tclunk">>
    [] m = "Remove"      -> <<"Tremove">>
    [] m = "Close"       -> <<"Tclunk">>
    [] m \in Local       -> << >>

\* An operation carried by several T-messages binds a new fid with the first one; every later
\* message names that fid - the file walked to, not the one the operation started from.
FollowUp(m, v) == [i \in 2..Len(TTypes(m, v)) |-> [msg |-> TTypes(m, v)[i], field |-> "fid", equals |-> "newfid of message 1"]]
ASSUME \A m \in MethodNames : \A v \in Versions : Len(TTypes(m, v)) > 1 => TTypes(m, v)[1] \in {"Twalk", "Txattrwalk"}

\* The backend operation that must be invoked on the File the handle was derived from
\* (Rename/Remove arrive on the parent directory's File under the entry's current name).
BackendOp(m) ==
  CASE m = "Rename" -> "RenameAt" [] m = "Remove" -> "UnlinkAt" [] m = "WalkGetAttr" -> "Walk"
    [] m \in Local -> "" [] OTHER -> m

\* documented rewriting
UidTravels(v) == v >= 3          \* below version 3 uid and gid are dropped (backend sees NoUID / NoGID)
PermMask == "07777"

\* a version uses only message types it defines
ASSUME \A m \in MethodNames : \A v \in Versions : \A i \in 1..Len(TTypes(m, v)) :
          /\ TTypes(m, v)[i] \in Types
          /\ MinVersion(TTypes(m, v)[i]) <= v

-----------------------------------------------------------------------------
(* Errors: what the backend returns -> the errno the caller gets *)

Errnos == {"ENOENT", "EEXIST", "ENOTEMPTY", "EPERM", "EACCES", "EINVAL", "ENOSPC", "EIO", "ENODATA", "EAGAIN", "ERANGE"}
Shapes == {"linux", "syscall", "wrap1", "wrap3", "patherror", "join", "join-syscall", "join-patherror", "multiw", "multiw-second",
           "syscallerror", "os.ErrNotExist", "os.ErrExist", "os.ErrPermission", "os.ErrInvalid", "opaque", "wrapped-opaque"}
\* linux: linux.Errno(e); syscall: syscall.Errno(e); wrapN: fmt.Errorf("%w") N times around linux.Errno(e);
\* patherror: &os.PathError{Err: syscall.Errno(e)}; join: errors.Join(errors.New("x"), linux.Errno(e));
\* join-syscall / join-patherror: a syscall.Errno (inside an *os.PathError inside %w) under errors.Join - the shape in
\* which fidRef.DecRef hands a backend's Close error to the reply; multiw / multiw-second: fmt.Errorf with two %w, the
\* errno under the first (inside an *os.LinkError) or the second; syscallerror: os.NewSyscallError
ExpectedErrno(shape, e) ==
  CASE shape \in {"linux", "syscall", "wrap1", "wrap3", "patherror", "join", "join-syscall", "join-patherror", "multiw",
                  "multiw-second", "syscallerror"} -> e
    [] shape = "os.ErrNotExist" -> "ENOENT" [] shape = "os.ErrExist" -> "EEXIST"
    [] shape = "os.ErrPermission" -> "EACCES" [] shape = "os.ErrInvalid" -> "EINVAL"
    [] shape \in {"opaque", "wrapped-opaque"} -> "EIO"

-----------------------------------------------------------------------------
(* Scenario grid *)

Classes(kind) ==
  CASE kind = "name" -> {"fp", "one", "len255", "nul", "high", "utf8", "slashless-dots"}
    [] kind = "str" -> {"fp", "one", "len255", "nul", "high", "utf8", "slashless-dots", "len32767", "len32768"}
    [] kind = "names" -> {"fp", "empty", "one", "two", "five"}
    [] kind = "flags" -> {"fp", "ro", "wo", "rw", "extra", "allbits"}
    [] kind = "perm"  -> {"fp", "zero", "0777", "setuid", "setgid", "sticky", "typebits", "allones"}
    [] kind = "mode"  -> {"fp", "chr", "blk", "fifo", "sock", "allones"}
    [] kind \in {"uid", "gid"} -> {"fp", "zero", "nouid", "max31"}
    [] kind \in {"u32", "u8"} -> {"fp", "zero", "one", "msb", "max"}
    [] kind \in {"u64", "off"} -> {"fp", "zero", "one", "past32", "msb", "max63"}
    [] kind = "len" -> {"fp", "zero", "one"}
    [] kind = "bytes" -> {"fp", "empty", "one", "allbytes"}
    [] kind = "attrmask" -> {"fp", "none", "all", "single"}
    [] kind = "setattrmask" -> {"fp", "none", "all", "single"}
    [] kind = "setattr" -> {"fp", "zero", "max"}

\* one scenario = [m, v, kind, idx, class, shape, errno]
Scen(m, v, k, i, c, s, e) == [m |-> m, v |-> v, kind |-> k, idx |-> i, class |-> c, shape |-> s, errno |-> e,
                              ttypes |-> TTypes(m, v), op |-> BackendOp(m), uid |-> UidTravels(v)]

OkScenarios == {Scen(m, v, "ok", 0, "fp", "", "") : m \in MethodNames, v \in Versions}
ArgScenarios == UNION {UNION {UNION {{Scen(m, v, "arg", i, c, "", "") : c \in Classes(Methods[m][i][2]) \ {"fp"}}
                                     : i \in 1..Len(Methods[m])} : m \in MethodNames \ Local} : v \in {0, 2, 7}}
ResScenarios == {Scen(m, v, "res", 0, c, "", "") : m \in MethodNames \ Local, v \in {0, 7}, c \in {"zero", "max", "odd"}}
ErrScenarios == {Scen(m, v, "err", 0, "", s, e) : m \in MethodNames \ Local, v \in {0, 7}, s \in Shapes, e \in {"ENOTEMPTY"}}
                \cup {Scen(m, 7, "err", 0, "", s, e) : m \in {"Mkdir", "GetAttr", "UnlinkAt", "ReadAt"}, s \in Shapes, e \in Errnos}
=============================================================================
