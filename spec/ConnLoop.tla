------------------------------ MODULE ConnLoop ------------------------------
(***************************************************************************)
(* One connection of the p9 server: the receive hand-off between handler   *)
(* goroutines, tag bookkeeping, Tflush, and the send lock                  *)
(* (p9/server.go handleRequest / handleRequests / StartTag / ClearTag /    *)
(* WaitTag / stop, p9/handlers.go tflush.handle, p9/transport.go send).    *)
(*                                                                         *)
(* One action per step of handleRequest():                                 *)
(*   Enter     recvIdle++, start waiting for recvMu                        *)
(*   LockRecv  take recvMu, recvIdle--, leave if recvShutdown              *)
(*   Recv      read one frame (or observe the end of the stream)           *)
(*   Hand      spawn a successor iff recvIdle = 0, release recvMu          *)
(*   BadReply  protocol error: Rlerror under sendMu, no tag bookkeeping    *)
(*   Start     StartTag (a tag already active: drop the request)           *)
(*   Call      the handler enters the backend (gate) / Tflush = WaitTag    *)
(*   Return    the backend call returns (after the harness released it)    *)
(*   Clear     ClearTag - BEFORE the reply is sent                         *)
(*   SendLock / Write(part) / SendUnlock   the reply frame under sendMu    *)
(* Stimuli (the harness): Deliver(r), Release(r), Hangup.                  *)
(*                                                                         *)
(* The backend is abstract: a request of kind "op" makes exactly one       *)
(* backend call that blocks until released.                                *)
(***************************************************************************)
EXTENDS Integers, Sequences, FiniteSets, TLC

CONSTANTS
  Reqs,        \* request ids 1..N in the order the peer may send them
  Tag,         \* [Reqs -> tag]
  Kind,        \* [Reqs -> "op" | "flush" | "bad"]       ("bad": undecodable body, answered Rlerror)
  Old,         \* [Reqs -> tag]  (for flushes: the tag named)
  G,           \* goroutine ids, e.g. 1..4
  Fixed        \* findings repaired: "R2" = a flush of its own tag does not wait

Dev(x) == x \notin Fixed

VARIABLES
  inq,        \* frames written by the peer and not yet read
  sent,       \* requests the peer has delivered
  eof,        \* the peer has ended the stream
  gs,         \* [G -> goroutine state]
  msg,        \* [G -> request held | 0]
  recvMu,     \* holder | 0
  recvIdle,   \* counter
  shutdown,   \* recvShutdown
  active,     \* tags with a request being handled (connState.tags)
  waiting,    \* [G -> tag a flush handler waits for | -1]
  sendMu,     \* holder | 0
  gated,      \* requests inside the backend, blocked at the gate
  released,   \* requests whose gate the harness has opened
  out,        \* write calls on the wire: <<request, part>>
  pre,        \* [Reqs -> replies completely on the wire when the request was delivered]
  cover,      \* [Reqs -> requests that were executing (inside the backend) when this flush ran WaitTag]
  last        \* label of the last step (for the edge dump; not part of the VIEW)

vars == <<inq, sent, eof, gs, msg, recvMu, recvIdle, shutdown, active, waiting, sendMu, gated, released, out, pre, cover, last>>
View == <<inq, sent, eof, gs, msg, recvMu, recvIdle, shutdown, active, waiting, sendMu, gated, released, out, pre, cover>>

NoTag == -1

Init ==
  /\ inq = <<>> /\ sent = {} /\ eof = FALSE
  /\ gs = [g \in G |-> IF g = 1 THEN "enter" ELSE "none"]
  /\ msg = [g \in G |-> 0]
  /\ recvMu = 0 /\ recvIdle = 0 /\ shutdown = FALSE
  /\ active = {} /\ waiting = [g \in G |-> NoTag]
  /\ sendMu = 0 /\ gated = {} /\ released = {}
  /\ out = <<>>
  /\ pre = [r \in Reqs |-> {}]
  /\ cover = [r \in Reqs |-> {}]
  /\ last = [a |-> "init", g |-> 0, r |-> 0]

L(a, g, r) == last' = [a |-> a, g |-> g, r |-> r]

-----------------------------------------------------------------------------
(* Stimuli *)

Deliver(r) ==
  /\ ~eof /\ r \notin sent
  /\ \A q \in Reqs : q < r => q \in sent            \* the peer sends in order
  /\ inq' = Append(inq, r) /\ sent' = sent \cup {r}
  /\ pre' = [pre EXCEPT ![r] = {q \in Reqs : \E i \in 1..Len(out) : out[i] = <<q, "tail">>}]
  /\ L("Deliver", 0, r)
  /\ UNCHANGED <<eof, gs, msg, recvMu, recvIdle, shutdown, active, waiting, sendMu, gated, released, out, cover>>

Release(r) ==
  /\ r \in gated /\ r \notin released
  /\ released' = released \cup {r}
  /\ L("Release", 0, r)
  /\ UNCHANGED <<inq, sent, eof, gs, msg, recvMu, recvIdle, shutdown, active, waiting, sendMu, gated, out, pre, cover>>

Hangup ==
  /\ ~eof /\ eof' = TRUE
  /\ L("Hangup", 0, 0)
  /\ UNCHANGED <<inq, sent, gs, msg, recvMu, recvIdle, shutdown, active, waiting, sendMu, gated, released, out, pre, cover>>

-----------------------------------------------------------------------------
(* handleRequest, step by step *)

Enter(g) ==
  /\ gs[g] = "enter"
  /\ recvIdle' = recvIdle + 1
  /\ gs' = [gs EXCEPT ![g] = "lockwait"]
  /\ L("Enter", g, 0)
  /\ UNCHANGED <<inq, sent, eof, msg, recvMu, shutdown, active, waiting, sendMu, gated, released, out, pre, cover>>

LockRecv(g) ==
  /\ gs[g] = "lockwait" /\ recvMu = 0
  /\ recvIdle' = recvIdle - 1
  /\ IF shutdown
     THEN gs' = [gs EXCEPT ![g] = "exit"] /\ recvMu' = 0
     ELSE gs' = [gs EXCEPT ![g] = "recv"] /\ recvMu' = g
  /\ L("LockRecv", g, 0)
  /\ UNCHANGED <<inq, sent, eof, msg, shutdown, active, waiting, sendMu, gated, released, out, pre, cover>>

Recv(g) ==
  /\ gs[g] = "recv"
  /\ \/ /\ inq # <<>>
        /\ msg' = [msg EXCEPT ![g] = Head(inq)] /\ inq' = Tail(inq)
        /\ gs' = [gs EXCEPT ![g] = "hand"]
        /\ UNCHANGED <<shutdown, recvMu, pre, cover>>
     \/ /\ inq = <<>> /\ eof                       \* ConnError: stop serving
        /\ shutdown' = TRUE /\ recvMu' = 0
        /\ gs' = [gs EXCEPT ![g] = "exit"]
        /\ UNCHANGED <<msg, inq, pre, cover>>
  /\ L("Recv", g, 0)
  /\ UNCHANGED <<sent, eof, recvIdle, active, waiting, sendMu, gated, released, out, pre, cover>>

FreeG == {h \in G : gs[h] = "none"}

\* "Ensure that another goroutine is available to receive", then unlock.
Hand(g) ==
  /\ gs[g] = "hand"
  /\ IF recvIdle = 0
     THEN /\ FreeG # {}                                    \* (bounded pool of the model)
          /\ LET h == CHOOSE h \in FreeG : \A k \in FreeG : h <= k
             IN gs' = [gs EXCEPT ![g] = IF Kind[msg[g]] = "bad" THEN "badlock" ELSE "start", ![h] = "enter"]
     ELSE gs' = [gs EXCEPT ![g] = IF Kind[msg[g]] = "bad" THEN "badlock" ELSE "start"]
  /\ recvMu' = 0
  /\ L("Hand", g, msg[g])
  /\ UNCHANGED <<inq, sent, eof, msg, recvIdle, shutdown, active, waiting, sendMu, gated, released, out, pre, cover>>

Start(g) ==
  /\ gs[g] = "start"
  /\ IF Tag[msg[g]] \in active
     THEN /\ gs' = [gs EXCEPT ![g] = "enter"]             \* "no valid tag": dropped
          /\ msg' = [msg EXCEPT ![g] = 0]
          /\ UNCHANGED active
     ELSE /\ active' = active \cup {Tag[msg[g]]}
          /\ gs' = [gs EXCEPT ![g] = "call"]
          /\ UNCHANGED msg
  /\ L("Start", g, msg[g])
  /\ UNCHANGED <<inq, sent, eof, recvMu, recvIdle, shutdown, waiting, sendMu, gated, released, out, pre, cover>>

\* The handler: an "op" enters the backend; a flush does WaitTag(OldTag).
Call(g) ==
  /\ gs[g] = "call"
  /\ LET r == msg[g] IN
     IF Kind[r] = "op"
     THEN /\ gated' = gated \cup {r}
          /\ gs' = [gs EXCEPT ![g] = "inside"]
          /\ UNCHANGED waiting
     ELSE \* tflush.handle: cs.WaitTag(t.OldTag)
          /\ IF Old[r] \in active /\ ~(Old[r] = Tag[r] /\ ~Dev("R2"))
             THEN waiting' = [waiting EXCEPT ![g] = Old[r]] /\ gs' = [gs EXCEPT ![g] = "waittag"]
             ELSE waiting' = waiting /\ gs' = [gs EXCEPT ![g] = "clear"]
          /\ UNCHANGED gated
  /\ cover' = IF Kind[msg[g]] = "flush"
              THEN [cover EXCEPT ![msg[g]] = {q \in gated : Tag[q] = Old[msg[g]]}] ELSE cover
  /\ L("Call", g, msg[g])
  /\ UNCHANGED <<inq, sent, eof, msg, recvMu, recvIdle, shutdown, active, sendMu, released, out, pre>>

Return(g) ==
  /\ gs[g] = "inside" /\ msg[g] \in released
  /\ gated' = gated \ {msg[g]}
  /\ gs' = [gs EXCEPT ![g] = "clear"]
  /\ L("Return", g, msg[g])
  /\ UNCHANGED <<inq, sent, eof, msg, recvMu, recvIdle, shutdown, active, waiting, sendMu, released, out, pre, cover>>

\* A flush handler whose channel was closed resumes.
Wake(g) ==
  /\ gs[g] = "waittag" /\ waiting[g] = NoTag
  /\ gs' = [gs EXCEPT ![g] = "clear"]
  /\ L("Wake", g, msg[g])
  /\ UNCHANGED <<inq, sent, eof, msg, recvMu, recvIdle, shutdown, active, waiting, sendMu, gated, released, out, pre, cover>>

\* ClearTag: remove the tag, close its channel (wakes every waiter).
Clear(g) ==
  /\ gs[g] = "clear"
  /\ LET t == Tag[msg[g]] IN
     /\ active' = active \ {t}
     /\ waiting' = [h \in G |-> IF waiting[h] = t THEN NoTag ELSE waiting[h]]
  /\ gs' = [gs EXCEPT ![g] = "sendlock"]
  /\ L("Clear", g, msg[g])
  /\ UNCHANGED <<inq, sent, eof, msg, recvMu, recvIdle, shutdown, sendMu, gated, released, out, pre, cover>>

SendLock(g) ==
  /\ gs[g] \in {"sendlock", "badlock"} /\ sendMu = 0
  /\ sendMu' = g
  /\ gs' = [gs EXCEPT ![g] = "w1"]
  /\ L("SendLock", g, msg[g])
  /\ UNCHANGED <<inq, sent, eof, msg, recvMu, recvIdle, shutdown, active, waiting, gated, released, out, pre, cover>>

\* A reply frame is written as up to three pieces (header, fixed part, payload).
Write(g) ==
  /\ gs[g] \in {"w1", "w2"}
  /\ out' = Append(out, <<msg[g], IF gs[g] = "w1" THEN "head" ELSE "tail">>)
  /\ gs' = [gs EXCEPT ![g] = IF gs[g] = "w1" THEN "w2" ELSE "sendunlock"]
  /\ L("Write", g, msg[g])
  /\ UNCHANGED <<inq, sent, eof, msg, recvMu, recvIdle, shutdown, active, waiting, sendMu, gated, released, pre, cover>>

SendUnlock(g) ==
  /\ gs[g] = "sendunlock"
  /\ sendMu' = 0
  /\ gs' = [gs EXCEPT ![g] = "enter"]
  /\ msg' = [msg EXCEPT ![g] = 0]
  /\ L("SendUnlock", g, msg[g])
  /\ UNCHANGED <<inq, sent, eof, recvMu, recvIdle, shutdown, active, waiting, gated, released, out, pre, cover>>

Internal(g) == Enter(g) \/ LockRecv(g) \/ Recv(g) \/ Hand(g) \/ Start(g) \/ Call(g) \/ Return(g)
               \/ Wake(g) \/ Clear(g) \/ SendLock(g) \/ Write(g) \/ SendUnlock(g)

Stimulus == (\E r \in Reqs : Deliver(r) \/ Release(r)) \/ Hangup

Next == Stimulus \/ \E g \in G : Internal(g)

Spec == Init /\ [][Next]_vars /\ \A g \in G : WF_vars(Internal(g))

-----------------------------------------------------------------------------
(* Properties *)

Accepted(r) == \E i \in 1..Len(out) : out[i][1] = r
HeadsOf(r) == {i \in 1..Len(out) : out[i] = <<r, "head">>}

\* C06: at most one reply per request, written as one contiguous frame.
AtMostOneReply == \A r \in Reqs : Cardinality(HeadsOf(r)) <= 1
Contiguous == \A i \in 1..Len(out) : out[i][2] = "head" =>
                 (i = Len(out) \/ out[i + 1] = <<out[i][1], "tail">>)
NoUnsolicitedReply == \A i \in 1..Len(out) : out[i][1] \in sent

\* at most one goroutine is between LockRecv and Hand (mid-frame on the read side)
OneReceiver == Cardinality({g \in G : gs[g] \in {"recv", "hand"}}) <= 1 /\ (recvMu # 0 <=> \E g \in G : gs[g] \in {"recv", "hand"})

\* Intake never stops while the connection is up: some goroutine is receiving
\* or on its way to (a blocked handler never blocks the connection).
ReceiverExists ==
  ~shutdown => \E g \in G : gs[g] \in {"enter", "lockwait", "recv", "hand"}

\* C14: once a request is executing (it is inside the backend when the flush
\* handler looks at its tag), the Rflush is on the wire only after that
\* request has left the backend.  (A flush that overtakes a request which has
\* been received but has not begun executing is answered at once: the
\* statement of C14 starts "once a request is executing".)
FlushAfterStop ==
  \A f \in Reqs : (Kind[f] = "flush" /\ HeadsOf(f) # {}) => cover[f] \cap gated = {}

\* a flush never cancels or duplicates the flushed request's reply: covered by
\* AtMostOneReply together with the liveness property below.

\* Liveness: every delivered request that is not dropped for a duplicate tag
\* and whose gate is opened is eventually answered; a flush of an idle,
\* answered or its own tag is answered without any release.
\* A request may be dropped ("no valid tag") only if its tag was still in use:
\* an earlier request with the same tag whose reply was not yet completely on
\* the wire when this one was sent.  Re-using a tag right after its reply is legal.
Dropped(r) == \E q \in Reqs : q < r /\ Tag[q] = Tag[r] /\ q \notin pre[r]
\* The operations a request has to wait for: itself (an operation sits in the
\* backend until released), or - for a flush - whatever the requests it names wait for.
RECURSIVE Deps(_)
Deps(r) == IF Kind[r] = "op" THEN {r}
           ELSE IF Kind[r] = "flush" THEN UNION {Deps(q) : q \in {q \in Reqs : q < r /\ Tag[q] = Old[r]}}
           ELSE {}
EventuallyAnswered ==
  \A r \in Reqs :
    (r \in sent /\ ~Dropped(r) /\ Deps(r) \subseteq released) ~> (Accepted(r) \/ eof)

\* After the stream ends and every gate is open, every goroutine exits (Handle returns).
HandleReturns ==
  (eof /\ \A r \in sent : Kind[r] = "op" => r \in released) ~> (\A g \in G : gs[g] \in {"exit", "none"})

=============================================================================
