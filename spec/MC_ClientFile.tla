---------------------------- MODULE MC_ClientFile ----------------------------
(* Checks ClientFile.tla's tables against Wire.tla (ASSUMEs) and writes the   *)
(* scenario grid to $GEN_OUT for harness/cmd/transp.                          *)
EXTENDS ClientFile, IOUtils, CSV

All == OkScenarios \cup ArgScenarios \cup ResScenarios \cup ErrScenarios
ASSUME "GEN_OUT" \in DOMAIN IOEnv =>
  \A s \in All : CSVWrite("%1$s", <<ToJson([s EXCEPT !.errno = IF s.kind = "err" THEN ExpectedErrno(s.shape, s.errno) \o "<-" \o s.errno ELSE ""])>>, IOEnv.GEN_OUT)
ASSUME PrintT(<<"scenarios", Cardinality(All)>>)
=============================================================================
