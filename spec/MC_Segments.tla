----------------------------- MODULE MC_Segments -----------------------------
(* All deliveries of the stream with at most MaxCuts cut points, for the      *)
(* available lengths Lens; each is checked (Independent) and written out.     *)
EXTENDS Segments, FiniteSetsExt, SequencesExt, Json, IOUtils, CSV

CONSTANTS MaxCuts, Lens, Stream

\* Twrite (fixed 16, payload 5), Tclunk (fixed 4), Tgetattr (fixed 12): sizes 28, 11, 19
MCFrames == << <<16, 5, "msg">>, <<4, 0, "msg">>, <<12, 0, "msg">> >>
\* stream B: a frame of an unregistered type with a 33-byte body (rejected, body discarded), then Twrite, Tgetattr: 40 + 28 + 19
MCFramesB == << <<33, 0, "skip">>, <<16, 5, "msg">>, <<12, 0, "msg">> >>

ToChunks(S, len) ==
  LET c == SetToSortSeq(S, <) 
      n == Len(c) IN
  [i \in 1..(n + 1) |-> (IF i = n + 1 THEN len ELSE c[i]) - (IF i = 1 THEN 0 ELSE c[i - 1])]

\* (kSubset of the CommunityModules handles sets of up to 62 elements)
Sub(k, S) == IF Cardinality(S) <= 60 THEN kSubset(k, S)
             ELSE CASE k = 0 -> {{}}
                    [] k = 1 -> {{a} : a \in S}
                    [] k = 2 -> {T \in {{a, b} : a \in S, b \in S} : Cardinality(T) = 2}
MCChunkSets == UNION {UNION {{ToChunks(S, len) : S \in Sub(k, 1..(len - 1))} : k \in 0..(IF MaxCuts < len - 1 THEN MaxCuts ELSE len - 1)} : len \in Lens}

Dump == ("GEN_OUT" \in DOMAIN IOEnv) =>
          CSVWrite("%1$s", <<ToJson([stream |-> Stream, chunks |-> chunks, mode |-> mode, path |-> path,
                                     expect |-> Expected(1, 0, Sum(chunks))])>>, IOEnv.GEN_OUT)
=============================================================================
