------------------------------ MODULE MsgCache ------------------------------
(***************************************************************************)
(* Recycled message objects (p9/messages.go msgFactory: a process-wide,    *)
(* per-type cache of capacity 3) and their decoders.  An object taken from *)
(* the cache still holds what its previous message left in it; decoding    *)
(* must make its content a function of the new frame alone (C18):          *)
(*   scalars are overwritten; lists are reset then appended; a payload is  *)
(*   replaced; strings are overwritten.                                    *)
(* Histories: messages of one type with list / string / payload lengths    *)
(* from Lens, on two connections sharing the cache, handled one after the  *)
(* other (the object goes back to the cache after its reply).              *)
(* The same holds for the byte buffers frames are received into: a frame   *)
(* whose body ends before its message is complete (Frames.tla, kind        *)
(* `truncated') is not a message - the harness sends every such prefix     *)
(* after a complete message on another connection and requires that it is  *)
(* rejected and that the backend sees nothing of it.                       *)
(* Tsetattr stands for bit sets and scalars: lengths 0..3 select growing    *)
(* sets of valid bits (3: all nine), every value is unique to its message. *)
(* Types whose name starts with R are replies decoded by the p9 CLIENT     *)
(* (Rreaddir, Rwalk, Rread, the xattr list, Rreadlink): `seen' is then     *)
(* what the call returned to its caller.  NoCarryOver is a state           *)
(* invariant over all of `seen', so what a call returned must still be its *)
(* own reply's content after every later message - the harness compares    *)
(* every earlier result again after each message of the history.           *)
(***************************************************************************)
EXTENDS Integers, Sequences, FiniteSets, TLC

CONSTANTS Types,      \* message types with variable-size content
          Lens,       \* lengths offered, e.g. {0, 1, 3}
          Conns, MaxLen

VARIABLES typ, hist,          \* the history: sequence of <<conn, len>>
          cache,              \* residual contents of the cached object: sequence of items
          seen                \* what each handler saw: sequence of sequences

vars == <<typ, hist, cache, seen>>

\* the content of the i-th message: `len' items that name the message (so a stale one is recognisable)
Content(i, len) == [j \in 1..len |-> <<i, j>>]

Init == typ \in Types /\ hist = <<>> /\ cache = <<>> /\ seen = <<>>

\* get (object with residual content), decode (reset, then append the frame's items), handle, put
Handle(c, len) ==
  /\ Len(hist) < MaxLen
  /\ LET i == Len(hist) + 1
         obj == cache                          \* residual content
         reset == <<>>                         \* t.Names = t.Names[:0] / payload replaced / string overwritten
         decoded == reset \o Content(i, len)
     IN /\ seen' = Append(seen, decoded)
        /\ cache' = decoded                    \* goes back to the cache with this content
  /\ hist' = Append(hist, <<c, len>>) /\ UNCHANGED typ

Next == \E c \in Conns, len \in Lens : Handle(c, len)
Spec == Init /\ [][Next]_vars

NoCarryOver == \A i \in 1..Len(seen) : seen[i] = Content(i, hist[i][2])
=============================================================================
