------------------------------- MODULE Chunk -------------------------------
(***************************************************************************)
(* The client's chunked I/O (p9/client_file.go chunk / readAt / writeAt):  *)
(* ReadAt / WriteAt of any length are issued as Tread / Twrite requests of *)
(* at most `Chunk' bytes each.  The environment (server + backend) decides *)
(* the outcome of every request: full, short (k bytes), none, or an error. *)
(*                                                                         *)
(* C11: the loop must behave as ONE remote operation - chunks in order,    *)
(* contiguous, each within the limit, stopping at the first short or       *)
(* failed chunk, whose count and error are what the caller sees; a read    *)
(* reports io.EOF exactly when a chunk delivered nothing for a non-empty   *)
(* request.                                                                *)
(***************************************************************************)
EXTENDS Integers, Sequences, TLC

CONSTANTS MaxChunk,      \* chunk sizes 1..MaxChunk
          Kinds          \* {"read", "write"}

VARIABLES kind, chunk, len,     \* the call: ReadAt/WriteAt(p[0..len), off 0) with payload limit chunk
          total,                \* bytes processed so far
          calls,                \* requests issued: <<offset, count, delivered, outcome>>
          ret                   \* <<>> while running, else <<n, err>>  (err: "nil" | "EOF" | "ERR")

vars == <<kind, chunk, len, total, calls, ret>>

Init == /\ kind \in Kinds /\ chunk \in 1..MaxChunk /\ len \in 0..(3 * MaxChunk + 1)
        /\ len <= 3 * chunk + 1
        /\ total = 0 /\ calls = <<>> /\ ret = <<>>

Want == IF len - total < chunk THEN len - total ELSE chunk       \* size of the next request

\* One request with outcome o delivering n bytes.
\*   o = "ok": the server answers with n bytes (0 <= n <= Want)
\*   o = "err": the server answers Rlerror (nothing delivered)
Request(o, n) ==
  /\ ret = <<>>
  /\ (len = 0 => calls = <<>>)                                   \* zero-length: exactly one request
  /\ (len > 0 => total < len)
  /\ n \in 0..Want /\ (o = "err" => n = 0)
  /\ calls' = Append(calls, <<total, Want, n, o>>)
  /\ total' = total + n
  /\ ret' = IF o = "err" THEN <<total, "ERR">>
            ELSE IF kind = "read" /\ n = 0 /\ Want > 0 THEN <<total, "EOF">>       \* readAt: nothing for a non-empty request
            ELSE IF len = 0 THEN <<0, "nil">>
            ELSE IF n < chunk THEN <<total + n, "nil">>                             \* partial result: stop
            ELSE IF total + n = len THEN <<len, "nil">>
            ELSE <<>>
  /\ UNCHANGED <<kind, chunk, len>>

Next == \E o \in {"ok", "err"}, n \in 0..MaxChunk : Request(o, n)
Spec == Init /\ [][Next]_vars

Done == ret # <<>>

-----------------------------------------------------------------------------
(* The one-operation semantics, stated independently of the loop above *)

\* requests are issued in order, contiguous from offset 0, each asking for min(chunk, rest)
Contiguous == \A i \in 1..Len(calls) :
                 /\ calls[i][1] = (IF i = 1 THEN 0 ELSE calls[i - 1][1] + calls[i - 1][3])
                 /\ calls[i][2] <= chunk
                 /\ calls[i][2] = (IF len - calls[i][1] < chunk THEN len - calls[i][1] ELSE chunk)

\* nothing is issued after a short or failed request
StopAtFirstShort == \A i \in 1..(Len(calls) - 1) : calls[i][4] = "ok" /\ calls[i][3] = calls[i][2] /\ calls[i][2] = chunk

Sum(i) == IF i = 0 THEN 0 ELSE calls[i][1] + calls[i][3]

Result ==
  Done =>
    LET lastc == calls[Len(calls)] IN
    /\ ret[1] = Sum(Len(calls))                                   \* n = bytes delivered
    /\ ret[1] <= len
    /\ (ret[2] = "ERR" <=> lastc[4] = "err")                      \* the failing chunk's error is the caller's
    /\ (ret[2] = "EOF" => kind = "read" /\ ret[1] < len)          \* EOF only if fewer than len were delivered
    /\ (kind = "read" /\ len > 0 /\ ret[1] = 0 /\ lastc[4] = "ok") => ret[2] = "EOF"    \* and always when none were
    /\ (kind = "write" => ret[2] # "EOF")
    /\ (ret[2] = "nil" /\ ret[1] < len) => (lastc[3] < lastc[2])  \* a short count only after a short chunk
    /\ (\A i \in 1..Len(calls) : calls[i][4] = "ok" /\ calls[i][3] = calls[i][2]) => (ret = <<len, "nil">>)

Terminates == Len(calls) <= 4
=============================================================================
