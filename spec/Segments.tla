------------------------------ MODULE Segments ------------------------------
(***************************************************************************)
(* Stream segmentation independence (C17).  A byte stream of frames        *)
(* (header 7, fixed part f, payload p) is delivered as an arbitrary        *)
(* sequence of chunks; the two receive algorithms are transcribed          *)
(*   Generic  io.ReadAtLeast for the header, then vecnet.Buffers.ReadFrom  *)
(*            per-buffer fill loop             (vecnet/vecnet.go)          *)
(*   Linux    recvmsg into the remaining iovecs + the iovec consumption    *)
(*            loop of readFromBuffersLinux     (vecnet/vecnet_linux.go)    *)
(* and must both deliver, for every chunking, exactly the byte ranges of   *)
(* the frames - or a connection error, never a partial message, when the   *)
(* stream ends inside a frame.  Bytes are represented by their positions.  *)
(***************************************************************************)
EXTENDS Integers, Sequences, FiniteSets, TLC

CONSTANTS Frames,     \* sequence of <<f, p, kind>>: fixed and payload sizes of the frames in the stream; kind "msg", or
                      \* "skip": a frame the receiver rejects after its header (unknown type) and whose f body bytes it
                      \* discards with plain reads (io.Copy to Discard through a LimitReader) on either path
          Fixed       \* findings repaired: "R13"

Dev(x) == x \notin Fixed
Hdr == 7
RECURSIVE SumSizes(_)
SumSizes(fs) == IF fs = <<>> THEN 0 ELSE Hdr + Head(fs)[1] + Head(fs)[2] + SumSizes(Tail(fs))
Total == SumSizes(Frames)

\* A delivery: chunk sizes (positive, summing to at most Total) and how the end of the stream is
\* reported: "alone" (a read returning 0, EOF) or "withdata" (the last read returns its data AND EOF).
RECURSIVE Sum(_)
Sum(s) == IF s = <<>> THEN 0 ELSE Head(s) + Sum(Tail(s))

\* Reader state: [chunks, ci, off, pos, mode].  Read(space) -> [n, eof, st']
Read(st, space) ==
  IF st.ci > Len(st.chunks) THEN [n |-> 0, eof |-> TRUE, st |-> st]
  ELSE LET rest == st.chunks[st.ci] - st.off
           n == IF space < rest THEN space ELSE rest
           lastbyte == st.ci = Len(st.chunks) /\ n = rest
           st1 == IF n = rest THEN [st EXCEPT !.ci = @ + 1, !.off = 0, !.pos = @ + n]
                  ELSE [st EXCEPT !.off = @ + n, !.pos = @ + n]
       IN [n |-> n, eof |-> (st.mode = "withdata" /\ lastbyte /\ n > 0), st |-> st1]

\* Fill one buffer of length len with the generic loop; returns [ok, st, from] (from = first position stored)
RECURSIVE FillG(_, _, _, _)
FillG(st, len, filled, lastbuf) ==
  IF filled = len THEN [ok |-> TRUE, st |-> st]
  ELSE LET r == Read(st, len - filled) IN
       IF r.n = 0 /\ r.eof THEN [ok |-> FALSE, st |-> r.st]                       \* (0, EOF)
       ELSE IF r.eof /\ (Dev("R13") \/ filled + r.n < len)
            THEN [ok |-> FALSE, st |-> r.st]                                       \* EOF with data: reported as EOF
            ELSE FillG(r.st, len, filled + r.n, lastbuf)

\* io.ReadAtLeast(hdr, 7): succeeds as soon as 7 bytes are in, whatever err came with them
RECURSIVE ReadHdr(_, _)
ReadHdr(st, have) ==
  IF have = Hdr THEN [ok |-> TRUE, st |-> st]
  ELSE LET r == Read(st, Hdr - have) IN
       IF r.n = 0 /\ r.eof THEN [ok |-> FALSE, st |-> r.st]
       ELSE IF r.eof /\ have + r.n < Hdr THEN [ok |-> FALSE, st |-> r.st]
       ELSE ReadHdr(r.st, have + r.n)

\* Discarding n bytes: read after read, whatever each returns, until n are gone; the stream ending first is an error
RECURSIVE Drain(_, _)
Drain(st, n) ==
  IF n = 0 THEN [ok |-> TRUE, st |-> st]
  ELSE LET r == Read(st, n) IN
       IF r.n = 0 /\ r.eof THEN [ok |-> FALSE, st |-> r.st]
       ELSE IF r.eof /\ r.n < n THEN [ok |-> FALSE, st |-> r.st]
       ELSE Drain(r.st, n - r.n)
Skipped(pos) == <<pos, -1, -1>>
RecvSkip(st, fr) ==
  LET h == ReadHdr(st, 0) IN
  IF ~h.ok THEN [ok |-> FALSE, st |-> h.st, parts |-> <<>>]
  ELSE LET d == Drain(h.st, fr[1]) IN
       IF ~d.ok THEN [ok |-> FALSE, st |-> d.st, parts |-> <<>>]
       ELSE [ok |-> TRUE, st |-> d.st, parts |-> Skipped(st.pos)]

\* One frame by the generic path: the positions where header / fixed / payload were taken from
RecvGeneric(st, fr) ==
  LET h == ReadHdr(st, 0) IN
  IF ~h.ok THEN [ok |-> FALSE, st |-> h.st, parts |-> <<>>]
  ELSE LET a == FillG(h.st, fr[1], 0, fr[2] = 0) IN
       IF ~a.ok THEN [ok |-> FALSE, st |-> a.st, parts |-> <<>>]
       ELSE LET b == FillG(a.st, fr[2], 0, TRUE) IN
            IF ~b.ok THEN [ok |-> FALSE, st |-> b.st, parts |-> <<>>]
            ELSE [ok |-> TRUE, st |-> b.st, parts |-> <<st.pos, h.st.pos, a.st.pos>>]

\* Linux: recvmsg fills the remaining iovecs in order from one chunk; then the consumption loop.
\* bufs: remaining lengths of the iovecs.  Returns [ok, st]; data lands contiguously, so the
\* positions are determined by the start; what can go wrong is the bookkeeping of `bufs'.
RECURSIVE Consume(_, _)
Consume(bufs, cur) ==       \* the iovec consumption loop
  IF cur = 0 \/ bufs = <<>> THEN bufs
  ELSE IF Head(bufs) <= cur THEN Consume(Tail(bufs), cur - Head(bufs))
  ELSE <<Head(bufs) - cur>> \o Tail(bufs)

RECURSIVE FillL(_, _, _, _)
FillL(st, bufs, n, length) ==
  IF n >= length THEN [ok |-> TRUE, st |-> st, left |-> bufs]
  ELSE LET space == Sum(bufs)
           r == Read([st EXCEPT !.mode = "alone"], space)      \* a socket reports EOF on its own
       IN IF r.n = 0 THEN [ok |-> FALSE, st |-> r.st, left |-> bufs]
          ELSE FillL([r.st EXCEPT !.mode = st.mode], Consume(bufs, r.n), n + r.n, length)

RecvLinux(st, fr) ==
  LET h == ReadHdr(st, 0) IN
  IF ~h.ok THEN [ok |-> FALSE, st |-> h.st, parts |-> <<>>]
  ELSE LET vec == SelectSeq(<<fr[1], fr[2]>>, LAMBDA x : x > 0)
           a == FillL(h.st, vec, 0, fr[1] + fr[2]) IN
       IF ~a.ok THEN [ok |-> FALSE, st |-> a.st, parts |-> <<>>]
       ELSE [ok |-> a.left = <<>>, st |-> a.st, parts |-> <<st.pos, h.st.pos, h.st.pos + fr[1]>>]

\* Receive the whole stream: sequence of delivered frames (their start positions), then "err" or "end".
RECURSIVE RecvAll(_, _, _)
RecvAll(st, i, path) ==
  IF i > Len(Frames) THEN <<>>
  ELSE LET r == IF Frames[i][3] = "skip" THEN RecvSkip(st, Frames[i])
                ELSE IF path = "generic" THEN RecvGeneric(st, Frames[i]) ELSE RecvLinux(st, Frames[i]) IN
       IF ~r.ok THEN <<"err">>
       ELSE <<r.parts>> \o RecvAll(r.st, i + 1, path)

\* what must be delivered when `avail' bytes of the stream exist: every frame that is completely
\* there, at its exact position; then an error (never a partial message) unless all were delivered
RECURSIVE Expected(_, _, _)
Expected(i, pos, avail) ==
  IF i > Len(Frames) THEN <<>>
  ELSE LET sz == Hdr + Frames[i][1] + Frames[i][2] IN
       IF pos + sz > avail THEN <<"err">>
       ELSE <<IF Frames[i][3] = "skip" THEN Skipped(pos) ELSE <<pos, pos + Hdr, pos + Hdr + Frames[i][1]>>>>
            \o Expected(i + 1, pos + sz, avail)

VARIABLES chunks, mode, path
vars == <<chunks, mode, path>>

\* all chunkings with at most MaxCuts cut points are generated by the configuration's ChunkSets
CONSTANT ChunkSets
\* (a socket never reports data and the end of the stream in one read)
Init == chunks \in ChunkSets /\ mode \in {"alone", "withdata"} /\ path \in {"generic", "linux"}
        /\ (path = "linux" => mode = "alone")
Next == UNCHANGED vars
Spec == Init /\ [][Next]_vars

St0 == [chunks |-> chunks, ci |-> 1, off |-> 0, pos |-> 0, mode |-> mode]

Independent == RecvAll(St0, 1, path) = Expected(1, 0, Sum(chunks))
=============================================================================
