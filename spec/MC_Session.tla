----------------------------- MODULE MC_Session -----------------------------
(* Model-checking / generation wrapper of Session.tla: writes, for every     *)
(* explored edge, the witness history of the source state plus the edge and  *)
(* the probes of the target state (one JSON line) to $GEN_OUT.               *)
(* Run with -workers 1 when dumping.                                         *)
EXTENDS Session, Json, IOUtils, CSV

\* Records are written without the fields that still have their default value
\* (the consumer's zero values), which cuts the volume by about two thirds.
Slim(r, d) == [k \in {k \in DOMAIN r : r[k] # d[k]} |-> r[k]]
SlimCall(cl) == Slim([k \in DOMAIN cl \ {"rdir"} |-> cl[k]],
                     [k |-> "", f |-> -1, names |-> <<>>, f2 |-> 0, a |-> "", res |-> "ok", nf |-> 0,
                      mode |-> "", len |-> FALSE, fenced |-> FALSE])
SlimStep(st) == [c |-> st.c,
                 req |-> Slim(st.req, [Req("") EXCEPT !.fid = -1]),
                 calls |-> [i \in 1..Len(st.calls) |-> SlimCall(st.calls[i])],
                 reply |-> st.reply, closes |-> st.closes, paths |-> st.paths,
                 okerr |-> st.okerr, fen |-> st.fen, tree |-> st.tree]
SlimSeq(sq) == [i \in 1..Len(sq) |-> SlimStep(sq[i])]

\* With GEN_LAST set (simulation runs) only histories of full length are written.
EdgeDump == IF "GEN_OUT" \in DOMAIN IOEnv /\ ("GEN_LAST" \in DOMAIN IOEnv => depth' = MaxDepth)
            THEN CSVWrite("%1$s", <<ToJson([h |-> SlimSeq(log'), p |-> SlimSeq(ProbesAfter)])>>, IOEnv.GEN_OUT)
            ELSE TRUE
=============================================================================
