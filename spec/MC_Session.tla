----------------------------- MODULE MC_Session -----------------------------
(* Model-checking / generation wrapper of Session.tla: writes, for every     *)
(* explored edge, the witness history of the source state plus the edge      *)
(* (one JSON line), to $GEN_OUT.  Run with -workers 1 when dumping.          *)
EXTENDS Session, Json, IOUtils, CSV

EdgeDump == IF "GEN_OUT" \in DOMAIN IOEnv
            THEN CSVWrite("%1$s", <<ToJson(log')>>, IOEnv.GEN_OUT)
            ELSE TRUE
=============================================================================
