---------------------------- MODULE MC_FidPool ----------------------------
EXTENDS FidPool, Json, IOUtils, CSV
\* every history of exactly MaxSteps steps, or ended earlier by the loss of the connection
Dump == ((Len(hist) = MaxSteps \/ (~up /\ hist # <<>>)) /\ "GEN_OUT" \in DOMAIN IOEnv) =>
          CSVWrite("%1$s", <<ToJson([hist |-> hist, reused |-> reused])>>, IOEnv.GEN_OUT)
=============================================================================
