------------------------------ MODULE FidPool ------------------------------
(***************************************************************************)
(* The client's fid allocator and the rule by which fids come back to it   *)
(* (p9/pool.go; p9/client_file.go Attach / Walk / xattrWalkRead / Close /  *)
(* Remove), against the server's view of which fids are bound (C10: "a fid *)
(* number is given to a new File only when the server no longer has it     *)
(* bound - its clunk or remove was confirmed, or the request that would    *)
(* have bound it was refused").                                            *)
(*                                                                         *)
(* One step = one File operation of the client together with what happens  *)
(* to its request:                                                         *)
(*   ok        delivered, served, answered                                 *)
(*   refused   delivered, answered Rlerror (Tclunk / Tremove unbind anyway)*)
(*   lost      the client's write fails, nothing reaches the server; the   *)
(*             connection stays usable                                     *)
(*   garbled   delivered and served, but instead of the reply the client   *)
(*             receives a frame it cannot accept (unknown tag): the call   *)
(*             returns an error.  Repaired (R15): the client gives the     *)
(*             connection up.  As found: it carries on.                    *)
(* The pool is LIFO over returned numbers, else the next fresh number.     *)
(***************************************************************************)
EXTENDS Integers, Sequences, FiniteSets, TLC

CONSTANTS MaxSteps, MaxFids, Fixed
Dev(x) == x \notin Fixed

\* The tag pool is the same allocator over 1..NoTag-1: at most 0xFFFE calls are outstanding with pairwise distinct
\* tags, none of them NOTAG; a further call fails instead of waiting or borrowing (the harness runs 0xFFFE + 3
\* concurrent calls against a server that answers nothing until all have arrived).
NoTag == 65535
TagSpace == 1..(NoTag - 1)
ASSUME NoTag \notin TagSpace /\ Cardinality(TagSpace) = 65534

Outcomes == {"ok", "refused", "lost", "garbled"}

VARIABLES cache, start,   \* pool.go
          files,          \* fids of the client's open Files (fid 1: the attach root, kept)
          sbound,         \* fids the server has bound
          up,             \* connection usable
          hist,           \* sequence of [op, fid, out]  (fid: the number the request carries as (new)fid)
          reused          \* an allocation returned a number the server still had bound

vars == <<cache, start, files, sbound, up, hist, reused>>

Init == /\ cache = <<>> /\ start = 2 /\ files = {1} /\ sbound = {1} /\ up = TRUE
        /\ hist = <<>> /\ reused = FALSE

Get == IF cache # <<>> THEN cache[Len(cache)] ELSE start
AfterGet == IF cache # <<>> THEN <<SubSeq(cache, 1, Len(cache) - 1), start>> ELSE <<cache, start + 1>>
\* a frame the client cannot accept ends the connection once R15 is repaired
UpAfter(o) == IF o = "garbled" /\ ~Dev("R15") THEN FALSE ELSE up

\* Walk (clone of the root) / Attach: binds a new fid
Bind(op, o) ==
  /\ up /\ Len(hist) < MaxSteps /\ Cardinality(files) < MaxFids
  /\ LET f == Get
         ag == AfterGet
     IN /\ reused' = (reused \/ f \in sbound)
        /\ hist' = Append(hist, [op |-> op, fid |-> f, out |-> o])
        /\ sbound' = IF o \in {"ok", "garbled"} THEN sbound \cup {f} ELSE sbound
        /\ files' = IF o = "ok" THEN files \cup {f} ELSE files
        \* every failed call puts the number back (client_file.go: fidPool.Put(id) on any error)
        /\ cache' = IF o = "ok" THEN ag[1] ELSE Append(ag[1], f)
        /\ start' = ag[2]
  /\ up' = UpAfter(o)

\* Close / Remove: the server unbinds whenever the request reaches it; the number
\* returns to the pool only when the reply confirms it
Unbind(op, f, o) ==
  /\ up /\ Len(hist) < MaxSteps /\ f \in files \ {1}
  /\ hist' = Append(hist, [op |-> op, fid |-> f, out |-> o])
  /\ files' = files \ {f}
  /\ sbound' = IF o = "lost" THEN sbound ELSE sbound \ {f}
  /\ cache' = IF o = "ok" THEN Append(cache, f) ELSE cache
  /\ up' = UpAfter(o)
  /\ UNCHANGED <<start, reused>>

\* GetXattr / ListXattrs: Txattrwalk binds a fresh fid to the attribute; the value (size sz) is read through it
\* unless it is empty; the fid is clunked in every case and its number returns to the pool with the Rclunk.
\* A refused Txattrwalk binds nothing.  (One step: the operation's two or three messages are sequential.)
XAttr(sz, o) ==
  /\ up /\ Len(hist) < MaxSteps
  /\ LET f == Get
         ag == AfterGet
     IN /\ reused' = (reused \/ f \in sbound)
        /\ hist' = Append(hist, [op |-> IF sz = 0 THEN "xattr0" ELSE "xattr3", fid |-> f, out |-> o])
        /\ cache' = Append(ag[1], f)
        /\ start' = ag[2]
  /\ UNCHANGED <<files, sbound, up>>

Next == \/ \E op \in {"walk", "attach"}, o \in Outcomes : Bind(op, o)
        \/ \E sz \in {0, 3}, o \in {"ok", "refused"} : XAttr(sz, o)
        \/ \E op \in {"close", "remove"}, f \in files, o \in Outcomes : Unbind(op, f, o)
Spec == Init /\ [][Next]_vars

NewFidUnbound == ~reused
\* the numbers the client holds are pairwise distinct by construction (a set); none is in the pool
HeldNotPooled == \A i \in 1..Len(cache) : cache[i] \notin files
PoolDistinct == \A i, j \in 1..Len(cache) : i # j => cache[i] # cache[j]
=============================================================================
