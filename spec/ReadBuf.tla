------------------------------ MODULE ReadBuf ------------------------------
(***************************************************************************)
(* Lifetime of the server's pooled read buffers (p9/handlers.go            *)
(* tread.handle, p9/messages.go rreadServerPayloader, per-connection       *)
(* readBufPool) with several Treads in flight on one connection (C18:      *)
(* "the data of a read reply is exactly the bytes the backend produced for *)
(* that request").                                                         *)
(*                                                                         *)
(* A handler takes a buffer from the pool, the backend fills it, the       *)
(* handler returns the reply object (which refers to the buffer), the      *)
(* reply is written to the transport some time later - replies are         *)
(* serialised by sendMu and the transport may be slow - and only after the *)
(* write is the buffer zeroed and put back.  Every interleaving of the     *)
(* steps of the requests in `Reads' is explored.                           *)
(***************************************************************************)
EXTENDS Integers, FiniteSets, TLC

CONSTANTS Reads,     \* requests in flight together, e.g. 1..3
          Bufs       \* buffers the pool can hand out (allocates when empty: |Bufs| >= |Reads|)

VARIABLES st,        \* [Reads -> "idle" | "got" | "filled" | "queued" | "sent" | "done"]
          buf,       \* [Reads -> buffer held | 0]
          content,   \* [Bufs -> request whose bytes the buffer holds | 0 (zeroed)]
          free,      \* buffers in the pool
          sending,   \* request holding sendMu | 0
          reply      \* [Reads -> what went out on the wire | -1]

vars == <<st, buf, content, free, sending, reply>>

Init == /\ st = [r \in Reads |-> "idle"] /\ buf = [r \in Reads |-> 0]
        /\ content = [b \in Bufs |-> 0] /\ free = Bufs /\ sending = 0
        /\ reply = [r \in Reads |-> -1]

Get(r) == /\ st[r] = "idle" /\ \E b \in free : buf' = [buf EXCEPT ![r] = b] /\ free' = free \ {b}
          /\ st' = [st EXCEPT ![r] = "got"] /\ UNCHANGED <<content, sending, reply>>
Fill(r) == /\ st[r] = "got" /\ content' = [content EXCEPT ![buf[r]] = r]
           /\ st' = [st EXCEPT ![r] = "filled"] /\ UNCHANGED <<buf, free, sending, reply>>
\* the handler returns; the reply waits for sendMu
Queue(r) == /\ st[r] = "filled" /\ st' = [st EXCEPT ![r] = "queued"] /\ UNCHANGED <<buf, content, free, sending, reply>>
\* the reply is written from the buffer
Send(r) == /\ st[r] = "queued" /\ sending = 0 /\ sending' = r
           /\ reply' = [reply EXCEPT ![r] = content[buf[r]]]
           /\ st' = [st EXCEPT ![r] = "sent"] /\ UNCHANGED <<buf, content, free>>
\* PayloadCleanup: zero, put back, release sendMu
Cleanup(r) == /\ st[r] = "sent" /\ content' = [content EXCEPT ![buf[r]] = 0]
              /\ free' = free \cup {buf[r]} /\ buf' = [buf EXCEPT ![r] = 0] /\ sending' = 0
              /\ st' = [st EXCEPT ![r] = "done"] /\ UNCHANGED reply

Next == \E r \in Reads : Get(r) \/ Fill(r) \/ Queue(r) \/ Send(r) \/ Cleanup(r)
Spec == Init /\ [][Next]_vars

ReplyIsOwn == \A r \in Reads : reply[r] # -1 => reply[r] = r
BufferExclusive == \A r, q \in Reads : (r # q /\ buf[r] # 0) => buf[r] # buf[q]
PoolZeroed == \A b \in free : content[b] = 0

\* the schedule the harness forces: every request is queued before any reply is written
AllQueuedFirst == \A r \in Reads : st[r] \in {"sent", "done"} => \A q \in Reads : st[q] \in {"queued", "sent", "done"}
=============================================================================
