-------------------------------- MODULE Wire --------------------------------
(***************************************************************************)
(* 9P2000.L (+ .Google.N extensions) message layouts, stated independently *)
(* of p9/messages.go from the protocol descriptions (Linux                 *)
(* Documentation/filesystems/9p, diod protocol.md, 9P2000 intro(5)).       *)
(*                                                                         *)
(* Layout[t] = [id |-> type byte, f |-> << <<field, kind>>, ... >>]        *)
(*                                                                         *)
(* kinds:  u8 u16 u32 u64   little-endian unsigned integers                *)
(*         str              u16 length + bytes                             *)
(*         strs             u16 count + count * str                        *)
(*         qid              type[1] version[4] path[8]                     *)
(*         qids             u16 count + count * qid                        *)
(*         perm             u32 of which only the low 12 bits travel       *)
(*         data             u32 count + count payload bytes (last field)   *)
(*         dirents          u32 bytecount + entries qid[13] off[8] type[1] *)
(*                          name[s] (whole entries only)                   *)
(*         attrmask u64 bit set / setattrmask u32 bit set / attr / setattr *)
(*         / fsstat         fixed structures, see Struct                   *)
(*                                                                         *)
(* Every frame is  size[4] type[1] tag[2] body, size counting itself.      *)
(*                                                                         *)
(* This table is exported as JSON (ExportLayout) and *interpreted* by the  *)
(* Go reference codec harness/wirecodec, which every raw-peer driver uses: *)
(* there is no second hand-written codec.                                  *)
(***************************************************************************)
EXTENDS Integers, Sequences, FiniteSets, TLC, Json

F(n, k) == <<n, k>>

Struct ==
  [ qid     |-> << F("type", "u8"), F("version", "u32"), F("path", "u64") >>,
    attr    |-> << F("mode", "u32"), F("uid", "u32"), F("gid", "u32"), F("nlink", "u64"),
                   F("rdev", "u64"), F("size", "u64"), F("blksize", "u64"), F("blocks", "u64"),
                   F("atime_sec", "u64"), F("atime_nsec", "u64"), F("mtime_sec", "u64"),
                   F("mtime_nsec", "u64"), F("ctime_sec", "u64"), F("ctime_nsec", "u64"),
                   F("btime_sec", "u64"), F("btime_nsec", "u64"), F("gen", "u64"),
                   F("data_version", "u64") >>,
    setattr |-> << F("mode", "perm"), F("uid", "u32"), F("gid", "u32"), F("size", "u64"),
                   F("atime_sec", "u64"), F("atime_nsec", "u64"), F("mtime_sec", "u64"),
                   F("mtime_nsec", "u64") >>,
    fsstat  |-> << F("type", "u32"), F("bsize", "u32"), F("blocks", "u64"), F("bfree", "u64"),
                   F("bavail", "u64"), F("files", "u64"), F("ffree", "u64"), F("fsid", "u64"),
                   F("namelen", "u32") >>,
    dirent  |-> << F("qid", "qid"), F("offset", "u64"), F("type", "u8"), F("name", "str") >> ]

\* Bit positions (P9_GETATTR_* / P9_SETATTR_* of the Linux client).
AttrMaskBits ==
  << "mode", "nlink", "uid", "gid", "rdev", "atime", "mtime", "ctime", "ino", "size",
     "blocks", "btime", "gen", "data_version" >>
SetAttrMaskBits ==
  << "mode", "uid", "gid", "size", "atime", "mtime", "ctime", "atime_set", "mtime_set" >>

M(id, fields) == [id |-> id, f |-> fields]

WalkT  == << F("fid", "u32"), F("newfid", "u32"), F("names", "strs") >>
CreateT == << F("fid", "u32"), F("name", "str"), F("flags", "u32"), F("mode", "perm"), F("gid", "u32") >>
MkdirT == << F("dfid", "u32"), F("name", "str"), F("mode", "perm"), F("gid", "u32") >>
SymT   == << F("dfid", "u32"), F("name", "str"), F("target", "str"), F("gid", "u32") >>
MknodT == << F("dfid", "u32"), F("name", "str"), F("mode", "u32"), F("major", "u32"),
             F("minor", "u32"), F("gid", "u32") >>
QidOnly == << F("qid", "qid") >>
OpenR  == << F("qid", "qid"), F("iounit", "u32") >>
Uid    == << F("uid", "u32") >>

Layout ==
  [ Rlerror      |-> M(7,   << F("ecode", "u32") >>),
    Tstatfs      |-> M(8,   << F("fid", "u32") >>),
    Rstatfs      |-> M(9,   << F("st", "fsstat") >>),
    Tlopen       |-> M(12,  << F("fid", "u32"), F("flags", "u32") >>),
    Rlopen       |-> M(13,  OpenR),
    Tlcreate     |-> M(14,  CreateT),
    Rlcreate     |-> M(15,  OpenR),
    Tsymlink     |-> M(16,  SymT),
    Rsymlink     |-> M(17,  QidOnly),
    Tmknod       |-> M(18,  MknodT),
    Rmknod       |-> M(19,  QidOnly),
    Trename      |-> M(20,  << F("fid", "u32"), F("dfid", "u32"), F("name", "str") >>),
    Rrename      |-> M(21,  << >>),
    Treadlink    |-> M(22,  << F("fid", "u32") >>),
    Rreadlink    |-> M(23,  << F("target", "str") >>),
    Tgetattr     |-> M(24,  << F("fid", "u32"), F("request_mask", "attrmask") >>),
    Rgetattr     |-> M(25,  << F("valid", "attrmask"), F("qid", "qid"), F("attr", "attr") >>),
    Tsetattr     |-> M(26,  << F("fid", "u32"), F("valid", "setattrmask"), F("attr", "setattr") >>),
    Rsetattr     |-> M(27,  << >>),
    Txattrwalk   |-> M(30,  << F("fid", "u32"), F("newfid", "u32"), F("name", "str") >>),
    Rxattrwalk   |-> M(31,  << F("size", "u64") >>),
    Txattrcreate |-> M(32,  << F("fid", "u32"), F("name", "str"), F("attr_size", "u64"), F("flags", "u32") >>),
    Rxattrcreate |-> M(33,  << >>),
    Treaddir     |-> M(40,  << F("fid", "u32"), F("offset", "u64"), F("count", "u32") >>),
    Rreaddir     |-> M(41,  << F("entries", "dirents") >>),
    Tfsync       |-> M(50,  << F("fid", "u32") >>),
    Rfsync       |-> M(51,  << >>),
    Tlock        |-> M(52,  << F("fid", "u32"), F("type", "u8"), F("flags", "u32"), F("start", "u64"),
                               F("length", "u64"), F("proc_id", "u32"), F("client_id", "str") >>),
    Rlock        |-> M(53,  << F("status", "u8") >>),
    Tlink        |-> M(70,  << F("dfid", "u32"), F("fid", "u32"), F("name", "str") >>),
    Rlink        |-> M(71,  << >>),
    Tmkdir       |-> M(72,  MkdirT),
    Rmkdir       |-> M(73,  QidOnly),
    Trenameat    |-> M(74,  << F("olddirfid", "u32"), F("oldname", "str"), F("newdirfid", "u32"), F("newname", "str") >>),
    Rrenameat    |-> M(75,  << >>),
    Tunlinkat    |-> M(76,  << F("dirfd", "u32"), F("name", "str"), F("flags", "u32") >>),
    Runlinkat    |-> M(77,  << >>),
    Tversion     |-> M(100, << F("msize", "u32"), F("version", "str") >>),
    Rversion     |-> M(101, << F("msize", "u32"), F("version", "str") >>),
    Tauth        |-> M(102, << F("afid", "u32"), F("uname", "str"), F("aname", "str"), F("n_uname", "u32") >>),
    Rauth        |-> M(103, << F("aqid", "qid") >>),
    Tattach      |-> M(104, << F("fid", "u32"), F("afid", "u32"), F("uname", "str"), F("aname", "str"), F("n_uname", "u32") >>),
    Rattach      |-> M(105, QidOnly),
    Tflush       |-> M(108, << F("oldtag", "u16") >>),
    Rflush       |-> M(109, << >>),
    Twalk        |-> M(110, WalkT),
    Rwalk        |-> M(111, << F("qids", "qids") >>),
    Tread        |-> M(116, << F("fid", "u32"), F("offset", "u64"), F("count", "u32") >>),
    Rread        |-> M(117, << F("data", "data") >>),
    Twrite       |-> M(118, << F("fid", "u32"), F("offset", "u64"), F("data", "data") >>),
    Rwrite       |-> M(119, << F("count", "u32") >>),
    Tclunk       |-> M(120, << F("fid", "u32") >>),
    Rclunk       |-> M(121, << >>),
    Tremove      |-> M(122, << F("fid", "u32") >>),
    Rremove      |-> M(123, << >>),
    \* .Google.N extensions (gVisor): walkgetattr from N >= 2, Tu* from N >= 3
    Twalkgetattr |-> M(126, WalkT),
    Rwalkgetattr |-> M(127, << F("valid", "attrmask"), F("attr", "attr"), F("qids", "qids") >>),
    Tucreate     |-> M(128, CreateT \o Uid),
    Rucreate     |-> M(129, OpenR),
    Tumkdir      |-> M(130, MkdirT \o Uid),
    Rumkdir      |-> M(131, QidOnly),
    Tumknod      |-> M(132, MknodT \o Uid),
    Rumknod      |-> M(133, QidOnly),
    Tusymlink    |-> M(134, SymT \o Uid),
    Rusymlink    |-> M(135, QidOnly) ]

Types == DOMAIN Layout

\* Minimum negotiated version that defines a type (0 = plain 9P2000.L).
MinVersion(t) ==
  IF t \in {"Twalkgetattr", "Rwalkgetattr"} THEN 2
  ELSE IF t \in {"Tucreate", "Rucreate", "Tumkdir", "Rumkdir", "Tumknod", "Rumknod", "Tusymlink", "Rusymlink"} THEN 3
  ELSE 0

-----------------------------------------------------------------------------
(* Sanity of the table itself (checked by TLC when the module is loaded).   *)

Kinds == {"u8", "u16", "u32", "u64", "str", "strs", "qid", "qids", "perm", "data", "dirents",
          "attrmask", "setattrmask", "attr", "setattr", "fsstat"}

ASSUME \A t \in Types : \A i \in 1..Len(Layout[t].f) : Layout[t].f[i][2] \in Kinds
ASSUME \A t, u \in Types : t # u => Layout[t].id # Layout[u].id          \* type bytes are distinct
ASSUME Cardinality(Types) = 65
\* T-types are even and their R-type is the next odd number; Rlerror (7) answers anything.
ASSUME \A t \in Types : Layout[t].id % 2 = 0 => \E r \in Types : Layout[r].id = Layout[t].id + 1
ASSUME \A r \in Types : (Layout[r].id % 2 = 1 /\ r # "Rlerror") => \E t \in Types : Layout[t].id + 1 = Layout[r].id
\* payload-carrying kinds only in last position
ASSUME \A t \in Types : \A i \in 1..Len(Layout[t].f) :
          Layout[t].f[i][2] \in {"data", "dirents"} => i = Len(Layout[t].f)

KindSize(k) == CASE k = "u8" -> 1 [] k = "u16" -> 2 [] k \in {"u32", "perm", "setattrmask"} -> 4
                 [] k \in {"u64", "attrmask"} -> 8 [] k = "qid" -> 13
                 [] k \in {"str", "strs", "qids"} -> 2 [] k \in {"data", "dirents"} -> 4
                 [] k = "attr" -> 4 + 4 + 4 + 15 * 8 [] k = "setattr" -> 4 + 4 + 4 + 5 * 8
                 [] k = "fsstat" -> 4 + 4 + 6 * 8 + 4

RECURSIVE SumSizes(_)
SumSizes(fs) == IF fs = <<>> THEN 0 ELSE KindSize(Head(fs)[2]) + SumSizes(Tail(fs))

\* Size of the body of a message whose variable parts are all empty.
MinBody(t) == SumSizes(Layout[t].f)
\* The largest such body: what a client must reserve next to a payload.
LargestFixed == CHOOSE n \in {MinBody(t) : t \in Types} : \A t \in Types : MinBody(t) <= n

ExportLayout(file) ==
  JsonSerialize(file,
    [ layout |-> [t \in Types |-> [id |-> Layout[t].id, f |-> Layout[t].f, minv |-> MinVersion(t), minbody |-> MinBody(t)]],
      struct |-> Struct,
      attrmask |-> AttrMaskBits,
      setattrmask |-> SetAttrMaskBits,
      largestfixed |-> LargestFixed ])
=============================================================================
