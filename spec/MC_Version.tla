----------------------------- MODULE MC_Version -----------------------------
(* Evaluates Version.tla's tables over their grids and writes the vectors    *)
(* (input, acceptable outputs) for harness/cmd/sizes: $VEC_VERSION,          *)
(* $VEC_CLIENT, $VEC_SIZE, $VEC_DIRFIT.                                                   *)
EXTENDS Version, Json, IOUtils, CSV

W(f, v) == CSVWrite("%1$s", <<ToJson(v)>>, f)

ASSUME "VEC_VERSION" \in DOMAIN IOEnv =>
  \A c \in VersionCases :
     W(IOEnv.VEC_VERSION, [msize |-> c[1], base |-> c[2], ext |-> c[3],
                           replies |-> {[msize |-> r.msize, v |-> r.v[1] \o r.v[2]] : r \in ServerReplies(c[1], <<c[2], c[3]>>)}])

ASSUME "VEC_CLIENT" \in DOMAIN IOEnv =>
  \A c \in ClientCasesOK :
     LET a == ClientAdopt(c[1], c[2], c[3]) IN
     W(IOEnv.VEC_CLIENT, [reqm |-> c[1], v |-> c[2][1] \o c[2][2], m |-> c[3], retries |-> c[4],
                          err |-> a.err, version |-> a.version, msize |-> a.msize,
                          payload |-> IF a.err THEN 0 ELSE Payload(a.msize),
                          wga |-> IF a.err THEN FALSE ELSE UsesWalkGetAttr(a.version),
                          ucreate |-> IF a.err THEN FALSE ELSE UsesUCreation(a.version)])

ASSUME "VEC_SIZE" \in DOMAIN IOEnv =>
  \A c \in SizeCasesOK :
     W(IOEnv.VEC_SIZE, [ms |-> c[1], count |-> c[2], kind |-> c[3], reneg |-> c[4], maxdata |-> MaxData(c[1])])

ASSUME "VEC_DIRFIT" \in DOMAIN IOEnv =>
  \A c \in DirFitCases :
     W(IOEnv.VEC_DIRFIT, [ms |-> c[1], count |-> c[2], limit |-> DirLimit(c[1], c[2]), namelens |-> DirNameLens])

ASSUME PrintT(<<"cases", Cardinality(VersionCases), Cardinality(ClientCasesOK), Cardinality(SizeCasesOK)>>)
=============================================================================
