------------------------------ MODULE Version ------------------------------
(***************************************************************************)
(* Version / msize negotiation (C12) and the size arithmetic that keeps    *)
(* every frame within the negotiated msize (C13).                          *)
(*                                                                         *)
(* Version strings are token structures <<base, ext>>; what an extension   *)
(* token MEANS is stated in the table ExtMeaning (TLC cannot parse         *)
(* strings; the harness concatenates the tokens).                          *)
(* p9/version.go parseVersion / versionString, p9/handlers.go              *)
(* tversion.handle / tread.handle / treaddir.handle, p9/client.go          *)
(* NewClient, p9/messages.go rreaddir.encode.                              *)
(***************************************************************************)
EXTENDS Integers, Sequences, FiniteSets, TLC

CONSTANT Fixed
Dev(x) == x \notin Fixed

Min(a, b) == IF a < b THEN a ELSE b
Max4M == 4194304          \* 4 MiB, the largest msize p9 ever agrees to
Huge == -1                \* stands for values up to 2^32 - 1 that TLC's integers cannot hold
Header == 7
LargestFixed == 153       \* largest body with all variable parts empty (Wire.tla LargestFixed: Rgetattr)

-----------------------------------------------------------------------------
(* Version strings *)

Bases == {"9P2000.L", "9P2000.u", "9P2000", "9p2000.L", "9P2000.l", "9P2000.L ", "8P2000.L", "junk", ""}
Exts == {"", ".Google.0", ".Google.1", ".Google.2", ".Google.3", ".Google.4", ".Google.5", ".Google.6", ".Google.7",
         ".Google.8", ".Google.007", ".Google.00", ".Google.4294967295", ".Google.4294967296",
         ".Google.99999999999999999999", ".Google.+7", ".Google.-1", ".Google.", ".Google.7.0", ".Google.7x",
         ".Google. 7", ".google.7", ".Google", ".Goog.7", ".Google.7.", "..Google.7", ".u",
         \* the number is DECIMAL: a leading zero is not an octal marker, and no other base prefix or digit separator exists
         ".Google.08", ".Google.018", ".Google.0x3", ".Google.0X7", ".Google.0b11", ".Google.0o3", ".Google.1_0", ".Google.0_3"}

\* What the extension says: "none", [n |-> number (capped at 8: anything >= 8 acts alike)], "over" (a
\* number that does not fit 32 bits - the statement can be read both ways), or "bad".
M(k, n) == [k |-> k, n |-> n]
ExtMeaning(e) ==
  CASE e = "" -> M("none", 0)
    [] e = ".Google.0" -> M("num", 0) [] e = ".Google.1" -> M("num", 1) [] e = ".Google.2" -> M("num", 2)
    [] e = ".Google.3" -> M("num", 3) [] e = ".Google.4" -> M("num", 4) [] e = ".Google.5" -> M("num", 5)
    [] e = ".Google.6" -> M("num", 6) [] e = ".Google.7" -> M("num", 7) [] e = ".Google.8" -> M("num", 8)
    [] e = ".Google.007" -> M("num", 7) [] e = ".Google.00" -> M("num", 0)
    [] e \in {".Google.08", ".Google.018"} -> M("num", 8)
    [] e = ".Google.4294967295" -> M("num", 8)
    [] e \in {".Google.4294967296", ".Google.99999999999999999999"} -> M("over", 0)
    [] OTHER -> M("bad", 0)

Canon(n) == IF n = 0 THEN <<"9P2000.L", "">>
            ELSE <<"9P2000.L", CASE n = 1 -> ".Google.1" [] n = 2 -> ".Google.2" [] n = 3 -> ".Google.3" [] n = 4 -> ".Google.4"
                                 [] n = 5 -> ".Google.5" [] n = 6 -> ".Google.6" [] n = 7 -> ".Google.7">>
Unknown == <<"unknown", "">>

\* Parse: the negotiated number of a version string, or -1.
Parse(v) == IF v[1] # "9P2000.L" THEN -1
            ELSE LET m == ExtMeaning(v[2]) IN
                 IF m.k = "none" THEN 0 ELSE IF m.k \in {"bad", "over"} THEN -1 ELSE m.n

\* msize values offered in requests: numbers, or Huge for 2^32-1
Msizes == {0, 1, 6, 7, 23, 4096, 65536, Max4M, Max4M + 1, Huge}
CapMsize(m) == IF m = Huge \/ m > Max4M THEN Max4M ELSE m

\* The server's reply to Tversion(msize, v): the set of acceptable replies
\* (one, except where the statement can be read two ways).
ServerReplies(msize, v) ==
  IF msize = 0 \/ v[1] # "9P2000.L" \/ ExtMeaning(v[2]).k = "bad"
  THEN {[msize |-> 0, v |-> Unknown]}
  ELSE IF ExtMeaning(v[2]).k = "over"
       THEN {[msize |-> 0, v |-> Unknown], [msize |-> CapMsize(msize), v |-> Canon(7)]}
  ELSE {[msize |-> CapMsize(msize), v |-> Canon(Min(Parse(v), 7))]}

VersionCases == {<<m, b, e>> : m \in Msizes, b \in Bases, e \in Exts}

\* properties of the table itself
ASSUME \A n \in 0..7 : Parse(Canon(n)) = n                       \* canonical spelling parses back
ASSUME \A c \in VersionCases : \A r \in ServerReplies(c[1], <<c[2], c[3]>>) :
          /\ r.msize <= Max4M
          /\ (r.v = Unknown <=> r.msize = 0)
          /\ (r.v # Unknown => Parse(r.v) \in 0..7 /\ Canon(Parse(r.v)) = r.v)

-----------------------------------------------------------------------------
(* The client's side of the negotiation *)

\* The client asks for (7, reqm); the server's final Rversion carries (v, m) after `retries'
\* Rlerror(EAGAIN) answers (each makes the client ask for one version less).
\* Result: "error", or [version, msize] the client uses from then on.
ClientAdopt(reqm, v, m) ==
  IF Parse(v) < 0 THEN [err |-> TRUE, version |-> -1, msize |-> 0]
  ELSE [err |-> FALSE, version |-> Parse(v), msize |-> IF Dev("R4") THEN reqm ELSE Min(reqm, m)]

\* the payload size a client with that msize uses for Tread/Twrite
RoundDown(p, a) == IF p > a /\ p % a # 0 THEN p - (p % a) ELSE p
Payload(msize) == RoundDown(msize - LargestFixed, 512)

OfferedVersions == {Canon(n) : n \in 0..7} \cup {Unknown, <<"9P2000.u", "">>, <<"9P2000", "">>, <<"junk", "">>,
                    <<"9P2000.L", ".Google.7x">>, <<"9P2000.L", ".Google.007">>}
ClientCases == {<<rm, v, m, k>> : rm \in {4096, 65536, 1048576}, v \in OfferedVersions,
                                  m \in {512, 4096, 8192, 65536, 1048576}, k \in {0, 1, 3}}
\* (a server never offers more than was asked; such cases are not generated)
ClientCasesOK == {c \in ClientCases : c[3] <= c[1]}

\* message families by negotiated version
UsesWalkGetAttr(n) == n >= 2
UsesUCreation(n) == n >= 3

\* with the adopted msize every read/write request and its reply fit
ASSUME \A ms \in {512, 4096, 8192, 65536, 1048576, Max4M} :
          LET p == Payload(ms) IN
          /\ p >= 1
          /\ Header + 16 + p <= ms          \* Twrite: fid[4] offset[8] count[4] + data
          /\ Header + 4 + p <= ms           \* Rread:  count[4] + data

-----------------------------------------------------------------------------
(* C13: the server never exceeds the msize it announced *)

\* count classes relative to the negotiated msize ms (numbers; Huge = 2^32-1)
\* ms is the msize the CLIENT asks for; the server announces (and must keep to) Eff(ms)
Eff(ms) == IF ms > Max4M THEN Max4M ELSE ms
Counts(ms) == {0, 1, Eff(ms) - 12, Eff(ms) - 11, Eff(ms) - 10, Eff(ms) - 1, Eff(ms), Eff(ms) + 1, Max4M, Max4M + 1, Huge} \ {-2, -3, -4, -5}
ReadMsizes == {64, 128, 4096, 8192, 65536, Max4M, Max4M + 1, 2 * Max4M}

\* the most data an Rread / Rreaddir may carry under msize ms
MaxData(ms) == Eff(ms) - (Header + 4)

\* What the server may answer to Tread/Treaddir(count) under ms: data of at most
\* min(count, MaxData) bytes - or an Rlerror (the statement: "the data is shortened,
\* not the limit broken"; refusing is accepted too).  What it must never do is
\* send a frame longer than ms.
FrameOK(ms, framelen) == framelen <= ms
ASSUME \A ms \in ReadMsizes : \A c \in Counts(ms) :
          LET n == IF c = Huge THEN MaxData(ms) ELSE Min(c, MaxData(ms)) IN
          n >= 0 => FrameOK(Eff(ms), Header + 4 + n)

\* A directory reply carries whole entries only: qid[13] offset[8] type[1] name[s]; their total is
\* within the requested count (C01) and the frame within msize (C13).  Swept over 72 consecutive
\* msize values with an unbounded count, and over 150 consecutive counts, so that every position of
\* the cut relative to an entry boundary occurs; name lengths cycle through DirNameLens.
DirNameLens == <<1, 2, 9, 3, 255, 1, 17, 40>>
DirentSize(len) == 13 + 8 + 1 + 2 + len
DirLimit(ms, count) == IF count = Huge \/ count > ms - (Header + 4) THEN ms - (Header + 4) ELSE count
DirFitCases == {<<ms, Huge>> : ms \in 2048..2119} \cup {<<8192, c>> : c \in 0..150} \cup {<<ms, ms - 11>> : ms \in 700..760}
ASSUME \A i \in 1..Len(DirNameLens) : DirentSize(DirNameLens[i]) = 24 + DirNameLens[i]

\* kinds: Tread on a file, Treaddir, and Tread on a fid made by Txattrwalk (the attribute's value is served
\* from memory by another branch of the handler)
SizeCases == {<<ms, c, k, r>> : ms \in ReadMsizes, c \in UNION {Counts(m) : m \in ReadMsizes}, k \in {"read", "readdir"},
                                r \in {"once", "smaller", "larger"}}
             \cup {<<ms, c, "xread", "once">> : ms \in ReadMsizes, c \in UNION {Counts(m) : m \in ReadMsizes}}
\* "smaller"/"larger": the msize was first negotiated as 4*ms (capped) / ms \div 2 and then re-negotiated to ms
SizeCasesOK == {c \in SizeCases : c[2] = Huge \/ c[2] >= 0}
=============================================================================
