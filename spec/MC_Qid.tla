-------------------------------- MODULE MC_Qid --------------------------------
EXTENDS Qid, Json, IOUtils, CSV
ASSUME "GEN_OUT" \in DOMAIN IOEnv =>
  \A p \in Pairs : CSVWrite("%1$s", <<ToJson([maj |-> p.maj, min |-> p.min, up |-> p.up, ino |-> p.ino, likely |-> Likely(p)])>>, IOEnv.GEN_OUT)
=============================================================================
