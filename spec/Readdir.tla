------------------------------ MODULE Readdir ------------------------------
(***************************************************************************)
(* Paged directory listing (C19): the client lists a directory by repeated *)
(* Readdir calls, each starting at the Offset of the last entry received;  *)
(* every page carries only the whole entries that fit in the requested     *)
(* byte count (p9/messages.go rreaddir.encode).  Backends:                 *)
(*   index   fsimpl/readdir.Readdir (staticfs, composefs): entries after   *)
(*           the offset, Offset = index                                    *)
(*   local   fsimpl/localfs.Readdir: reads names through the open          *)
(*           directory handle; as repaired it rewinds the handle and skips *)
(*           `offset' entries; the finding R8 (cursor restarts at 0 while  *)
(*           the handle keeps its position; entry at the offset repeated)  *)
(*           is kept as a deviation                                        *)
(* A page is described by how many of the next entries fit in the byte     *)
(* count of that call (at least one); the harness turns that into bytes.   *)
(***************************************************************************)
EXTENDS Integers, Sequences, FiniteSets, TLC

CONSTANTS MaxN,        \* directory sizes 0..MaxN
          Fits,        \* per-call: how many whole entries fit the requested count, e.g. {1, 2, 3, 99}
          MaxSeq,      \* length of the (cycled) per-call sequence
          Backends, Fixed

Dev(x) == x \notin Fixed

VARIABLES n, backend, fitseq,   \* the case
          off, got, calls, hpos, done

vars == <<n, backend, fitseq, off, got, calls, hpos, done>>

Init == /\ n \in 0..MaxN /\ backend \in Backends
        /\ fitseq \in UNION {[1..k -> Fits] : k \in 1..MaxSeq}
        /\ off = 0 /\ got = <<>> /\ calls = 0 /\ hpos = 0 /\ done = FALSE

Fit == fitseq[(calls % Len(fitseq)) + 1]

\* what the backend hands to the server for Readdir(off, count): entry numbers (= their Offset cookies)
RECURSIVE FromHandle(_, _, _, _)
FromHandle(h, cursor, o, acc) ==       \* the unrepaired localfs loop: handle position h, cursor counts from 0 per call
  IF h >= n THEN [ents |-> acc, h |-> h]
  ELSE LET c == cursor + 1 IN
       IF c < o THEN FromHandle(h + 1, c, o, acc) ELSE FromHandle(h + 1, c, o, Append(acc, c))

BackendPage ==
  IF backend = "local" /\ Dev("R8")
  THEN FromHandle(hpos, 0, off, <<>>)
  ELSE [ents |-> [i \in 1..(n - off) |-> off + i], h |-> n]      \* entries after the offset

Call ==
  /\ ~done
  /\ LET bp == BackendPage
         page == SubSeq(bp.ents, 1, IF Fit < Len(bp.ents) THEN Fit ELSE Len(bp.ents))    \* whole entries that fit
     IN /\ hpos' = bp.h
        /\ IF page = <<>> THEN done' = TRUE /\ UNCHANGED <<got, off>>
           ELSE /\ got' = got \o page /\ off' = page[Len(page)] /\ done' = FALSE
  /\ calls' = calls + 1 /\ UNCHANGED <<n, backend, fitseq>>

Next == Call
Spec == Init /\ [][Next]_vars

\* every entry exactly once, in a listing that terminates
Complete == done => got = [i \in 1..n |-> i]
NoDuplicates == \A i, j \in 1..Len(got) : i # j => got[i] # got[j]
Terminates == calls <= n + 1
=============================================================================
