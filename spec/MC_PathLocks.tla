---------------------------- MODULE MC_PathLocks ----------------------------
(* Model-checking wrapper of PathLocks.tla.  With $GEN_OUT set, every state  *)
(* with two calls inside the backend writes the pair (the may-overlap        *)
(* matrix; duplicates are removed by the consumer).                          *)
EXTENDS PathLocks, Json, IOUtils, CSV

Desc(h) == [p |-> plan[h].p, n |-> plan[h].n, e |-> plan[h].e, k |-> K(h), i |-> pc[h]]
Pairs == IF "GEN_OUT" \in DOMAIN IOEnv
         THEN \A a, b \in H : (a # b /\ In(a) /\ In(b) /\ <<a, pc[a]>> \in ba[b]) =>    \* b began while a was inside this call
                 CSVWrite("%1$s", <<ToJson([a |-> Desc(a), b |-> Desc(b)])>>, IOEnv.GEN_OUT)
         ELSE TRUE
=============================================================================
