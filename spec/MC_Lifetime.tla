---------------------------- MODULE MC_Lifetime ----------------------------
(* Model-checking wrapper of Lifetime.tla.  With $GEN_OUT set (-workers 1)   *)
(* every explored edge is written as {f, a, t, o} for lib/bigstep.py: a step *)
(* is a stimulus when it starts a thread (a request is sent / the client     *)
(* hangs up) or lets a gated backend call return; everything else is         *)
(* internal to the server.                                                   *)
EXTENDS Lifetime, Json, IOUtils, CSV, TLCExt

Stim == IF started' # started
        THEN [a |-> "Start", r |-> ToString(CHOOSE t \in T : started'[t] # started[t])]
        ELSE IF \E e \in inb \ inb' : e[2] \in Gated
        THEN LET e == CHOOSE x \in inb \ inb' : x[2] \in Gated IN [a |-> "Release", r |-> e[2] \o ":" \o ToString(e[3])]
        ELSE [a |-> "i", r |-> ""]

\* TLCFP yields 32 bits: with 10^5 states two of them collide in most runs, and a collision merges two states
\* of the dumped graph.  Two fingerprints of differently salted values give 64 bits.
FP2(v) == <<TLCFP(v), TLCFP(<<"salt", v>>)>>

EdgeDump == IF "GEN_OUT" \in DOMAIN IOEnv
            THEN CSVWrite("%1$s", <<ToJson([f |-> FP2(vars), a |-> Stim, t |-> FP2(vars'), o |-> Obs'])>>, IOEnv.GEN_OUT)
            ELSE TRUE
=============================================================================
