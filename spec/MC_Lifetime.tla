---------------------------- MODULE MC_Lifetime ----------------------------
(* Model-checking wrapper of Lifetime.tla.  With $GEN_OUT set (-workers 1)   *)
(* every explored edge is written as {f, a, t, o} for lib/bigstep.py: a step *)
(* is a stimulus when it starts a thread (a request is sent / the client     *)
(* hangs up) or lets a gated backend call return; everything else is         *)
(* internal to the server.                                                   *)
EXTENDS Lifetime, Json, IOUtils, CSV, TLCExt

Stim == IF started' # started
        THEN [a |-> "Start", r |-> ToString(CHOOSE t \in T : started'[t] # started[t])]
        ELSE IF \E e \in inb \ inb' : e[2] \in Gated
        THEN LET e == CHOOSE x \in inb \ inb' : x[2] \in Gated IN [a |-> "Release", r |-> e[2] \o ":" \o ToString(e[3])]
        ELSE [a |-> "i", r |-> ""]

EdgeDump == IF "GEN_OUT" \in DOMAIN IOEnv
            THEN CSVWrite("%1$s", <<ToJson([f |-> TLCFP(vars), a |-> Stim, t |-> TLCFP(vars'), o |-> Obs'])>>, IOEnv.GEN_OUT)
            ELSE TRUE
=============================================================================
