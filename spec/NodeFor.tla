------------------------------ MODULE NodeFor ------------------------------
(***************************************************************************)
(* pathNode.pathNodeFor (p9/path_tree.go): the get-or-create of the path   *)
(* node - and with it of the per-path operation lock opMu - that every     *)
(* walk, create and mkdir performs.  PathLocks.tla has ONE lock per path;  *)
(* that is true of the code only if concurrent first-time lookups of a     *)
(* name all end up with the same node.  Steps: fast path (read under       *)
(* childMu.RLock), slow path (childMu.Lock, RE-CHECK, insert).             *)
(***************************************************************************)
EXTENDS Integers, FiniteSets, TLC

CONSTANTS Callers, Names

VARIABLES node,     \* [Names -> node id | 0]   the parent's childNodes map
          nextId, pc, want, got

vars == <<node, nextId, pc, want, got>>

Init == /\ node = [n \in Names |-> 0] /\ nextId = 1
        /\ pc = [c \in Callers |-> "idle"] /\ want \in [Callers -> Names] /\ got = [c \in Callers |-> 0]

Fast(c) == /\ pc[c] = "idle"
           /\ IF node[want[c]] # 0
              THEN got' = [got EXCEPT ![c] = node[want[c]]] /\ pc' = [pc EXCEPT ![c] = "done"]
              ELSE got' = got /\ pc' = [pc EXCEPT ![c] = "slow"]
           /\ UNCHANGED <<node, nextId, want>>
\* the whole slow path runs under the write lock: atomic
Slow(c) == /\ pc[c] = "slow"
           /\ IF node[want[c]] # 0                                      \* re-check after re-lock
              THEN got' = [got EXCEPT ![c] = node[want[c]]] /\ UNCHANGED <<node, nextId>>
              ELSE /\ node' = [node EXCEPT ![want[c]] = nextId] /\ nextId' = nextId + 1
                   /\ got' = [got EXCEPT ![c] = nextId]
           /\ pc' = [pc EXCEPT ![c] = "done"] /\ UNCHANGED want

Next == \E c \in Callers : Fast(c) \/ Slow(c)
Spec == Init /\ [][Next]_vars

\* everybody who asked for a name holds the node that is in the tree for it
OneNodePerName == \A c \in Callers : pc[c] = "done" => got[c] = node[want[c]]
SameNameSameNode == \A a, b \in Callers : (pc[a] = "done" /\ pc[b] = "done" /\ want[a] = want[b]) => got[a] = got[b]
=============================================================================
