-------------------------------- MODULE Qid --------------------------------
(***************************************************************************)
(* QID identity and mode mapping (C20).                                    *)
(*                                                                         *)
(* localfs (fsimpl/localfs/system_unix.go): a (device, inode) pair whose   *)
(* inode fits 39 bits, whose device has no bits above major/minor and      *)
(* whose major and minor fit 12 bits each is encoded compactly as          *)
(*      path = major << 51 | minor << 39 | inode          (bit 63 clear)   *)
(* every other pair gets a path from a table fed by a counter that starts  *)
(* at 2^63 (bit 63 set, so the two ranges are disjoint).                   *)
(* Numbers are kept as field records; the harness computes the integers.   *)
(*                                                                         *)
(* qids.Mapper (staticfs, composefs): QIDFor(source path) looks the path   *)
(* up and otherwise allocates the next path and stores it; requests call   *)
(* it concurrently.                                                        *)
(***************************************************************************)
EXTENDS Integers, Sequences, FiniteSets, TLC

CONSTANT Fixed
Dev(x) == x \notin Fixed

InoBits == 39   MinorBits == 12   MajorBits == 12
\* field values as symbolic magnitudes: value classes and whether they fit their field
Inos   == {"1", "2", "3", "2^39-1", "2^39", "2^39+1", "2^63", "2^64-1"}
Majors == {"0", "8", "2048", "4095", "4096", "2^20-1"}
Minors == {"0", "1", "4095", "4096", "2^20-1"}
Uppers == {"0", "1"}                                   \* any device bit above major/minor
InoFits(i) == i \in {"1", "2", "3", "2^39-1"}
MajFits(m) == m \in {"0", "8", "2048", "4095"}
MinFits(m) == m \in {"0", "1", "4095"}

Pairs == {[maj |-> a, min |-> b, up |-> u, ino |-> i] : a \in Majors, b \in Minors, u \in Uppers, i \in Inos}
Likely(p) == InoFits(p.ino) /\ MajFits(p.maj) /\ MinFits(p.min) /\ p.up = "0"

\* the path of a pair: compact field record, or the k-th table entry
Path(p, k) == IF Likely(p) THEN [kind |-> "compact", maj |-> p.maj, min |-> p.min, ino |-> p.ino, k |-> 0]
              ELSE [kind |-> "table", maj |-> "", min |-> "", ino |-> "", k |-> k]

\* injective: compact records of distinct likely pairs differ (fields are copied, not folded) and table
\* entries are numbered apart; the two kinds never coincide because table paths have bit 63 set
ASSUME \A p, q \in Pairs : (Likely(p) /\ Likely(q) /\ p # q) => Path(p, 0) # Path(q, 0)
ASSUME \A p, q \in Pairs : (Likely(p) /\ ~Likely(q)) => Path(p, 0).kind # Path(q, 1).kind

-----------------------------------------------------------------------------
(* Mapper.QIDFor under concurrent callers *)

CONSTANTS Callers, Sources       \* e.g. {1,2,3}, {"x","y"}

VARIABLES table,      \* [Sources -> path | 0]
          nextp,      \* PathGenerator counter
          pc, src, miss, ret, held

vars == <<table, nextp, pc, src, miss, ret, held>>

Init == /\ table = [s \in Sources |-> 0] /\ nextp = 0
        /\ pc = [c \in Callers |-> "idle"] /\ src = [c \in Callers |-> "x"]
        /\ miss = [c \in Callers |-> FALSE] /\ ret = [c \in Callers |-> <<>>] /\ held = 0

\* repaired: the whole of QIDFor runs under the mapper's mutex; as found (R7): two unguarded steps
Begin(c, s) == /\ pc[c] = "idle" /\ Len(ret[c]) < 2
               /\ (~Dev("R7") => held = 0)
               /\ held' = IF Dev("R7") THEN held ELSE c
               /\ src' = [src EXCEPT ![c] = s] /\ pc' = [pc EXCEPT ![c] = "lookup"]
               /\ UNCHANGED <<table, nextp, miss, ret>>
Lookup(c) == /\ pc[c] = "lookup"
             /\ IF table[src[c]] # 0
                THEN /\ ret' = [ret EXCEPT ![c] = Append(@, <<src[c], table[src[c]]>>)]
                     /\ pc' = [pc EXCEPT ![c] = "idle"] /\ held' = IF held = c THEN 0 ELSE held
                     /\ UNCHANGED miss
                ELSE /\ pc' = [pc EXCEPT ![c] = "store"] /\ UNCHANGED <<ret, held, miss>>
             /\ UNCHANGED <<table, nextp, src>>
Store(c) == /\ pc[c] = "store"
            /\ nextp' = nextp + 1
            /\ table' = [table EXCEPT ![src[c]] = nextp + 1]
            /\ ret' = [ret EXCEPT ![c] = Append(@, <<src[c], nextp + 1>>)]
            /\ pc' = [pc EXCEPT ![c] = "idle"] /\ held' = IF held = c THEN 0 ELSE held
            /\ UNCHANGED <<src, miss>>

Next == \E c \in Callers : (\E s \in Sources : Begin(c, s)) \/ Lookup(c) \/ Store(c)
Spec == Init /\ [][Next]_vars

Returned == UNION {{ret[c][i] : i \in 1..Len(ret[c])} : c \in Callers}
\* one path per source for good, distinct sources distinct paths
Stable == \A a, b \in Returned : a[1] = b[1] => a[2] = b[2]
Injective == \A a, b \in Returned : a[2] = b[2] => a[1] = b[1]

-----------------------------------------------------------------------------
(* Mode mapping: FileMode <-> os.FileMode round trip on type, rwx, setuid, setgid, sticky *)
Types == {"reg", "dir", "sym", "fifo", "chr", "blk", "sock"}
Perms == 0..4095
ToOS(t, p) == [type |-> t, rwx |-> p % 512, sticky |-> (p \div 512) % 2, setgid |-> (p \div 1024) % 2, setuid |-> (p \div 2048) % 2]
FromOS(o) == <<o.type, o.rwx + 512 * o.sticky + 1024 * o.setgid + 2048 * o.setuid>>
ASSUME \A t \in Types : \A p \in Perms : FromOS(ToOS(t, p)) = <<t, p>>
=============================================================================
