
