--------------------------- MODULE MC_WireExport ---------------------------
EXTENDS Wire, IOUtils
ASSUME ExportLayout(IOEnv.OUT)
ASSUME PrintT(<<"largestfixed", LargestFixed>>)
=============================================================================
