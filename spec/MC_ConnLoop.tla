---------------------------- MODULE MC_ConnLoop ----------------------------
(* Model-checking wrapper of ConnLoop.tla.  With $GEN_OUT set (-workers 1),  *)
(* every explored edge is written as {f, a, t, o}: fingerprint of the source *)
(* state, step label, fingerprint of the target state and what is observable *)
(* in the target state; lib/bigstep.py folds internal steps into quiescent   *)
(* big steps and derives stimulus scripts from the graph.                    *)
EXTENDS ConnLoop, Json, IOUtils, CSV, TLCExt

Obs(o, gt, g) == [replies |-> {o[i][1] : i \in {j \in 1..Len(o) : o[j][2] = "tail"}},
                  gated |-> gt,
                  exited |-> \A x \in G : g[x] \in {"exit", "none"}]

EdgeDump == IF "GEN_OUT" \in DOMAIN IOEnv
            THEN CSVWrite("%1$s", <<ToJson([f |-> TLCFP(View), a |-> last', t |-> TLCFP(View'),
                                            o |-> Obs(out', gated', gs')])>>, IOEnv.GEN_OUT)
            ELSE TRUE
=============================================================================
