---------------------------- MODULE MC_ConnLoop ----------------------------
(* Model-checking wrapper of ConnLoop.tla.  With $GEN_OUT set (-workers 1),  *)
(* every explored edge is written as {f, a, t, o}: fingerprint of the source *)
(* state, step label, fingerprint of the target state and what is observable *)
(* in the target state; lib/bigstep.py folds internal steps into quiescent   *)
(* big steps and derives stimulus scripts from the graph.                    *)
EXTENDS ConnLoop, Json, IOUtils, CSV, TLCExt

Obs(o, gt, g) == [replies |-> {o[i][1] : i \in {j \in 1..Len(o) : o[j][2] = "tail"}},
                  gated |-> gt,
                  exited |-> \A x \in G : g[x] \in {"exit", "none"}]

\* TLCFP yields 32 bits: with 10^5 states two of them collide in most runs, and a collision merges two states
\* of the dumped graph.  Two fingerprints of differently salted values give 64 bits.
FP2(v) == <<TLCFP(v), TLCFP(<<"salt", v>>)>>

EdgeDump == IF "GEN_OUT" \in DOMAIN IOEnv
            THEN CSVWrite("%1$s", <<ToJson([f |-> FP2(View), a |-> last', t |-> FP2(View'),
                                            o |-> Obs(out', gated', gs')])>>, IOEnv.GEN_OUT)
            ELSE TRUE
=============================================================================
