------------------------------- MODULE Client -------------------------------
(***************************************************************************)
(* The p9 client multiplexer (p9/client.go sendRecv / waitAndRecv /        *)
(* handleOne, p9/pool.go) with a scripted server as environment.           *)
(*                                                                         *)
(* Callers run sendRecv concurrently:                                      *)
(*   Start     tagPool.Get (LIFO), responsePool.Get (any pooled object or  *)
(*             a new one), pending[tag] = resp under pendingMu             *)
(*   SendLock / Send    the request frame under sendMu; a failed write     *)
(*             makes the call return an error (its tag and response object *)
(*             go back to their pools; the pending entry stays - R14)      *)
(*   Wait      select: own done channel, or the receive token              *)
(*   Tok       with the token: done first, otherwise handleOne             *)
(*   Recv      handleOne: one frame from the server, look up pending[tag]  *)
(*   Deliver   a matching reply: decode into the registered object's       *)
(*             message, delete the entry, done <- nil                      *)
(*   Bcast     any error: done <- err for EVERY pending entry while        *)
(*             holding pendingMu (each send blocks while the 1-slot        *)
(*             channel is full), then pending = {}                         *)
(*   Ret       the call returns; deferred Put of object and tag            *)
(* Stimuli (harness): Begin(k), Answer(j), Bad(kind, j), Close, FailWrites, *)
(* HoldWrites, HoldReturns, ReleaseReturns                                 *)
(***************************************************************************)
EXTENDS Integers, Sequences, FiniteSets, TLC

CONSTANTS Callers,     \* 1..N, each makes one call
          Objs,        \* response objects that may ever exist
          MaxBad,      \* bound on faulty frames injected
          Twice,       \* callers that make two calls (the others make one)
          Holds,       \* subset of {"pre", "post"}: the harness may hold the client's writes before delivery
                       \* (HoldWrites) / delay their return after delivery (HoldReturns)
          Refusals,    \* TRUE: the server may also refuse requests (Refuse)
          Fixed        \* findings repaired: "R14" (entry removed on failed send),
                       \*                    "R15" (a frame the client cannot accept ends the connection)

Dev(x) == x \notin Fixed
NoTag == 0

VARIABLES
  pc, tag, obj,      \* per caller
  rm,                \* [Callers -> what was decoded into the caller's reply message: 0 | request id]
  res,               \* [Callers -> "" | "ok" | "err"]: result of the returned call
  tagcache, tagnext, \* pool.go
  free,              \* pooled response objects
  owner,             \* [Objs -> caller whose message the object points to | 0]
  done,              \* [Objs -> "empty" | "nil" | "err"]: the 1-slot channel
  pending,           \* [tag -> object | 0]
  pmu, smu, token,   \* holders | 0
  frame,             \* the frame handleOne is processing (record) per token holder
  wire,              \* requests the server has received: sequence of [k, tag]
  answered,          \* indices of wire already answered
  inbox,             \* frames from the server not yet read
  closed, wfail, nbad, whold,
  ncall,             \* [Callers -> calls begun so far]
  last

vars == <<pc, tag, obj, rm, res, tagcache, tagnext, free, owner, done, pending, pmu, smu, token, frame,
          wire, answered, inbox, closed, wfail, nbad, whold, ncall, last>>
View == <<pc, tag, obj, rm, res, tagcache, tagnext, free, owner, done, pending, pmu, smu, token, frame,
          wire, answered, inbox, closed, wfail, nbad, whold, ncall>>

Tags == 1..(Cardinality(Callers) + 1)
L(a, k, r) == last' = [a |-> a, g |-> k, r |-> r]
NoFrame == [kind |-> "none", tag |-> 0, req |-> 0]

Init ==
  /\ pc = [k \in Callers |-> "idle"] /\ tag = [k \in Callers |-> 0] /\ obj = [k \in Callers |-> 0]
  /\ rm = [k \in Callers |-> 0] /\ res = [k \in Callers |-> ""]
  /\ tagcache = <<>> /\ tagnext = 1
  /\ free = {} /\ owner = [o \in Objs |-> 0] /\ done = [o \in Objs |-> "empty"]
  /\ pending = [t \in Tags |-> 0]
  /\ pmu = 0 /\ smu = 0 /\ token = 0 /\ frame = NoFrame
  /\ wire = <<>> /\ answered = {} /\ inbox = <<>>
  /\ closed = FALSE /\ wfail = FALSE /\ nbad = 0 /\ whold = 0
  /\ ncall = [k \in Callers |-> 0]
  /\ last = [a |-> "init", g |-> 0, r |-> 0]

-----------------------------------------------------------------------------
(* Stimuli *)

\* The harness starts caller k (its goroutine then runs by itself).
Begin(k) ==
  /\ pc[k] \in {"idle", "done"} /\ ncall[k] < (IF k \in Twice THEN 2 ELSE 1)
  /\ ncall' = [ncall EXCEPT ![k] = @ + 1]
  /\ pc' = [pc EXCEPT ![k] = "start"]
  /\ res' = [res EXCEPT ![k] = ""]
  /\ L("Begin", 0, k)
  /\ UNCHANGED <<tag, obj, rm, tagcache, tagnext, free, owner, done, pending, pmu, smu, token, frame, wire, answered, inbox, closed, wfail, nbad, whold>>

\* The server answers the i-th request it received, correctly.
Answer(i) ==
  /\ i \in 1..Len(wire) /\ i \notin answered /\ ~closed
  /\ inbox' = Append(inbox, [kind |-> "reply", tag |-> wire[i].tag, req |-> wire[i].k])
  /\ answered' = answered \cup {i}
  /\ L("Answer", 0, i)
  /\ UNCHANGED <<pc, tag, obj, rm, res, tagcache, tagnext, free, owner, done, pending, pmu, smu, token, frame, wire, closed, wfail, nbad, ncall, whold>>

\* The server refuses the i-th request: an Rlerror carrying an errno of that request's own (1000 + request id
\* stands for it).  To the multiplexer this is a reply like any other; the caller must get ITS errno.
Refuse(i) ==
  /\ i \in 1..Len(wire) /\ i \notin answered /\ ~closed
  /\ inbox' = Append(inbox, [kind |-> "reply", tag |-> wire[i].tag, req |-> 1000 + wire[i].k])
  /\ answered' = answered \cup {i}
  /\ L("Refuse", 0, i)
  /\ UNCHANGED <<pc, tag, obj, rm, res, tagcache, tagnext, free, owner, done, pending, pmu, smu, token, frame, wire, closed, wfail, nbad, ncall, whold>>

\* A frame the client cannot accept: a tag nobody has outstanding, a reply of
\* the wrong type for request i, or a size field below the header size.
Bad(kind, i) ==
  /\ ~closed /\ nbad < MaxBad
  /\ kind \in {"badtag", "garbage"} \/ (kind \in {"badtype", "badbody", "cut"} /\ i \in 1..Len(wire) /\ i \notin answered)
  \* badbody: right tag and type, body that does not decode; cut: header and part of the
  \* body of the reply, then the stream ends
  /\ inbox' = Append(inbox, [kind |-> kind, tag |-> IF kind \in {"badtype", "badbody", "cut"} THEN wire[i].tag ELSE 0, req |-> 0])
  /\ nbad' = nbad + 1
  /\ closed' = (closed \/ kind = "cut") /\ wfail' = (wfail \/ kind = "cut")
  /\ L(kind, 0, i)
  /\ UNCHANGED <<pc, tag, obj, rm, res, tagcache, tagnext, free, owner, done, pending, pmu, smu, token, frame, wire, answered, ncall, whold>>

Close ==
  /\ ~closed /\ closed' = TRUE /\ wfail' = TRUE
  /\ L("Close", 0, 0)
  /\ UNCHANGED <<pc, tag, obj, rm, res, tagcache, tagnext, free, owner, done, pending, pmu, smu, token, frame, wire, answered, inbox, nbad, ncall, whold>>

\* whold: 0 writes go through; 1 the client's writes block (before anything is delivered) until
\* FailWrites / Close lets them fail; 2 a write delivers its frame at once but RETURNS to the client
\* only after ReleaseReturns (a slow transport: the server may answer before the sender resumes).
HoldWrites ==
  /\ "pre" \in Holds /\ whold = 0 /\ ~wfail /\ whold' = 1
  /\ L("HoldWrites", 0, 0)
  /\ UNCHANGED <<pc, tag, obj, rm, res, tagcache, tagnext, free, owner, done, pending, pmu, smu, token, frame, wire, answered, inbox, closed, wfail, nbad, ncall>>

HoldReturns ==
  /\ "post" \in Holds /\ whold = 0 /\ ~wfail /\ ~closed /\ whold' = 2
  /\ L("HoldReturns", 0, 0)
  /\ UNCHANGED <<pc, tag, obj, rm, res, tagcache, tagnext, free, owner, done, pending, pmu, smu, token, frame, wire, answered, inbox, closed, wfail, nbad, ncall>>

ReleaseReturns ==
  /\ whold = 2 /\ whold' = 0
  /\ L("ReleaseReturns", 0, 0)
  /\ UNCHANGED <<pc, tag, obj, rm, res, tagcache, tagnext, free, owner, done, pending, pmu, smu, token, frame, wire, answered, inbox, closed, wfail, nbad, ncall>>

FailWrites ==
  /\ ~wfail /\ wfail' = TRUE
  /\ L("FailWrites", 0, 0)
  /\ UNCHANGED <<pc, tag, obj, rm, res, tagcache, tagnext, free, owner, done, pending, pmu, smu, token, frame, wire, answered, inbox, closed, nbad, ncall, whold>>

-----------------------------------------------------------------------------
(* sendRecv *)

Start(k) ==
  /\ pc[k] = "start" /\ pmu = 0
  /\ LET t == IF tagcache # <<>> THEN tagcache[Len(tagcache)] ELSE tagnext IN
     /\ t \in Tags
     /\ tag' = [tag EXCEPT ![k] = t]
     /\ tagcache' = IF tagcache # <<>> THEN SubSeq(tagcache, 1, Len(tagcache) - 1) ELSE tagcache
     /\ tagnext' = IF tagcache # <<>> THEN tagnext ELSE tagnext + 1
     /\ \E o \in (free \cup {x \in Objs : owner[x] = 0 /\ x \notin free /\ \A y \in Objs : (owner[y] = 0 /\ y \notin free) => x <= y}) :
          /\ obj' = [obj EXCEPT ![k] = o]
          /\ free' = free \ {o}
          /\ owner' = [owner EXCEPT ![o] = k]
          /\ pending' = [pending EXCEPT ![t] = o]
  /\ rm' = [rm EXCEPT ![k] = 0]
  /\ pc' = [pc EXCEPT ![k] = "sendlock"]
  /\ L("Start", k, 0)
  /\ UNCHANGED <<res, done, pmu, smu, token, frame, wire, answered, inbox, closed, wfail, nbad, ncall, whold>>

SendLock(k) ==
  /\ pc[k] = "sendlock" /\ smu = 0
  /\ smu' = k /\ pc' = [pc EXCEPT ![k] = "send"]
  /\ L("SendLock", k, 0)
  /\ UNCHANGED <<tag, obj, rm, res, tagcache, tagnext, free, owner, done, pending, pmu, token, frame, wire, answered, inbox, closed, wfail, nbad, ncall, whold>>

Send(k) ==
  /\ pc[k] = "send" /\ (whold # 1 \/ wfail)
  /\ smu' = IF ~wfail /\ whold = 2 THEN smu ELSE 0
  /\ IF wfail
     THEN /\ pc' = [pc EXCEPT ![k] = "ret"]
          /\ res' = [res EXCEPT ![k] = "err"]
          /\ pending' = IF Dev("R14") THEN pending ELSE [pending EXCEPT ![tag[k]] = 0]
          /\ done' = IF Dev("R14") THEN done ELSE [done EXCEPT ![obj[k]] = "empty"]    \* (fixed) drained
          /\ UNCHANGED wire
     ELSE /\ wire' = Append(wire, [k |-> 10 * ncall[k] + k, tag |-> tag[k]])      \* request id = (call number, caller)
          /\ pc' = [pc EXCEPT ![k] = IF whold = 2 THEN "sent" ELSE "wait"]
          /\ UNCHANGED <<res, pending, done>>
  /\ L("Send", k, 0)
  /\ UNCHANGED <<tag, obj, rm, tagcache, tagnext, free, owner, pmu, token, frame, answered, inbox, closed, wfail, nbad, ncall, whold>>

\* the frame is out, Write has not returned yet (sendMu still held)
SendRet(k) ==
  /\ pc[k] = "sent" /\ (whold # 2 \/ wfail \/ closed)
  /\ smu' = 0 /\ pc' = [pc EXCEPT ![k] = "wait"]
  /\ L("SendRet", k, 0)
  /\ UNCHANGED <<tag, obj, rm, res, tagcache, tagnext, free, owner, done, pending, pmu, token, frame, wire, answered, inbox, closed, wfail, nbad, ncall, whold>>

\* waitAndRecv: outer select
WaitDone(k) ==
  /\ pc[k] = "wait" /\ done[obj[k]] # "empty"
  /\ res' = [res EXCEPT ![k] = IF done[obj[k]] = "nil" THEN "ok" ELSE "err"]
  /\ done' = [done EXCEPT ![obj[k]] = "empty"]
  /\ pc' = [pc EXCEPT ![k] = "ret"]
  /\ L("WaitDone", k, 0)
  /\ UNCHANGED <<tag, obj, rm, tagcache, tagnext, free, owner, pending, pmu, smu, token, frame, wire, answered, inbox, closed, wfail, nbad, ncall, whold>>

WaitToken(k) ==
  /\ pc[k] = "wait" /\ token = 0
  /\ token' = k /\ pc' = [pc EXCEPT ![k] = "tok"]
  /\ L("WaitToken", k, 0)
  /\ UNCHANGED <<tag, obj, rm, res, tagcache, tagnext, free, owner, done, pending, pmu, smu, frame, wire, answered, inbox, closed, wfail, nbad, ncall, whold>>

\* inner select: done wins if ready, otherwise handleOne
Tok(k) ==
  /\ pc[k] = "tok"
  /\ IF done[obj[k]] # "empty"
     THEN /\ res' = [res EXCEPT ![k] = IF done[obj[k]] = "nil" THEN "ok" ELSE "err"]
          /\ done' = [done EXCEPT ![obj[k]] = "empty"]
          /\ token' = 0 /\ pc' = [pc EXCEPT ![k] = "ret"]
     ELSE /\ pc' = [pc EXCEPT ![k] = "recv"] /\ UNCHANGED <<res, done, token>>
  /\ L("Tok", k, 0)
  /\ UNCHANGED <<tag, obj, rm, tagcache, tagnext, free, owner, pending, pmu, smu, frame, wire, answered, inbox, closed, wfail, nbad, ncall, whold>>

\* handleOne: read one frame (or the end of the stream)
Recv(k) ==
  /\ pc[k] = "recv" /\ pmu = 0
  /\ \/ /\ inbox # <<>>
        /\ LET f == Head(inbox) IN
           /\ inbox' = Tail(inbox)
           /\ IF f.kind = "reply" /\ pending[f.tag] # 0
              THEN \* lookup succeeded: decode into the registered object's message
                   /\ frame' = f /\ pc' = [pc EXCEPT ![k] = "deliver"] /\ pmu' = 0
              ELSE /\ frame' = f /\ pc' = [pc EXCEPT ![k] = "bcast"] /\ pmu' = k
     \/ /\ inbox = <<>> /\ closed
        /\ frame' = [kind |-> "eof", tag |-> 0, req |-> 0]
        /\ pc' = [pc EXCEPT ![k] = "bcast"] /\ pmu' = k
        /\ UNCHANGED inbox
  /\ L("Recv", k, 0)
  /\ UNCHANGED <<tag, obj, rm, res, tagcache, tagnext, free, owner, done, pending, smu, token, wire, answered, closed, wfail, nbad, ncall, whold>>

Deliver(k) ==
  /\ pc[k] = "deliver"
  /\ LET o == pending[frame.tag] IN
     /\ o # 0 /\ done[o] = "empty"               \* resp.done <- nil blocks while the slot is full
     /\ rm' = IF owner[o] # 0 THEN [rm EXCEPT ![owner[o]] = frame.req] ELSE rm
     /\ pending' = [pending EXCEPT ![frame.tag] = 0]
     /\ done' = [done EXCEPT ![o] = "nil"]
  /\ token' = 0 /\ frame' = NoFrame
  /\ pc' = [pc EXCEPT ![k] = "wait"]
  /\ L("Deliver", k, 0)
  /\ UNCHANGED <<tag, obj, res, tagcache, tagnext, free, owner, pmu, smu, wire, answered, inbox, closed, wfail, nbad, ncall, whold>>

\* error broadcast, one channel send per step, pendingMu held throughout
Bcast(k) ==
  /\ pc[k] = "bcast"
  /\ LET P == {t \in Tags : pending[t] # 0} IN
     IF P = {}
     THEN /\ pmu' = 0 /\ token' = 0
          /\ pc' = [pc EXCEPT ![k] = "wait"]
          \* (fixed R15) a frame the client cannot accept, like a broken stream, ends the connection
          /\ closed' = IF ~Dev("R15") THEN TRUE ELSE closed
          /\ wfail' = IF ~Dev("R15") THEN TRUE ELSE wfail
          /\ inbox' = IF ~Dev("R15") THEN <<>> ELSE inbox
          /\ frame' = NoFrame
          /\ UNCHANGED <<done, pending>>
     ELSE \E t \in P :
          /\ done[pending[t]] = "empty"
          /\ done' = [done EXCEPT ![pending[t]] = "err"]
          /\ pending' = [pending EXCEPT ![t] = 0]
          /\ UNCHANGED <<pmu, token, pc, closed, wfail, inbox, frame>>
  /\ L("Bcast", k, 0)
  /\ UNCHANGED <<tag, obj, rm, res, tagcache, tagnext, free, owner, smu, wire, answered, nbad, ncall, whold>>

\* the call returns: deferred responsePool.Put, tagPool.Put
Ret(k) ==
  /\ pc[k] = "ret"
  /\ free' = free \cup {obj[k]}
  /\ owner' = [owner EXCEPT ![obj[k]] = 0]
  /\ tagcache' = Append(tagcache, tag[k])
  /\ pc' = [pc EXCEPT ![k] = "done"]
  /\ L("Ret", k, 0)
  /\ UNCHANGED <<tag, obj, rm, res, tagnext, done, pending, pmu, smu, token, frame, wire, answered, inbox, closed, wfail, nbad, ncall, whold>>

Internal(k) == Start(k) \/ SendLock(k) \/ Send(k) \/ SendRet(k) \/ WaitDone(k) \/ WaitToken(k) \/ Tok(k) \/ Recv(k)
               \/ Deliver(k) \/ Bcast(k) \/ Ret(k)

Stimulus == \/ \E k \in Callers : Begin(k)
            \/ \E i \in 1..Len(wire) : Answer(i) \/ (Refusals /\ Refuse(i)) \/ Bad("badtype", i) \/ Bad("badbody", i) \/ Bad("cut", i)
            \/ Bad("badtag", 0) \/ Bad("garbage", 0) \/ Close \/ FailWrites \/ HoldWrites \/ HoldReturns \/ ReleaseReturns

Next == Stimulus \/ \E k \in Callers : Internal(k)
Spec == Init /\ [][Next]_vars /\ \A k \in Callers : WF_vars(Internal(k))

-----------------------------------------------------------------------------
(* Properties (C10) *)

Active(k) == pc[k] \in {"sendlock", "send", "sent", "wait", "tok", "recv", "deliver", "bcast", "ret"}

\* outstanding tags are pairwise distinct and never the sentinel
DistinctTags == \A a, b \in Callers : (a # b /\ Active(a) /\ Active(b)) => (tag[a] # tag[b] /\ tag[a] # NoTag)

\* a call that returns success has received the reply to its own request
OwnReply == \A k \in Callers : (pc[k] = "done" /\ res[k] = "ok") => rm[k] % 1000 = 10 * ncall[k] + k

\* After the connection broke, every pending and later call returns an error;
\* after an unacceptable frame the calls pending then return an error: no
\* reachable state in which a caller can never return.
\* Liveness: every started call eventually returns provided the server answers
\* it or the connection ends.
Returns ==
  \A k \in Callers :
    (pc[k] = "start") ~>
      (pc[k] = "done" \/ (~closed /\ \E i \in 1..Len(wire) : wire[i].k = 10 * ncall[k] + k /\ i \notin answered))

\* Stuck states: nothing internal can happen, yet a caller whose request was
\* answered (or whose connection ended) has not returned.  Checked as an
\* invariant over states in which no internal step is enabled, via the
\* explicit Quiescent predicate below (ENABLED-free).
CanStep(k) ==
  \/ pc[k] = "start" /\ pmu = 0
  \/ pc[k] = "sendlock" /\ smu = 0
  \/ pc[k] = "send" /\ (whold # 1 \/ wfail)
  \/ pc[k] = "sent" /\ (whold # 2 \/ wfail \/ closed)
  \/ pc[k] = "wait" /\ (done[obj[k]] # "empty" \/ token = 0)
  \/ pc[k] = "tok"
  \/ pc[k] = "recv" /\ pmu = 0 /\ (inbox # <<>> \/ closed)
  \/ pc[k] = "deliver" /\ pending[frame.tag] # 0 /\ done[pending[frame.tag]] = "empty"
  \/ pc[k] = "bcast" /\ LET P == {t \in Tags : pending[t] # 0} IN P = {} \/ \E t \in P : done[pending[t]] = "empty"
  \/ pc[k] = "ret"
Quiescent == \A k \in Callers : ~CanStep(k)

\* In a quiescent state every caller has returned unless it is legitimately
\* waiting for a reply the server has not sent on a connection that is up.
NoHang ==
  Quiescent =>
    \A k \in Callers :
      pc[k] \in {"idle", "done"} \/ (whold # 0 /\ ~wfail /\ pc[k] \in {"send", "sendlock", "sent"}) \/
      (~closed /\ \E i \in 1..Len(wire) : wire[i].k = 10 * ncall[k] + k /\ i \notin answered /\ pc[k] \in {"wait", "recv"})

=============================================================================
