------------------------------- MODULE Frames -------------------------------
(***************************************************************************)
(* The receiver's framing decisions (p9/transport.go recv, p9/server.go    *)
(* handleRequest's error arm): for a stream of frames of the kinds below,  *)
(* what is consumed, what is answered and when the connection ends (C02).  *)
(*                                                                         *)
(* Frame kinds (the harness turns each into bytes):                        *)
(*   good        well-formed request without payload      -> its R reply   *)
(*   goodpay     well-formed request with payload (Twrite)-> its R reply   *)
(*   trailing    well-formed body followed by extra bytes inside the frame *)
(*               -> served (the decoder takes what it needs)               *)
(*   rejver      a Tversion the server turns down (another dialect, with a *)
(*               huge or a tiny msize) -> Rversion("unknown", 0); the size *)
(*               bound negotiated before stays in force for what follows   *)
(*   unknown     unregistered type byte, any body -> Rlerror, frame's tag  *)
(*   shortfixed  payload-carrying type whose body is shorter than its      *)
(*               fixed part -> Rlerror (no tag known to the decoder)       *)
(*   empty       size = 7 for a type that needs a body -> Rlerror          *)
(*   overcount   element count larger than the body   -> Rlerror           *)
(*   overstring  string length pointing past the body (by one byte, two    *)
(*               bytes, or more)                      -> Rlerror           *)
(*   truncated   a proper prefix of a well-formed body, of any message     *)
(*               type and any length (the harness sweeps every type and    *)
(*               every prefix length)                 -> Rlerror           *)
(*   paymismatch payload count field /= payload bytes -> Rlerror           *)
(*   size3       size field below 7      -> connection ends, 7 bytes read  *)
(*   sizebig     size field msize + 1    -> connection ends, body unread   *)
(*   sizehuge    size field 2^32 - 1     -> connection ends, body unread   *)
(*   cuthdr      stream ends inside the header -> connection ends          *)
(*   cutbody     stream ends inside the body   -> connection ends, no reply*)
(***************************************************************************)
EXTENDS Integers, Sequences, FiniteSets, TLC

CONSTANTS MaxLen     \* longest stream

Served   == {"good", "goodpay", "trailing", "rejver"}
Rejected == {"unknown", "shortfixed", "empty", "overcount", "overstring", "paymismatch", "truncated"}
Fatal    == {"size3", "sizebig", "sizehuge", "cuthdr", "cutbody"}
Kinds == Served \cup Rejected \cup Fatal

\* what a frame makes the receiver do: <<reply, consumed>>
\*   reply: "R" (the request's reply, frame's tag), "Etag" (Rlerror, frame's tag),
\*          "Enotag" (Rlerror, NOTAG), "none"
\*   consumed: "all" (exactly the declared size), "hdr" (the 7 header bytes), "avail" (what the stream had)
Decision(k) ==
  CASE k \in Served -> <<"R", "all">>
    [] k = "unknown" -> <<"Etag", "all">>
    [] k \in Rejected -> <<"Enotag", "all">>
    [] k \in {"size3", "sizebig", "sizehuge"} -> <<"none", "hdr">>
    [] k \in {"cuthdr", "cutbody"} -> <<"none", "avail">>

VARIABLES stream, i, up, replies, consumed

vars == <<stream, i, up, replies, consumed>>

Init == /\ stream \in UNION {[1..n -> Kinds] : n \in 1..MaxLen}
        /\ i = 1 /\ up = TRUE /\ replies = <<>> /\ consumed = <<>>

\* one frame: header, size checks (before anything is allocated or read), lookup / drain, body, decode
Step == /\ up /\ i <= Len(stream)
        /\ LET d == Decision(stream[i]) IN
           /\ replies' = Append(replies, d[1])
           /\ consumed' = Append(consumed, d[2])
           /\ up' = (stream[i] \notin Fatal)
        /\ i' = i + 1 /\ UNCHANGED stream

Next == Step
Spec == Init /\ [][Next]_vars

\* C02 as properties of the decision procedure
WellDelimitedConsumedExactly == \A j \in 1..Len(consumed) : stream[j] \notin Fatal => consumed[j] = "all"
OneReplyPerWellDelimited == \A j \in 1..Len(replies) : (stream[j] \notin Fatal) <=> (replies[j] # "none")
RejectedAnsweredRlerror == \A j \in 1..Len(replies) : stream[j] \in Rejected => replies[j] \in {"Etag", "Enotag"}
NothingAfterFatal == \A j \in 1..(i - 1) : \A k \in 1..(j - 1) : stream[k] \notin Fatal
FramesAfterRejectedStillServed == (~up \/ i > Len(stream)) =>
    \A j \in 1..Len(stream) : (j < i /\ \A k \in 1..j : stream[k] \notin Fatal) => replies[j] # "none"
BodyNeverReadForBadSize == \A j \in 1..Len(consumed) : stream[j] \in {"size3", "sizebig", "sizehuge"} => consumed[j] = "hdr"
-----------------------------------------------------------------------------
(* The size check itself, for any receiver (server or client): a frame is    *)
(* read only if 7 <= size <= min(msize, 4 MiB); otherwise the connection     *)
(* ends after the 7 header bytes.  Sizes/msizes in KiB units + 1-byte steps  *)
(* are enumerated as symbolic pairs for the harness.                         *)
Max4M == 4194304
Accept(size, ms) == size >= 7 /\ size <= ms /\ size <= Max4M
ClientMsizes == {65536, Max4M, 2 * Max4M}
SizeFields(ms) == {7, 11, ms - 1, ms, ms + 1, Max4M, Max4M + 1, Max4M + Max4M \div 2}
SizeCases == {<<ms, sz>> : ms \in ClientMsizes, sz \in UNION {SizeFields(m) : m \in ClientMsizes}}
ASSUME \A c \in SizeCases : Accept(c[2], c[1]) => c[2] <= Max4M
=============================================================================
