------------------------------ MODULE Lifetime ------------------------------
(***************************************************************************)
(* Reference counting of fid references under concurrency                  *)
(* (p9/server.go fidRef.IncRef / DecRef / TryIncRef, renameChildTo,        *)
(* notifyNameChange, connState.DeleteFID / stop; p9/path_tree.go           *)
(* removeWithName / removeChild / addChild and the childMu locks).         *)
(*                                                                         *)
(* Session.tla treats every request as atomic.  Here the requests that     *)
(* move references are split at exactly the points where the code lets     *)
(* another goroutine in: every atomic operation on refs, every childMu /   *)
(* renameMu / fidMu acquisition, and every call into the backend (Close,   *)
(* Renamed, RenameAt, GetAttr), which can stay inside the backend for as   *)
(* long as the environment likes.  Threads:                                *)
(*    clunk(r)   Tclunk: LookupFID, safelyRead, DecRef; then DeleteFID      *)
(*               -> DecRef (as found, R21: with fidMu held throughout)     *)
(*    opn(r)     the same without path locks (Tlock): LookupFID, backend   *)
(*               call, deferred DecRef                                     *)
(*    op(r)      a request using fid r: LookupFID (IncRef), safelyRead,    *)
(*               backend call, deferred DecRef outside every lock          *)
(*    rename     Trenameat(src,old,tgt,new): safelyGlobal, RenameAt,       *)
(*               renameChildTo incl. the callbacks under childMu,          *)
(*               notifyNameChange of the moved subtree                     *)
(*    stop(c)    connection teardown: waits for the connection's handlers, *)
(*               then drops every table reference                          *)
(* What must hold (C05, C16): a File is closed at most once and exactly    *)
(* when its count reaches zero, no backend method begins on a File whose   *)
(* Close has begun, counts never go negative, every thread finishes        *)
(* (TLC's deadlock check), and at rest the counts equal table + children.  *)
(*                                                                         *)
(* Named deviations of the code as found (kept out of `Fixed' until        *)
(* repaired):                                                              *)
(*   R20  removeWithName drops its temporary reference (ref.DecRef) while  *)
(*        still holding the source directory's childMu; if that is the     *)
(*        last reference, DecRef -> removeChild locks the NEW parent's     *)
(*        childMu - the same mutex for a rename within one directory       *)
(*   R21  DeleteFID (and InsertFID for a replaced binding) called DecRef,  *)
(*        hence File.Close, with the connection's fidMu held: a slow Close *)
(*        stalled every request of that connection                         *)
(*   R16  notifyNameChange calls Renamed on every reference below the      *)
(*        moved node without taking a reference first: a reference whose   *)
(*        count is already zero (its Close running or finished, its        *)
(*        removeChild waiting for the childMu the notifier read-holds)     *)
(*        still gets the callback                                          *)
(***************************************************************************)
EXTENDS Integers, Sequences, FiniteSets, TLC

CONSTANTS RefCfg,    \* <<[pa, name, node, conn]>>   fid references bound at the start (one fid each, in conn's table)
          NodeCfg,   \* <<[pa, name]>>                path nodes; node 1 is the root (pa 0)
          ThrCfg,    \* <<[kind, conn, r, old, tgt, new]>>
          Gated,     \* backend call kinds held at a gate until released (the others return by themselves)
          Fixed

Dev(x) == x \notin Fixed
R == 1..Len(RefCfg)
N == 1..Len(NodeCfg)
T == 1..Len(ThrCfg)
Conns == {RefCfg[r].conn : r \in R} \cup {ThrCfg[t].conn : t \in T}
RMU == 0                                \* renameMu; childMu of node n has lock id n; fidMu of connection c 100 + c
FMU(c) == 100 + c
LockIds == {RMU} \cup N \cup {FMU(c) : c \in Conns}
NodeOf(r) == RefCfg[r].node
Detached == [pa |-> 0, name |-> ""]

(* --algorithm Lifetime
variables
  refs = [r \in R |-> 1 + Cardinality({k \in R : RefCfg[k].pa = r})],
  par = [r \in R |-> RefCfg[r].pa],
  kids = [n \in N |-> {<<k, RefCfg[k].name>> : k \in {x \in R : RefCfg[x].pa # 0 /\ NodeOf(RefCfg[x].pa) = n}}],
  nat = [n \in N |-> NodeCfg[n]],
  table = [r \in R |-> TRUE],
  closing = [r \in R |-> 0],           \* Close calls begun
  closedN = [r \in R |-> 0],           \* Close calls returned
  inb = {},                            \* <<thread, kind, ref>>: calls inside the backend
  uac = {},                            \* <<kind, "on"|"arg", ref>>: calls begun on (or with) a File whose Close had begun
  wr = [l \in LockIds |-> 0],
  rd = [l \in LockIds |-> {}],
  ww = [l \in LockIds |-> {}],
  rw = [l \in LockIds |-> {}],
  started = [t \in T |-> FALSE],
  done = [t \in T |-> "-"];

define
  Kind(t) == ThrCfg[t].kind
  ConnOf(t) == ThrCfg[t].conn
  Free(l) == wr[l] = 0 /\ rd[l] = {}
end define;

macro CbBegin(k, r, arg) begin
  inb := inb \cup {<<self, k, r>>};
  uac := uac \cup (IF closing[r] > 0 THEN {<<k, "on", r>>} ELSE {})
             \cup (IF arg # 0 /\ closing[arg] > 0 THEN {<<k, "arg", arg>>} ELSE {});
end macro;

macro CbEnd(k, r) begin
  inb := inb \ {<<self, k, r>>};
end macro;

\* Lock(): announce (new readers wait from now on) ...
macro WantW(l) begin
  ww[l] := ww[l] \cup {self};
end macro;

\* RLock(): succeeds unless a writer holds or waits; otherwise queue up and be
\* admitted by that writer's Unlock
macro TryR(l) begin
  if wr[l] = 0 /\ ww[l] = {} then
    rd[l] := rd[l] \cup {self};
  else
    rw[l] := rw[l] \cup {self};
  end if;
end macro;

procedure DecRef(c)
begin
D0: if refs[c] # 1 then
      refs[c] := refs[c] - 1;
      return;
    else
      refs[c] := 0;
    end if;
D1: closing[c] := closing[c] + 1;               \* f.file.Close()
    inb := inb \cup {<<self, "Close", c>>};
D2: inb := inb \ {<<self, "Close", c>>};
    closedN[c] := closedN[c] + 1;
    if par[c] = 0 then
      return;
    else
      WantW(NodeOf(par[c]));                    \* f.parent.pathNode.removeChild(f)
    end if;
D4: await Free(NodeOf(par[c]));
    kids[NodeOf(par[c])] := {e \in kids[NodeOf(par[c])] : e[1] # c};
    ww[NodeOf(par[c])] := ww[NodeOf(par[c])] \ {self};
    rd[NodeOf(par[c])] := rw[NodeOf(par[c])];
    rw[NodeOf(par[c])] := {};
    c := par[c];                                \* f.parent.DecRef()
    goto D0;
end procedure;

fair process thr \in T
variables it = {}, rf = 0, df = <<>>, orig = 0, sn = 0, tn = 0;
begin
Start:
  \* nothing is sent on a connection after its client hung up
  if \E u \in T \ {self} : Kind(u) = "stop" /\ ConnOf(u) = ConnOf(self) /\ started[u] then
    goto Fin;
  else
    started[self] := TRUE;
  end if;
St1:
  if Kind(self) = "clunk" then goto C0;
  elsif Kind(self) = "op" then goto O0;
  elsif Kind(self) = "opn" then goto N0;
  elsif Kind(self) = "rename" then goto R0;
  else goto S0;
  end if;

\* ---- Tclunk: clunkHandleXattr (LookupFID, safelyRead, DecRef), then DeleteFID, which holds
\*      fidMu across the DecRef
C0: await wr[FMU(ConnOf(self))] = 0;
    if ~table[ThrCfg[self].r] then
      done[self] := "EBADF";
      goto Fin;
    else
      refs[ThrCfg[self].r] := refs[ThrCfg[self].r] + 1;
    end if;
Ca: TryR(RMU);
Cb: await self \in rd[RMU];
    rd[RMU] := rd[RMU] \ {self};
    call DecRef(ThrCfg[self].r);
Cc: await wr[FMU(ConnOf(self))] = 0;
    if ~table[ThrCfg[self].r] then
      done[self] := "EBADF";
      goto Fin;
    else
      \* as found (R21) DeleteFID kept fidMu across the DecRef, i.e. across File.Close
      wr[FMU(ConnOf(self))] := IF Dev("R21") THEN self ELSE 0;
      table[ThrCfg[self].r] := FALSE;
      call DecRef(ThrCfg[self].r);
    end if;
C1: if wr[FMU(ConnOf(self))] = self then
      wr[FMU(ConnOf(self))] := 0;
    end if;
    done[self] := "ok";
    goto Fin;

\* ---- a request on fid r (Tgetattr): LookupFID, safelyRead, deferred DecRef
O0: await wr[FMU(ConnOf(self))] = 0;
    if ~table[ThrCfg[self].r] then
      done[self] := "EBADF";
      goto Fin;
    else
      refs[ThrCfg[self].r] := refs[ThrCfg[self].r] + 1;
    end if;
O1: TryR(RMU);
O2: await self \in rd[RMU];
    CbBegin("GetAttr", ThrCfg[self].r, 0);
O3: CbEnd("GetAttr", ThrCfg[self].r);
    rd[RMU] := rd[RMU] \ {self};
    call DecRef(ThrCfg[self].r);
O6: done[self] := "ok";
    goto Fin;

\* ---- a request whose backend call runs without any path lock (Tlock, Tstatfs): LookupFID, call, deferred DecRef
N0: await wr[FMU(ConnOf(self))] = 0;
    if ~table[ThrCfg[self].r] then
      done[self] := "EBADF";
      goto Fin;
    else
      refs[ThrCfg[self].r] := refs[ThrCfg[self].r] + 1;
    end if;
N1: CbBegin("Lock", ThrCfg[self].r, 0);
N2: CbEnd("Lock", ThrCfg[self].r);
    call DecRef(ThrCfg[self].r);
N3: done[self] := "ok";
    goto Fin;

\* ---- Trenameat
R0: await wr[FMU(ConnOf(self))] = 0;
    if ~table[ThrCfg[self].r] then
      done[self] := "EBADF";
      goto Fin;
    else
      refs[ThrCfg[self].r] := refs[ThrCfg[self].r] + 1;
    end if;
R1: await wr[FMU(ConnOf(self))] = 0 /\ table[ThrCfg[self].tgt];
    refs[ThrCfg[self].tgt] := refs[ThrCfg[self].tgt] + 1;
    sn := NodeOf(ThrCfg[self].r);
    tn := NodeOf(ThrCfg[self].tgt);
    WantW(RMU);
R3: await Free(RMU);                             \* safelyGlobal
    wr[RMU] := self;
    ww[RMU] := ww[RMU] \ {self};
    CbBegin("RenameAt", ThrCfg[self].r, ThrCfg[self].tgt);
R5: CbEnd("RenameAt", ThrCfg[self].r);
    WantW(tn);                                   \* target.markChildDeleted(newName)
R8: await Free(tn);
    kids[tn] := {e \in kids[tn] : e[2] # ThrCfg[self].new};
    nat := [n \in N |-> IF nat[n].pa = tn /\ nat[n].name = ThrCfg[self].new THEN Detached ELSE nat[n]];
    rd[tn] := rw[tn];
    rw[tn] := {};
    ww := [ww EXCEPT ![tn] = @ \ {self}, ![sn] = @ \cup {self}];       \* ... and f.pathNode.removeWithName wants childMu
R10: await Free(sn);
    wr[sn] := self;
    ww[sn] := ww[sn] \ {self};
    it := {e[1] : e \in {x \in kids[sn] : x[2] = ThrCfg[self].old}};
R11: if it = {} then
      goto R20;
    else
      with x \in it do
        rf := x;
        it := it \ {x};
        kids[sn] := kids[sn] \ {<<x, ThrCfg[self].old>>};
        if refs[x] <= 0 then                     \* TryIncRef fails: already destroyed
          goto R11;
        else
          refs[x] := refs[x] + 1;
          goto R12;
        end if;
      end with;
    end if;
R12: call DecRef(par[rf]);                       \* ref.parent.DecRef()
R13: par[rf] := ThrCfg[self].tgt;
    refs[ThrCfg[self].tgt] := refs[ThrCfg[self].tgt] + 1;
    if sn = tn then
      kids[tn] := kids[tn] \cup {<<rf, ThrCfg[self].new>>};          \* addChildLocked
      goto R16;
    else
      WantW(tn);                                                    \* addChild
    end if;
R15: await Free(tn);
    kids[tn] := kids[tn] \cup {<<rf, ThrCfg[self].new>>};
    ww[tn] := ww[tn] \ {self};
    rd[tn] := rw[tn];
    rw[tn] := {};
R16: CbBegin("Renamed", rf, ThrCfg[self].tgt);
R17: CbEnd("Renamed", rf);
    if Dev("R20") then
      call DecRef(rf);                           \* under sn's childMu
    else
      df := Append(df, rf);                      \* repaired: dropped after childMu is released
      goto R11;
    end if;
R18: goto R11;
R20: wr[sn] := 0;                                \* removeWithName returns
    rd[sn] := rw[sn];
    rw[sn] := {};
    orig := IF \E n \in N : nat[n].pa = sn /\ nat[n].name = ThrCfg[self].old
            THEN CHOOSE n \in N : nat[n].pa = sn /\ nat[n].name = ThrCfg[self].old ELSE 0;
    nat := [n \in N |-> IF nat[n].pa = sn /\ nat[n].name = ThrCfg[self].old THEN Detached ELSE nat[n]];
R21: if df # <<>> then
      rf := Head(df);
      df := Tail(df);
      call DecRef(rf);
    else
      goto R22;
    end if;
R21b: goto R21;
R22: if orig = 0 then
      goto R30;
    else
      WantW(tn);                                 \* addPathNodeFor
    end if;
R23: await Free(tn);
    nat[orig] := [pa |-> tn, name |-> ThrCfg[self].new];
    ww[tn] := ww[tn] \ {self};
    rd[tn] := rw[tn];
    rw[tn] := {};
R24: TryR(orig);                                 \* notifyNameChange: forEachChildRef
R24b: await self \in rd[orig];
    it := {e[1] : e \in kids[orig]};
R25: if it = {} then
      goto R28;
    else
      with x \in it do
        rf := x;
        it := it \ {x};
        if Dev("R16") then
          CbBegin("Renamed", x, par[x]);
          goto R26;
        else
          if refs[x] > 0 then                    \* repaired: TryIncRef, call back after RUnlock
            refs[x] := refs[x] + 1;
            df := Append(df, x);
          end if;
          goto R25;
        end if;
      end with;
    end if;
R26: CbEnd("Renamed", rf);
    goto R25;
R28: rd[orig] := rd[orig] \ {self};
R29: if df # <<>> then
      rf := Head(df);
      df := Tail(df);
      CbBegin("Renamed", rf, par[rf]);
    else
      goto R30;
    end if;
R29b: CbEnd("Renamed", rf);
    call DecRef(rf);
R29c: goto R29;
R30: wr[RMU] := 0;
    rd[RMU] := rw[RMU];
    rw[RMU] := {};
    call DecRef(ThrCfg[self].tgt);               \* deferred DecRefs, LIFO
R32: call DecRef(ThrCfg[self].r);
R33: done[self] := "ok";
    goto Fin;

\* ---- connection teardown
S0: await \A u \in T \ {self} : ConnOf(u) = ConnOf(self) => (~started[u] \/ done[u] # "-");
    it := {r \in R : table[r] /\ RefCfg[r].conn = ConnOf(self)};
S1: if it = {} then
      done[self] := "exited";
      goto Fin;
    else
      with x \in it do
        rf := x;
        it := it \ {x};
        table[x] := FALSE;
      end with;
      call DecRef(rf);
    end if;
S2: goto S1;

Fin: skip;
end process;
end algorithm; *)
\* BEGIN TRANSLATION (chksum(pcal) = "a74de3b4" /\ chksum(tla) = "b6ee04ac")
CONSTANT defaultInitValue
VARIABLES pc, refs, par, kids, nat, table, closing, closedN, inb, uac, wr, rd, 
          ww, rw, started, done, stack

(* define statement *)
Kind(t) == ThrCfg[t].kind
ConnOf(t) == ThrCfg[t].conn
Free(l) == wr[l] = 0 /\ rd[l] = {}

VARIABLES c, it, rf, df, orig, sn, tn

vars == << pc, refs, par, kids, nat, table, closing, closedN, inb, uac, wr, 
           rd, ww, rw, started, done, stack, c, it, rf, df, orig, sn, tn >>

ProcSet == (T)

Init == (* Global variables *)
        /\ refs = [r \in R |-> 1 + Cardinality({k \in R : RefCfg[k].pa = r})]
        /\ par = [r \in R |-> RefCfg[r].pa]
        /\ kids = [n \in N |-> {<<k, RefCfg[k].name>> : k \in {x \in R : RefCfg[x].pa # 0 /\ NodeOf(RefCfg[x].pa) = n}}]
        /\ nat = [n \in N |-> NodeCfg[n]]
        /\ table = [r \in R |-> TRUE]
        /\ closing = [r \in R |-> 0]
        /\ closedN = [r \in R |-> 0]
        /\ inb = {}
        /\ uac = {}
        /\ wr = [l \in LockIds |-> 0]
        /\ rd = [l \in LockIds |-> {}]
        /\ ww = [l \in LockIds |-> {}]
        /\ rw = [l \in LockIds |-> {}]
        /\ started = [t \in T |-> FALSE]
        /\ done = [t \in T |-> "-"]
        (* Procedure DecRef *)
        /\ c = [ self \in ProcSet |-> defaultInitValue]
        (* Process thr *)
        /\ it = [self \in T |-> {}]
        /\ rf = [self \in T |-> 0]
        /\ df = [self \in T |-> <<>>]
        /\ orig = [self \in T |-> 0]
        /\ sn = [self \in T |-> 0]
        /\ tn = [self \in T |-> 0]
        /\ stack = [self \in ProcSet |-> << >>]
        /\ pc = [self \in ProcSet |-> "Start"]

D0(self) == /\ pc[self] = "D0"
            /\ IF refs[c[self]] # 1
                  THEN /\ refs' = [refs EXCEPT ![c[self]] = refs[c[self]] - 1]
                       /\ pc' = [pc EXCEPT ![self] = Head(stack[self]).pc]
                       /\ c' = [c EXCEPT ![self] = Head(stack[self]).c]
                       /\ stack' = [stack EXCEPT ![self] = Tail(stack[self])]
                  ELSE /\ refs' = [refs EXCEPT ![c[self]] = 0]
                       /\ pc' = [pc EXCEPT ![self] = "D1"]
                       /\ UNCHANGED << stack, c >>
            /\ UNCHANGED << par, kids, nat, table, closing, closedN, inb, uac, 
                            wr, rd, ww, rw, started, done, it, rf, df, orig, 
                            sn, tn >>

D1(self) == /\ pc[self] = "D1"
            /\ closing' = [closing EXCEPT ![c[self]] = closing[c[self]] + 1]
            /\ inb' = (inb \cup {<<self, "Close", c[self]>>})
            /\ pc' = [pc EXCEPT ![self] = "D2"]
            /\ UNCHANGED << refs, par, kids, nat, table, closedN, uac, wr, rd, 
                            ww, rw, started, done, stack, c, it, rf, df, orig, 
                            sn, tn >>

D2(self) == /\ pc[self] = "D2"
            /\ inb' = inb \ {<<self, "Close", c[self]>>}
            /\ closedN' = [closedN EXCEPT ![c[self]] = closedN[c[self]] + 1]
            /\ IF par[c[self]] = 0
                  THEN /\ pc' = [pc EXCEPT ![self] = Head(stack[self]).pc]
                       /\ c' = [c EXCEPT ![self] = Head(stack[self]).c]
                       /\ stack' = [stack EXCEPT ![self] = Tail(stack[self])]
                       /\ ww' = ww
                  ELSE /\ ww' = [ww EXCEPT ![(NodeOf(par[c[self]]))] = ww[(NodeOf(par[c[self]]))] \cup {self}]
                       /\ pc' = [pc EXCEPT ![self] = "D4"]
                       /\ UNCHANGED << stack, c >>
            /\ UNCHANGED << refs, par, kids, nat, table, closing, uac, wr, rd, 
                            rw, started, done, it, rf, df, orig, sn, tn >>

D4(self) == /\ pc[self] = "D4"
            /\ Free(NodeOf(par[c[self]]))
            /\ kids' = [kids EXCEPT ![NodeOf(par[c[self]])] = {e \in kids[NodeOf(par[c[self]])] : e[1] # c[self]}]
            /\ ww' = [ww EXCEPT ![NodeOf(par[c[self]])] = ww[NodeOf(par[c[self]])] \ {self}]
            /\ rd' = [rd EXCEPT ![NodeOf(par[c[self]])] = rw[NodeOf(par[c[self]])]]
            /\ rw' = [rw EXCEPT ![NodeOf(par[c[self]])] = {}]
            /\ c' = [c EXCEPT ![self] = par[c[self]]]
            /\ pc' = [pc EXCEPT ![self] = "D0"]
            /\ UNCHANGED << refs, par, nat, table, closing, closedN, inb, uac, 
                            wr, started, done, stack, it, rf, df, orig, sn, tn >>

DecRef(self) == D0(self) \/ D1(self) \/ D2(self) \/ D4(self)

Start(self) == /\ pc[self] = "Start"
               /\ IF \E u \in T \ {self} : Kind(u) = "stop" /\ ConnOf(u) = ConnOf(self) /\ started[u]
                     THEN /\ pc' = [pc EXCEPT ![self] = "Fin"]
                          /\ UNCHANGED started
                     ELSE /\ started' = [started EXCEPT ![self] = TRUE]
                          /\ pc' = [pc EXCEPT ![self] = "St1"]
               /\ UNCHANGED << refs, par, kids, nat, table, closing, closedN, 
                               inb, uac, wr, rd, ww, rw, done, stack, c, it, 
                               rf, df, orig, sn, tn >>

St1(self) == /\ pc[self] = "St1"
             /\ IF Kind(self) = "clunk"
                   THEN /\ pc' = [pc EXCEPT ![self] = "C0"]
                   ELSE /\ IF Kind(self) = "op"
                              THEN /\ pc' = [pc EXCEPT ![self] = "O0"]
                              ELSE /\ IF Kind(self) = "opn"
                                         THEN /\ pc' = [pc EXCEPT ![self] = "N0"]
                                         ELSE /\ IF Kind(self) = "rename"
                                                    THEN /\ pc' = [pc EXCEPT ![self] = "R0"]
                                                    ELSE /\ pc' = [pc EXCEPT ![self] = "S0"]
             /\ UNCHANGED << refs, par, kids, nat, table, closing, closedN, 
                             inb, uac, wr, rd, ww, rw, started, done, stack, c, 
                             it, rf, df, orig, sn, tn >>

C0(self) == /\ pc[self] = "C0"
            /\ wr[FMU(ConnOf(self))] = 0
            /\ IF ~table[ThrCfg[self].r]
                  THEN /\ done' = [done EXCEPT ![self] = "EBADF"]
                       /\ pc' = [pc EXCEPT ![self] = "Fin"]
                       /\ refs' = refs
                  ELSE /\ refs' = [refs EXCEPT ![ThrCfg[self].r] = refs[ThrCfg[self].r] + 1]
                       /\ pc' = [pc EXCEPT ![self] = "Ca"]
                       /\ done' = done
            /\ UNCHANGED << par, kids, nat, table, closing, closedN, inb, uac, 
                            wr, rd, ww, rw, started, stack, c, it, rf, df, 
                            orig, sn, tn >>

Ca(self) == /\ pc[self] = "Ca"
            /\ IF wr[RMU] = 0 /\ ww[RMU] = {}
                  THEN /\ rd' = [rd EXCEPT ![RMU] = rd[RMU] \cup {self}]
                       /\ rw' = rw
                  ELSE /\ rw' = [rw EXCEPT ![RMU] = rw[RMU] \cup {self}]
                       /\ rd' = rd
            /\ pc' = [pc EXCEPT ![self] = "Cb"]
            /\ UNCHANGED << refs, par, kids, nat, table, closing, closedN, inb, 
                            uac, wr, ww, started, done, stack, c, it, rf, df, 
                            orig, sn, tn >>

Cb(self) == /\ pc[self] = "Cb"
            /\ self \in rd[RMU]
            /\ rd' = [rd EXCEPT ![RMU] = rd[RMU] \ {self}]
            /\ /\ c' = [c EXCEPT ![self] = ThrCfg[self].r]
               /\ stack' = [stack EXCEPT ![self] = << [ procedure |->  "DecRef",
                                                        pc        |->  "Cc",
                                                        c         |->  c[self] ] >>
                                                    \o stack[self]]
            /\ pc' = [pc EXCEPT ![self] = "D0"]
            /\ UNCHANGED << refs, par, kids, nat, table, closing, closedN, inb, 
                            uac, wr, ww, rw, started, done, it, rf, df, orig, 
                            sn, tn >>

Cc(self) == /\ pc[self] = "Cc"
            /\ wr[FMU(ConnOf(self))] = 0
            /\ IF ~table[ThrCfg[self].r]
                  THEN /\ done' = [done EXCEPT ![self] = "EBADF"]
                       /\ pc' = [pc EXCEPT ![self] = "Fin"]
                       /\ UNCHANGED << table, wr, stack, c >>
                  ELSE /\ wr' = [wr EXCEPT ![FMU(ConnOf(self))] = IF Dev("R21") THEN self ELSE 0]
                       /\ table' = [table EXCEPT ![ThrCfg[self].r] = FALSE]
                       /\ /\ c' = [c EXCEPT ![self] = ThrCfg[self].r]
                          /\ stack' = [stack EXCEPT ![self] = << [ procedure |->  "DecRef",
                                                                   pc        |->  "C1",
                                                                   c         |->  c[self] ] >>
                                                               \o stack[self]]
                       /\ pc' = [pc EXCEPT ![self] = "D0"]
                       /\ done' = done
            /\ UNCHANGED << refs, par, kids, nat, closing, closedN, inb, uac, 
                            rd, ww, rw, started, it, rf, df, orig, sn, tn >>

C1(self) == /\ pc[self] = "C1"
            /\ IF wr[FMU(ConnOf(self))] = self
                  THEN /\ wr' = [wr EXCEPT ![FMU(ConnOf(self))] = 0]
                  ELSE /\ TRUE
                       /\ wr' = wr
            /\ done' = [done EXCEPT ![self] = "ok"]
            /\ pc' = [pc EXCEPT ![self] = "Fin"]
            /\ UNCHANGED << refs, par, kids, nat, table, closing, closedN, inb, 
                            uac, rd, ww, rw, started, stack, c, it, rf, df, 
                            orig, sn, tn >>

O0(self) == /\ pc[self] = "O0"
            /\ wr[FMU(ConnOf(self))] = 0
            /\ IF ~table[ThrCfg[self].r]
                  THEN /\ done' = [done EXCEPT ![self] = "EBADF"]
                       /\ pc' = [pc EXCEPT ![self] = "Fin"]
                       /\ refs' = refs
                  ELSE /\ refs' = [refs EXCEPT ![ThrCfg[self].r] = refs[ThrCfg[self].r] + 1]
                       /\ pc' = [pc EXCEPT ![self] = "O1"]
                       /\ done' = done
            /\ UNCHANGED << par, kids, nat, table, closing, closedN, inb, uac, 
                            wr, rd, ww, rw, started, stack, c, it, rf, df, 
                            orig, sn, tn >>

O1(self) == /\ pc[self] = "O1"
            /\ IF wr[RMU] = 0 /\ ww[RMU] = {}
                  THEN /\ rd' = [rd EXCEPT ![RMU] = rd[RMU] \cup {self}]
                       /\ rw' = rw
                  ELSE /\ rw' = [rw EXCEPT ![RMU] = rw[RMU] \cup {self}]
                       /\ rd' = rd
            /\ pc' = [pc EXCEPT ![self] = "O2"]
            /\ UNCHANGED << refs, par, kids, nat, table, closing, closedN, inb, 
                            uac, wr, ww, started, done, stack, c, it, rf, df, 
                            orig, sn, tn >>

O2(self) == /\ pc[self] = "O2"
            /\ self \in rd[RMU]
            /\ inb' = (inb \cup {<<self, "GetAttr", (ThrCfg[self].r)>>})
            /\ uac' = (uac \cup (IF closing[(ThrCfg[self].r)] > 0 THEN {<<"GetAttr", "on", (ThrCfg[self].r)>>} ELSE {})
                           \cup (IF 0 # 0 /\ closing[0] > 0 THEN {<<"GetAttr", "arg", 0>>} ELSE {}))
            /\ pc' = [pc EXCEPT ![self] = "O3"]
            /\ UNCHANGED << refs, par, kids, nat, table, closing, closedN, wr, 
                            rd, ww, rw, started, done, stack, c, it, rf, df, 
                            orig, sn, tn >>

O3(self) == /\ pc[self] = "O3"
            /\ inb' = inb \ {<<self, "GetAttr", (ThrCfg[self].r)>>}
            /\ rd' = [rd EXCEPT ![RMU] = rd[RMU] \ {self}]
            /\ /\ c' = [c EXCEPT ![self] = ThrCfg[self].r]
               /\ stack' = [stack EXCEPT ![self] = << [ procedure |->  "DecRef",
                                                        pc        |->  "O6",
                                                        c         |->  c[self] ] >>
                                                    \o stack[self]]
            /\ pc' = [pc EXCEPT ![self] = "D0"]
            /\ UNCHANGED << refs, par, kids, nat, table, closing, closedN, uac, 
                            wr, ww, rw, started, done, it, rf, df, orig, sn, 
                            tn >>

O6(self) == /\ pc[self] = "O6"
            /\ done' = [done EXCEPT ![self] = "ok"]
            /\ pc' = [pc EXCEPT ![self] = "Fin"]
            /\ UNCHANGED << refs, par, kids, nat, table, closing, closedN, inb, 
                            uac, wr, rd, ww, rw, started, stack, c, it, rf, df, 
                            orig, sn, tn >>

N0(self) == /\ pc[self] = "N0"
            /\ wr[FMU(ConnOf(self))] = 0
            /\ IF ~table[ThrCfg[self].r]
                  THEN /\ done' = [done EXCEPT ![self] = "EBADF"]
                       /\ pc' = [pc EXCEPT ![self] = "Fin"]
                       /\ refs' = refs
                  ELSE /\ refs' = [refs EXCEPT ![ThrCfg[self].r] = refs[ThrCfg[self].r] + 1]
                       /\ pc' = [pc EXCEPT ![self] = "N1"]
                       /\ done' = done
            /\ UNCHANGED << par, kids, nat, table, closing, closedN, inb, uac, 
                            wr, rd, ww, rw, started, stack, c, it, rf, df, 
                            orig, sn, tn >>

N1(self) == /\ pc[self] = "N1"
            /\ inb' = (inb \cup {<<self, "Lock", (ThrCfg[self].r)>>})
            /\ uac' = (uac \cup (IF closing[(ThrCfg[self].r)] > 0 THEN {<<"Lock", "on", (ThrCfg[self].r)>>} ELSE {})
                           \cup (IF 0 # 0 /\ closing[0] > 0 THEN {<<"Lock", "arg", 0>>} ELSE {}))
            /\ pc' = [pc EXCEPT ![self] = "N2"]
            /\ UNCHANGED << refs, par, kids, nat, table, closing, closedN, wr, 
                            rd, ww, rw, started, done, stack, c, it, rf, df, 
                            orig, sn, tn >>

N2(self) == /\ pc[self] = "N2"
            /\ inb' = inb \ {<<self, "Lock", (ThrCfg[self].r)>>}
            /\ /\ c' = [c EXCEPT ![self] = ThrCfg[self].r]
               /\ stack' = [stack EXCEPT ![self] = << [ procedure |->  "DecRef",
                                                        pc        |->  "N3",
                                                        c         |->  c[self] ] >>
                                                    \o stack[self]]
            /\ pc' = [pc EXCEPT ![self] = "D0"]
            /\ UNCHANGED << refs, par, kids, nat, table, closing, closedN, uac, 
                            wr, rd, ww, rw, started, done, it, rf, df, orig, 
                            sn, tn >>

N3(self) == /\ pc[self] = "N3"
            /\ done' = [done EXCEPT ![self] = "ok"]
            /\ pc' = [pc EXCEPT ![self] = "Fin"]
            /\ UNCHANGED << refs, par, kids, nat, table, closing, closedN, inb, 
                            uac, wr, rd, ww, rw, started, stack, c, it, rf, df, 
                            orig, sn, tn >>

R0(self) == /\ pc[self] = "R0"
            /\ wr[FMU(ConnOf(self))] = 0
            /\ IF ~table[ThrCfg[self].r]
                  THEN /\ done' = [done EXCEPT ![self] = "EBADF"]
                       /\ pc' = [pc EXCEPT ![self] = "Fin"]
                       /\ refs' = refs
                  ELSE /\ refs' = [refs EXCEPT ![ThrCfg[self].r] = refs[ThrCfg[self].r] + 1]
                       /\ pc' = [pc EXCEPT ![self] = "R1"]
                       /\ done' = done
            /\ UNCHANGED << par, kids, nat, table, closing, closedN, inb, uac, 
                            wr, rd, ww, rw, started, stack, c, it, rf, df, 
                            orig, sn, tn >>

R1(self) == /\ pc[self] = "R1"
            /\ wr[FMU(ConnOf(self))] = 0 /\ table[ThrCfg[self].tgt]
            /\ refs' = [refs EXCEPT ![ThrCfg[self].tgt] = refs[ThrCfg[self].tgt] + 1]
            /\ sn' = [sn EXCEPT ![self] = NodeOf(ThrCfg[self].r)]
            /\ tn' = [tn EXCEPT ![self] = NodeOf(ThrCfg[self].tgt)]
            /\ ww' = [ww EXCEPT ![RMU] = ww[RMU] \cup {self}]
            /\ pc' = [pc EXCEPT ![self] = "R3"]
            /\ UNCHANGED << par, kids, nat, table, closing, closedN, inb, uac, 
                            wr, rd, rw, started, done, stack, c, it, rf, df, 
                            orig >>

R3(self) == /\ pc[self] = "R3"
            /\ Free(RMU)
            /\ wr' = [wr EXCEPT ![RMU] = self]
            /\ ww' = [ww EXCEPT ![RMU] = ww[RMU] \ {self}]
            /\ inb' = (inb \cup {<<self, "RenameAt", (ThrCfg[self].r)>>})
            /\ uac' = (uac \cup (IF closing[(ThrCfg[self].r)] > 0 THEN {<<"RenameAt", "on", (ThrCfg[self].r)>>} ELSE {})
                           \cup (IF (ThrCfg[self].tgt) # 0 /\ closing[(ThrCfg[self].tgt)] > 0 THEN {<<"RenameAt", "arg", (ThrCfg[self].tgt)>>} ELSE {}))
            /\ pc' = [pc EXCEPT ![self] = "R5"]
            /\ UNCHANGED << refs, par, kids, nat, table, closing, closedN, rd, 
                            rw, started, done, stack, c, it, rf, df, orig, sn, 
                            tn >>

R5(self) == /\ pc[self] = "R5"
            /\ inb' = inb \ {<<self, "RenameAt", (ThrCfg[self].r)>>}
            /\ ww' = [ww EXCEPT ![tn[self]] = ww[tn[self]] \cup {self}]
            /\ pc' = [pc EXCEPT ![self] = "R8"]
            /\ UNCHANGED << refs, par, kids, nat, table, closing, closedN, uac, 
                            wr, rd, rw, started, done, stack, c, it, rf, df, 
                            orig, sn, tn >>

R8(self) == /\ pc[self] = "R8"
            /\ Free(tn[self])
            /\ kids' = [kids EXCEPT ![tn[self]] = {e \in kids[tn[self]] : e[2] # ThrCfg[self].new}]
            /\ nat' = [n \in N |-> IF nat[n].pa = tn[self] /\ nat[n].name = ThrCfg[self].new THEN Detached ELSE nat[n]]
            /\ rd' = [rd EXCEPT ![tn[self]] = rw[tn[self]]]
            /\ rw' = [rw EXCEPT ![tn[self]] = {}]
            /\ ww' = [ww EXCEPT ![tn[self]] = @ \ {self}, ![sn[self]] = @ \cup {self}]
            /\ pc' = [pc EXCEPT ![self] = "R10"]
            /\ UNCHANGED << refs, par, table, closing, closedN, inb, uac, wr, 
                            started, done, stack, c, it, rf, df, orig, sn, tn >>

R10(self) == /\ pc[self] = "R10"
             /\ Free(sn[self])
             /\ wr' = [wr EXCEPT ![sn[self]] = self]
             /\ ww' = [ww EXCEPT ![sn[self]] = ww[sn[self]] \ {self}]
             /\ it' = [it EXCEPT ![self] = {e[1] : e \in {x \in kids[sn[self]] : x[2] = ThrCfg[self].old}}]
             /\ pc' = [pc EXCEPT ![self] = "R11"]
             /\ UNCHANGED << refs, par, kids, nat, table, closing, closedN, 
                             inb, uac, rd, rw, started, done, stack, c, rf, df, 
                             orig, sn, tn >>

R11(self) == /\ pc[self] = "R11"
             /\ IF it[self] = {}
                   THEN /\ pc' = [pc EXCEPT ![self] = "R20"]
                        /\ UNCHANGED << refs, kids, it, rf >>
                   ELSE /\ \E x \in it[self]:
                             /\ rf' = [rf EXCEPT ![self] = x]
                             /\ it' = [it EXCEPT ![self] = it[self] \ {x}]
                             /\ kids' = [kids EXCEPT ![sn[self]] = kids[sn[self]] \ {<<x, ThrCfg[self].old>>}]
                             /\ IF refs[x] <= 0
                                   THEN /\ pc' = [pc EXCEPT ![self] = "R11"]
                                        /\ refs' = refs
                                   ELSE /\ refs' = [refs EXCEPT ![x] = refs[x] + 1]
                                        /\ pc' = [pc EXCEPT ![self] = "R12"]
             /\ UNCHANGED << par, nat, table, closing, closedN, inb, uac, wr, 
                             rd, ww, rw, started, done, stack, c, df, orig, sn, 
                             tn >>

R12(self) == /\ pc[self] = "R12"
             /\ /\ c' = [c EXCEPT ![self] = par[rf[self]]]
                /\ stack' = [stack EXCEPT ![self] = << [ procedure |->  "DecRef",
                                                         pc        |->  "R13",
                                                         c         |->  c[self] ] >>
                                                     \o stack[self]]
             /\ pc' = [pc EXCEPT ![self] = "D0"]
             /\ UNCHANGED << refs, par, kids, nat, table, closing, closedN, 
                             inb, uac, wr, rd, ww, rw, started, done, it, rf, 
                             df, orig, sn, tn >>

R13(self) == /\ pc[self] = "R13"
             /\ par' = [par EXCEPT ![rf[self]] = ThrCfg[self].tgt]
             /\ refs' = [refs EXCEPT ![ThrCfg[self].tgt] = refs[ThrCfg[self].tgt] + 1]
             /\ IF sn[self] = tn[self]
                   THEN /\ kids' = [kids EXCEPT ![tn[self]] = kids[tn[self]] \cup {<<rf[self], ThrCfg[self].new>>}]
                        /\ pc' = [pc EXCEPT ![self] = "R16"]
                        /\ ww' = ww
                   ELSE /\ ww' = [ww EXCEPT ![tn[self]] = ww[tn[self]] \cup {self}]
                        /\ pc' = [pc EXCEPT ![self] = "R15"]
                        /\ kids' = kids
             /\ UNCHANGED << nat, table, closing, closedN, inb, uac, wr, rd, 
                             rw, started, done, stack, c, it, rf, df, orig, sn, 
                             tn >>

R15(self) == /\ pc[self] = "R15"
             /\ Free(tn[self])
             /\ kids' = [kids EXCEPT ![tn[self]] = kids[tn[self]] \cup {<<rf[self], ThrCfg[self].new>>}]
             /\ ww' = [ww EXCEPT ![tn[self]] = ww[tn[self]] \ {self}]
             /\ rd' = [rd EXCEPT ![tn[self]] = rw[tn[self]]]
             /\ rw' = [rw EXCEPT ![tn[self]] = {}]
             /\ pc' = [pc EXCEPT ![self] = "R16"]
             /\ UNCHANGED << refs, par, nat, table, closing, closedN, inb, uac, 
                             wr, started, done, stack, c, it, rf, df, orig, sn, 
                             tn >>

R16(self) == /\ pc[self] = "R16"
             /\ inb' = (inb \cup {<<self, "Renamed", rf[self]>>})
             /\ uac' = (uac \cup (IF closing[rf[self]] > 0 THEN {<<"Renamed", "on", rf[self]>>} ELSE {})
                            \cup (IF (ThrCfg[self].tgt) # 0 /\ closing[(ThrCfg[self].tgt)] > 0 THEN {<<"Renamed", "arg", (ThrCfg[self].tgt)>>} ELSE {}))
             /\ pc' = [pc EXCEPT ![self] = "R17"]
             /\ UNCHANGED << refs, par, kids, nat, table, closing, closedN, wr, 
                             rd, ww, rw, started, done, stack, c, it, rf, df, 
                             orig, sn, tn >>

R17(self) == /\ pc[self] = "R17"
             /\ inb' = inb \ {<<self, "Renamed", rf[self]>>}
             /\ IF Dev("R20")
                   THEN /\ /\ c' = [c EXCEPT ![self] = rf[self]]
                           /\ stack' = [stack EXCEPT ![self] = << [ procedure |->  "DecRef",
                                                                    pc        |->  "R18",
                                                                    c         |->  c[self] ] >>
                                                                \o stack[self]]
                        /\ pc' = [pc EXCEPT ![self] = "D0"]
                        /\ df' = df
                   ELSE /\ df' = [df EXCEPT ![self] = Append(df[self], rf[self])]
                        /\ pc' = [pc EXCEPT ![self] = "R11"]
                        /\ UNCHANGED << stack, c >>
             /\ UNCHANGED << refs, par, kids, nat, table, closing, closedN, 
                             uac, wr, rd, ww, rw, started, done, it, rf, orig, 
                             sn, tn >>

R18(self) == /\ pc[self] = "R18"
             /\ pc' = [pc EXCEPT ![self] = "R11"]
             /\ UNCHANGED << refs, par, kids, nat, table, closing, closedN, 
                             inb, uac, wr, rd, ww, rw, started, done, stack, c, 
                             it, rf, df, orig, sn, tn >>

R20(self) == /\ pc[self] = "R20"
             /\ wr' = [wr EXCEPT ![sn[self]] = 0]
             /\ rd' = [rd EXCEPT ![sn[self]] = rw[sn[self]]]
             /\ rw' = [rw EXCEPT ![sn[self]] = {}]
             /\ orig' = [orig EXCEPT ![self] = IF \E n \in N : nat[n].pa = sn[self] /\ nat[n].name = ThrCfg[self].old
                                               THEN CHOOSE n \in N : nat[n].pa = sn[self] /\ nat[n].name = ThrCfg[self].old ELSE 0]
             /\ nat' = [n \in N |-> IF nat[n].pa = sn[self] /\ nat[n].name = ThrCfg[self].old THEN Detached ELSE nat[n]]
             /\ pc' = [pc EXCEPT ![self] = "R21"]
             /\ UNCHANGED << refs, par, kids, table, closing, closedN, inb, 
                             uac, ww, started, done, stack, c, it, rf, df, sn, 
                             tn >>

R21(self) == /\ pc[self] = "R21"
             /\ IF df[self] # <<>>
                   THEN /\ rf' = [rf EXCEPT ![self] = Head(df[self])]
                        /\ df' = [df EXCEPT ![self] = Tail(df[self])]
                        /\ /\ c' = [c EXCEPT ![self] = rf'[self]]
                           /\ stack' = [stack EXCEPT ![self] = << [ procedure |->  "DecRef",
                                                                    pc        |->  "R21b",
                                                                    c         |->  c[self] ] >>
                                                                \o stack[self]]
                        /\ pc' = [pc EXCEPT ![self] = "D0"]
                   ELSE /\ pc' = [pc EXCEPT ![self] = "R22"]
                        /\ UNCHANGED << stack, c, rf, df >>
             /\ UNCHANGED << refs, par, kids, nat, table, closing, closedN, 
                             inb, uac, wr, rd, ww, rw, started, done, it, orig, 
                             sn, tn >>

R21b(self) == /\ pc[self] = "R21b"
              /\ pc' = [pc EXCEPT ![self] = "R21"]
              /\ UNCHANGED << refs, par, kids, nat, table, closing, closedN, 
                              inb, uac, wr, rd, ww, rw, started, done, stack, 
                              c, it, rf, df, orig, sn, tn >>

R22(self) == /\ pc[self] = "R22"
             /\ IF orig[self] = 0
                   THEN /\ pc' = [pc EXCEPT ![self] = "R30"]
                        /\ ww' = ww
                   ELSE /\ ww' = [ww EXCEPT ![tn[self]] = ww[tn[self]] \cup {self}]
                        /\ pc' = [pc EXCEPT ![self] = "R23"]
             /\ UNCHANGED << refs, par, kids, nat, table, closing, closedN, 
                             inb, uac, wr, rd, rw, started, done, stack, c, it, 
                             rf, df, orig, sn, tn >>

R23(self) == /\ pc[self] = "R23"
             /\ Free(tn[self])
             /\ nat' = [nat EXCEPT ![orig[self]] = [pa |-> tn[self], name |-> ThrCfg[self].new]]
             /\ ww' = [ww EXCEPT ![tn[self]] = ww[tn[self]] \ {self}]
             /\ rd' = [rd EXCEPT ![tn[self]] = rw[tn[self]]]
             /\ rw' = [rw EXCEPT ![tn[self]] = {}]
             /\ pc' = [pc EXCEPT ![self] = "R24"]
             /\ UNCHANGED << refs, par, kids, table, closing, closedN, inb, 
                             uac, wr, started, done, stack, c, it, rf, df, 
                             orig, sn, tn >>

R24(self) == /\ pc[self] = "R24"
             /\ IF wr[orig[self]] = 0 /\ ww[orig[self]] = {}
                   THEN /\ rd' = [rd EXCEPT ![orig[self]] = rd[orig[self]] \cup {self}]
                        /\ rw' = rw
                   ELSE /\ rw' = [rw EXCEPT ![orig[self]] = rw[orig[self]] \cup {self}]
                        /\ rd' = rd
             /\ pc' = [pc EXCEPT ![self] = "R24b"]
             /\ UNCHANGED << refs, par, kids, nat, table, closing, closedN, 
                             inb, uac, wr, ww, started, done, stack, c, it, rf, 
                             df, orig, sn, tn >>

R24b(self) == /\ pc[self] = "R24b"
              /\ self \in rd[orig[self]]
              /\ it' = [it EXCEPT ![self] = {e[1] : e \in kids[orig[self]]}]
              /\ pc' = [pc EXCEPT ![self] = "R25"]
              /\ UNCHANGED << refs, par, kids, nat, table, closing, closedN, 
                              inb, uac, wr, rd, ww, rw, started, done, stack, 
                              c, rf, df, orig, sn, tn >>

R25(self) == /\ pc[self] = "R25"
             /\ IF it[self] = {}
                   THEN /\ pc' = [pc EXCEPT ![self] = "R28"]
                        /\ UNCHANGED << refs, inb, uac, it, rf, df >>
                   ELSE /\ \E x \in it[self]:
                             /\ rf' = [rf EXCEPT ![self] = x]
                             /\ it' = [it EXCEPT ![self] = it[self] \ {x}]
                             /\ IF Dev("R16")
                                   THEN /\ inb' = (inb \cup {<<self, "Renamed", x>>})
                                        /\ uac' = (uac \cup (IF closing[x] > 0 THEN {<<"Renamed", "on", x>>} ELSE {})
                                                       \cup (IF (par[x]) # 0 /\ closing[(par[x])] > 0 THEN {<<"Renamed", "arg", (par[x])>>} ELSE {}))
                                        /\ pc' = [pc EXCEPT ![self] = "R26"]
                                        /\ UNCHANGED << refs, df >>
                                   ELSE /\ IF refs[x] > 0
                                              THEN /\ refs' = [refs EXCEPT ![x] = refs[x] + 1]
                                                   /\ df' = [df EXCEPT ![self] = Append(df[self], x)]
                                              ELSE /\ TRUE
                                                   /\ UNCHANGED << refs, df >>
                                        /\ pc' = [pc EXCEPT ![self] = "R25"]
                                        /\ UNCHANGED << inb, uac >>
             /\ UNCHANGED << par, kids, nat, table, closing, closedN, wr, rd, 
                             ww, rw, started, done, stack, c, orig, sn, tn >>

R26(self) == /\ pc[self] = "R26"
             /\ inb' = inb \ {<<self, "Renamed", rf[self]>>}
             /\ pc' = [pc EXCEPT ![self] = "R25"]
             /\ UNCHANGED << refs, par, kids, nat, table, closing, closedN, 
                             uac, wr, rd, ww, rw, started, done, stack, c, it, 
                             rf, df, orig, sn, tn >>

R28(self) == /\ pc[self] = "R28"
             /\ rd' = [rd EXCEPT ![orig[self]] = rd[orig[self]] \ {self}]
             /\ pc' = [pc EXCEPT ![self] = "R29"]
             /\ UNCHANGED << refs, par, kids, nat, table, closing, closedN, 
                             inb, uac, wr, ww, rw, started, done, stack, c, it, 
                             rf, df, orig, sn, tn >>

R29(self) == /\ pc[self] = "R29"
             /\ IF df[self] # <<>>
                   THEN /\ rf' = [rf EXCEPT ![self] = Head(df[self])]
                        /\ df' = [df EXCEPT ![self] = Tail(df[self])]
                        /\ inb' = (inb \cup {<<self, "Renamed", rf'[self]>>})
                        /\ uac' = (uac \cup (IF closing[rf'[self]] > 0 THEN {<<"Renamed", "on", rf'[self]>>} ELSE {})
                                       \cup (IF (par[rf'[self]]) # 0 /\ closing[(par[rf'[self]])] > 0 THEN {<<"Renamed", "arg", (par[rf'[self]])>>} ELSE {}))
                        /\ pc' = [pc EXCEPT ![self] = "R29b"]
                   ELSE /\ pc' = [pc EXCEPT ![self] = "R30"]
                        /\ UNCHANGED << inb, uac, rf, df >>
             /\ UNCHANGED << refs, par, kids, nat, table, closing, closedN, wr, 
                             rd, ww, rw, started, done, stack, c, it, orig, sn, 
                             tn >>

R29b(self) == /\ pc[self] = "R29b"
              /\ inb' = inb \ {<<self, "Renamed", rf[self]>>}
              /\ /\ c' = [c EXCEPT ![self] = rf[self]]
                 /\ stack' = [stack EXCEPT ![self] = << [ procedure |->  "DecRef",
                                                          pc        |->  "R29c",
                                                          c         |->  c[self] ] >>
                                                      \o stack[self]]
              /\ pc' = [pc EXCEPT ![self] = "D0"]
              /\ UNCHANGED << refs, par, kids, nat, table, closing, closedN, 
                              uac, wr, rd, ww, rw, started, done, it, rf, df, 
                              orig, sn, tn >>

R29c(self) == /\ pc[self] = "R29c"
              /\ pc' = [pc EXCEPT ![self] = "R29"]
              /\ UNCHANGED << refs, par, kids, nat, table, closing, closedN, 
                              inb, uac, wr, rd, ww, rw, started, done, stack, 
                              c, it, rf, df, orig, sn, tn >>

R30(self) == /\ pc[self] = "R30"
             /\ wr' = [wr EXCEPT ![RMU] = 0]
             /\ rd' = [rd EXCEPT ![RMU] = rw[RMU]]
             /\ rw' = [rw EXCEPT ![RMU] = {}]
             /\ /\ c' = [c EXCEPT ![self] = ThrCfg[self].tgt]
                /\ stack' = [stack EXCEPT ![self] = << [ procedure |->  "DecRef",
                                                         pc        |->  "R32",
                                                         c         |->  c[self] ] >>
                                                     \o stack[self]]
             /\ pc' = [pc EXCEPT ![self] = "D0"]
             /\ UNCHANGED << refs, par, kids, nat, table, closing, closedN, 
                             inb, uac, ww, started, done, it, rf, df, orig, sn, 
                             tn >>

R32(self) == /\ pc[self] = "R32"
             /\ /\ c' = [c EXCEPT ![self] = ThrCfg[self].r]
                /\ stack' = [stack EXCEPT ![self] = << [ procedure |->  "DecRef",
                                                         pc        |->  "R33",
                                                         c         |->  c[self] ] >>
                                                     \o stack[self]]
             /\ pc' = [pc EXCEPT ![self] = "D0"]
             /\ UNCHANGED << refs, par, kids, nat, table, closing, closedN, 
                             inb, uac, wr, rd, ww, rw, started, done, it, rf, 
                             df, orig, sn, tn >>

R33(self) == /\ pc[self] = "R33"
             /\ done' = [done EXCEPT ![self] = "ok"]
             /\ pc' = [pc EXCEPT ![self] = "Fin"]
             /\ UNCHANGED << refs, par, kids, nat, table, closing, closedN, 
                             inb, uac, wr, rd, ww, rw, started, stack, c, it, 
                             rf, df, orig, sn, tn >>

S0(self) == /\ pc[self] = "S0"
            /\ \A u \in T \ {self} : ConnOf(u) = ConnOf(self) => (~started[u] \/ done[u] # "-")
            /\ it' = [it EXCEPT ![self] = {r \in R : table[r] /\ RefCfg[r].conn = ConnOf(self)}]
            /\ pc' = [pc EXCEPT ![self] = "S1"]
            /\ UNCHANGED << refs, par, kids, nat, table, closing, closedN, inb, 
                            uac, wr, rd, ww, rw, started, done, stack, c, rf, 
                            df, orig, sn, tn >>

S1(self) == /\ pc[self] = "S1"
            /\ IF it[self] = {}
                  THEN /\ done' = [done EXCEPT ![self] = "exited"]
                       /\ pc' = [pc EXCEPT ![self] = "Fin"]
                       /\ UNCHANGED << table, stack, c, it, rf >>
                  ELSE /\ \E x \in it[self]:
                            /\ rf' = [rf EXCEPT ![self] = x]
                            /\ it' = [it EXCEPT ![self] = it[self] \ {x}]
                            /\ table' = [table EXCEPT ![x] = FALSE]
                       /\ /\ c' = [c EXCEPT ![self] = rf'[self]]
                          /\ stack' = [stack EXCEPT ![self] = << [ procedure |->  "DecRef",
                                                                   pc        |->  "S2",
                                                                   c         |->  c[self] ] >>
                                                               \o stack[self]]
                       /\ pc' = [pc EXCEPT ![self] = "D0"]
                       /\ done' = done
            /\ UNCHANGED << refs, par, kids, nat, closing, closedN, inb, uac, 
                            wr, rd, ww, rw, started, df, orig, sn, tn >>

S2(self) == /\ pc[self] = "S2"
            /\ pc' = [pc EXCEPT ![self] = "S1"]
            /\ UNCHANGED << refs, par, kids, nat, table, closing, closedN, inb, 
                            uac, wr, rd, ww, rw, started, done, stack, c, it, 
                            rf, df, orig, sn, tn >>

Fin(self) == /\ pc[self] = "Fin"
             /\ TRUE
             /\ pc' = [pc EXCEPT ![self] = "Done"]
             /\ UNCHANGED << refs, par, kids, nat, table, closing, closedN, 
                             inb, uac, wr, rd, ww, rw, started, done, stack, c, 
                             it, rf, df, orig, sn, tn >>

thr(self) == Start(self) \/ St1(self) \/ C0(self) \/ Ca(self) \/ Cb(self)
                \/ Cc(self) \/ C1(self) \/ O0(self) \/ O1(self) \/ O2(self)
                \/ O3(self) \/ O6(self) \/ N0(self) \/ N1(self) \/ N2(self)
                \/ N3(self) \/ R0(self) \/ R1(self) \/ R3(self) \/ R5(self)
                \/ R8(self) \/ R10(self) \/ R11(self) \/ R12(self)
                \/ R13(self) \/ R15(self) \/ R16(self) \/ R17(self)
                \/ R18(self) \/ R20(self) \/ R21(self) \/ R21b(self)
                \/ R22(self) \/ R23(self) \/ R24(self) \/ R24b(self)
                \/ R25(self) \/ R26(self) \/ R28(self) \/ R29(self)
                \/ R29b(self) \/ R29c(self) \/ R30(self) \/ R32(self)
                \/ R33(self) \/ S0(self) \/ S1(self) \/ S2(self)
                \/ Fin(self)

(* Allow infinite stuttering to prevent deadlock on termination. *)
Terminating == /\ \A self \in ProcSet: pc[self] = "Done"
               /\ UNCHANGED vars

Next == (\E self \in ProcSet: DecRef(self))
           \/ (\E self \in T: thr(self))
           \/ Terminating

Spec == /\ Init /\ [][Next]_vars
        /\ \A self \in T : WF_vars(thr(self)) /\ WF_vars(DecRef(self))

Termination == <>(\A self \in ProcSet: pc[self] = "Done")

\* END TRANSLATION 


-----------------------------------------------------------------------------
(* Properties *)

ClosedAtMostOnce == \A r \in R : closing[r] <= 1
NoUseAfterClose == uac = {}
RefsNonNeg == \A r \in R : refs[r] >= 0
ClosedOnlyAtZero == \A r \in R : closing[r] > 0 => refs[r] = 0
LocksSane == \A l \in LockIds : wr[l] # 0 => rd[l] = {}

\* at rest (no request in progress) the counts are exactly table + live children, a File is
\* closed iff its count is zero, and every lock is free
AtRest == (\A t \in T : pc[t] \in {"Start", "Done"}) =>
            /\ \A r \in R : /\ refs[r] = (IF table[r] THEN 1 ELSE 0) + Cardinality({k \in R : par[k] = r /\ refs[k] > 0})
                            /\ (refs[r] = 0 <=> closedN[r] = 1)
            /\ \A l \in LockIds : wr[l] = 0 /\ rd[l] = {} /\ ww[l] = {} /\ rw[l] = {}
            /\ inb = {}

\* what the harness can see at a quiescent point
Obs == [replies |-> {ToString(t) \o ":" \o done[t] : t \in {u \in T : done[u] # "-"}},
        gated |-> {e[2] \o ":" \o ToString(e[3]) : e \in {x \in inb : x[2] \in Gated}},
        closes |-> [r \in R |-> closing[r]],
        uac |-> {e[1] \o ":" \o e[2] \o ":" \o ToString(e[3]) : e \in uac}]
=============================================================================
