"""Checks decided by spec/Session.tla: TLC checks the property's invariants on
the specification, TLC emits every explored edge with a witness history, and
harness/cmd/sessionreplay replays each history against the real p9.Server."""
import json
import os
import time

from . import vlib
from .vlib import Inconclusive

ALL_KINDS = ["Tattach", "TattachAuth", "Tauth", "Tflush", "Tversion", "Twalk", "Twalkgetattr", "Tclunk",
             "Tremove", "Tlopen", "Tlcreate", "Tucreate", "Tmkdir", "Tumkdir", "Tsymlink", "Tusymlink",
             "Tmknod", "Tumknod", "Tlink", "Tunlinkat", "Trenameat", "Trename", "Treadlink", "Tgetattr",
             "Tsetattr", "Treaddir", "Tfsync", "Tstatfs", "Tlock", "Tread", "Twrite", "Txattrwalk",
             "Txattrcreate", "Disconnect"]

ALL_DEVIATIONS = ["R1"]

INVARIANTS = {
    "C04": ["OpenAtMostOnce", "NoInternalPanic"],
    "C05": ["RefConservation", "ClosedAtMostOnce", "NoUseAfterClose", "ClosedIffUnreferenced",
            "AllClosedAfterDisconnect"],
    "C08": ["PathCoherence", "TreeConsistent", "FencedNeverReachBackend", "NoInternalPanic"],
    "C09": ["NoUnsafeNameReachesBackend", "WalkOnlyThroughDirs", "UnsafeIsEINVALNoCall"],
    "C15": ["PanicIsEFAULT", "ObtainedFilesClosed", "ClosedAtMostOnce", "NoUseAfterClose"],
}
PROPERTIES = {
    "C04": ["UnboundIsEBADFP", "ClunkRemoveAlwaysUnbindP", "BindOnlyOnSuccessP", "IOOnlyWhenOpenCompatibleP",
            "DirOpsRefusedOnOpenedDirP", "NoAuthP"],
    "C05": [],
    "C08": [],
    "C09": [],
    "C15": ["ErrorLeavesTableUnchangedP", "ClunkRemoveAlwaysUnbindP"],
}


def tla_set(xs):
    def lit(x):
        return str(x) if isinstance(x, int) else '"%s"' % x
    return "{" + ", ".join(lit(x) for x in xs) + "}"


def cfg_text(c, invariants=(), properties=(), dump=False):
    """c: dict of constants."""
    lines = ["SPECIFICATION Spec", "CONSTANTS"]
    for k in ["Conns", "Fids", "Names", "BadNames", "AttachNames", "Kinds", "FaultKinds", "Fixed"]:
        lines.append("  %s = %s" % (k, tla_set(c[k])))
    for k in ["MaxFiles", "MaxDepth", "MaxFaults"]:
        lines.append("  %s = %d" % (k, c[k]))
    lines.append('  InitWorld = "%s"' % c["InitWorld"])
    lines.append("  CloneProbes = %s" % ("TRUE" if c.get("CloneProbes") else "FALSE"))
    lines += ["VIEW View", "CHECK_DEADLOCK FALSE"]
    if dump:
        lines.append("ACTION_CONSTRAINT EdgeDump")
    if invariants:
        lines.append("INVARIANTS " + " ".join(invariants))
    if properties:
        lines.append("PROPERTIES " + " ".join(properties))
    return "\n".join(lines) + "\n"


def base(**kw):
    c = dict(Conns=[1], Fids=[1, 2], Names=["a", "b"], BadNames=[], AttachNames=[""], Kinds=ALL_KINDS,
             FaultKinds=[], Fixed=[], MaxFiles=6, MaxDepth=3, MaxFaults=0, InitWorld="ab")
    c.update(kw)
    return c


def merge(summaries):
    tot = {"histories": 0, "steps": 0, "backend_calls": 0, "closes": 0, "agreed": 0, "parse_errors": 0,
           "cuts": 0, "mismatch_by_prop": {}, "mismatch_by_tag": {}, "distinct_last_steps": {}, "mismatches": [],
           "samples": [], "replays": {}}
    for s in summaries:
        tot["tree_hook"] = tot.get("tree_hook", True) and bool(s.get("tree_hook", False))
        for k in ["histories", "steps", "backend_calls", "closes", "agreed", "parse_errors", "cuts"]:
            tot[k] += s.get(k, 0)
        for k in ["mismatch_by_prop", "mismatch_by_tag", "distinct_last_steps"]:
            for a, b in (s.get(k) or {}).items():
                tot[k][a] = tot[k].get(a, 0) + b
        tot["mismatches"] += s.get("mismatches") or []
        tot["samples"] += (s.get("samples") or [])[:1]
        for a, b in (s.get("replays") or {}).items():
            tot["replays"].setdefault(a, []).extend(b)
    return tot


def replay_file(scratch, path, name, timeout_s=4, nshard=None, cuts=None):
    """Shard a history file over the sessionreplay driver."""
    outs = []

    def args(i, n):
        o = os.path.join(scratch, "sum-%s-%d.json" % (name, i))
        outs.append(o)
        return ["-in", path, "-shard", str(i), "-nshard", str(n), "-out", o,
                "-replaydir", scratch, "-timeout", "%ds" % timeout_s] + (["-cuts", cuts] if cuts else [])
    res = vlib.run_shards("sessionreplay", args, nshard=nshard)
    sums = []
    for (rc, o, e), f in zip(res, outs):
        if rc != 0 or not os.path.exists(f):
            raise Inconclusive("sessionreplay shard failed (rc=%s): %s" % (rc, (e or o)[-2000:]))
        sums.append(json.load(open(f)))
    return merge(sums)


def run(prop, tier, seed, mc, gen, level_rule, nontrivial=None, extra=None, cuts=None):
    """mc: list of (name, constants) model-checked with the property's
    invariants on the ideal specification.  gen: list of (name, constants,
    mode) whose explored edges (mode 'bfs') or simulated histories
    ('sim:N:D') are replayed against the implementation."""
    t0 = time.time()
    verdict = vlib.Verdict(prop)
    vlib.ensure_setup()
    vlib.build_harness()
    fixed = vlib.fixed_ids()
    states = transitions = 0
    tlc_runs = []
    total = None
    with vlib.Scratch(prop) as s:
        for name, c in mc:
            c = dict(c, Fixed=ALL_DEVIATIONS)   # the ideal design
            r = vlib.run_tlc(s, "MC_Session", cfg_text(c, INVARIANTS[prop], PROPERTIES[prop]),
                             name="mc-" + name, timeout=3000)
            if "violated" in r:
                raise Inconclusive("the specification itself violates %s in configuration %s - "
                                   "a modelling error, not a verdict about the code" % (r["violated"], name))
            states += r.get("distinct", 0)
            transitions += r.get("generated", 0)
            tlc_runs.append({"config": name, "distinct": r.get("distinct"), "generated": r.get("generated"),
                             "depth": r.get("depth"), "wall_s": round(r["wall_s"], 1),
                             "invariants": INVARIANTS[prop], "action_properties": PROPERTIES[prop]})
        sums = []
        for name, c, mode in gen:
            c = dict(c, Fixed=fixed)            # the code as it is meant to be now
            out = os.path.join(s, "edges-%s.ndjson" % name)
            extra_args = []
            if mode.startswith("sim"):
                _, n, d = mode.split(":")
                extra_args = ["-simulate", "num=%s" % n, "-depth", d, "-seed", str(seed)]
            genv = {"GEN_OUT": out}
            if mode.startswith("sim"):
                genv["GEN_LAST"] = "1"
            r = vlib.run_tlc(s, "MC_Session", cfg_text(c, dump=True), workers=1, env=genv,
                             name="gen-" + name, timeout=3000, extra=extra_args)
            if not os.path.exists(out):
                raise Inconclusive("generation produced no histories for " + name)
            tlc_runs.append({"config": "gen-" + name, "mode": mode, "distinct": r.get("distinct"),
                             "generated": r.get("generated"), "wall_s": round(r["wall_s"], 1)})
            sm = replay_file(s, out, name, cuts=(cuts.get(name) if isinstance(cuts, dict) else cuts))
            sm["config"] = name
            sums.append(sm)
        ex = None
        if extra:
            ex = extra(s, verdict, sums)
        total = merge(sums)
        # keep counterexamples
        own = [m for m in total["mismatches"] if m["mismatch"]["prop"] in (prop, "*")]
        for m in own[:5]:
            p = vlib.save_replay(prop, m, "session")
            verdict.violation(p, "%s at step %d: %s" % (m["mismatch"]["tag"], m["mismatch"]["step"], m["mismatch"]["detail"]))
    nviol = sum(v for k, v in total["mismatch_by_prop"].items() if k in (prop, "*"))
    others = {k: v for k, v in total["mismatch_by_prop"].items() if k not in (prop, "*")}
    if total["parse_errors"]:
        raise Inconclusive("%d generated histories could not be parsed" % total["parse_errors"])
    keys = total["distinct_last_steps"]
    nt = [k for k in keys if (nontrivial(k) if nontrivial else True)]
    cov = {
        "states": states, "transitions": transitions,
        "traces_validated_against_impl": total["agreed"],
        "samples": total["samples"][:2] or [{"note": "no multi-step history in this run"}],
        "evaluations": total["histories"],
        "distinct_nontrivial": len(nt),
        "rule": level_rule,
        "histories_replayed": total["histories"], "steps_replayed": total["steps"],
        "backend_calls_checked": total["backend_calls"], "close_events_checked": total["closes"],
        "stream_cuts_replayed": total["cuts"],
        "pathtree_snapshot_compared": bool(total.get("tree_hook")),
        "distinct_final_steps": len(keys),
        "mismatches_owned_by_other_properties": others,
        "tlc_runs": tlc_runs,
        "exhaustive": all(m == "bfs" for _, _, m in gen),
        "checker_cmd": "tlc MC_Session.tla (spec/Session.tla) + harness/cmd/sessionreplay",
    }
    if isinstance(ex, dict):
        cov["states"] += ex.get("states", 0)
        cov["transitions"] += ex.get("transitions", 0)
        cov["traces_validated_against_impl"] += ex.get("validated", 0)
        cov["evaluations"] += ex.get("evaluations", 0)
        nviol += ex.get("violations", 0)
        cov.update(ex.get("cov", {}))
        if ex.get("checker_cmd"):
            cov["checker_cmd"] += "; " + ex["checker_cmd"]
    vlib.write_evidence(prop, tier, seed, "model_checking", cov, [
        "the backend is the scripted puppet (harness/puppet): the file-system semantics are the world model of Session.tla",
        "sequential histories on in-memory transports; bounded by the constants listed in tlc_runs",
        "errno values are compared against the set the model allows (both orders of name/fid checks accepted)",
    ], time.time() - t0, nviol)
    return verdict.finish()
