"""C16 - global progress and isolation across concurrent sessions.

TLC: termination of every handler under the lock protocol (PathLocks.tla, strong fairness for lock acquisition) and
liveness of the connection loop (ConnLoop.tla).  Implementation: (a) seeded random concurrent workloads with a watchdog,
payload verification and scheduling perturbation, their backend log validated by TLC (Trace_Overlap.tla); (b) isolation:
several Session.tla histories replayed concurrently as independent clients on one server, each compared with its own
history; (c) thorough: the same drivers built with -race."""
import json
import os
import subprocess
import time

from .. import vlib, session, pathlocks, connloop, lifetime
from ..vlib import Inconclusive

RULE = ("(a) seeded random workloads: 2..64 client goroutines over 1..8 connections (walk, mkdir, create, write, read incl. "
        "reads ending at EOF, getattr, fsync, xattrwalk, renameat within and across the client's directories, unlinkat, clunk), "
        "delays injected into backend calls and inside reply frames; every request must be answered within the watchdog, "
        "succeed, and every Rread must carry the bytes produced for it; (b) isolation: k Session.tla histories (all request "
        "kinds, bounded-exhaustive depth 3 and simulated depth 12) replayed concurrently with disjoint fids/names, several "
        "clients per connection, each compared step by step with its own history; distinct = distinct (workload configuration, "
        "seed) and isolation rounds; (c) schedules: every stimulus script of the Lifetime.tla scenarios (renames racing with clunks, "
        "in-flight requests and the teardown of another connection, backend calls held at gates): every request the "
        "specification answers must be answered (TLC: deadlock check of the specification with all deviations repaired); "
        "(d) cells in which two walks look a fresh name up at the same instant (spin barrier): both and the following requests are answered")


def tlc_part(s, tier):
    runs = []
    states = trans = 0
    fixed = [f for f in vlib.fixed_ids() if f in pathlocks.ALL_DEV]
    r = vlib.run_tlc(s, "MC_PathLocks", pathlocks.cfg(2, pathlocks.PLANS, fixed, ["LocksSane"], ["Terminates"]), name="pl-live2")
    if "violated" in r:
        raise Inconclusive("PathLocks.tla violates " + r["violated"])
    runs.append({"spec": "PathLocks", "config": "2 handlers, all plans, Terminates", "distinct": r.get("distinct"), "generated": r.get("generated")})
    states += r.get("distinct", 0); trans += r.get("generated", 0)
    # deadlock freedom with three one-shot handlers: TLC's deadlock check, terminal step when all are done
    plans3 = ["read", "write", "unlink", "global"] if tier == "quick" else ["read", "write", "unlink", "walk", "clone", "global", "remove"]
    r = vlib.run_tlc(s, "MC_PathLocks", pathlocks.cfg(3, plans3, fixed, ["LocksSane"], loop=False, deadlock=True), name="pl-dead3", timeout=3000)
    if "violated" in r:
        raise Inconclusive("PathLocks.tla: " + r["violated"] + " with three handlers")
    runs.append({"spec": "PathLocks", "config": "3 one-shot handlers, %s, deadlock check" % plans3, "distinct": r.get("distinct"), "generated": r.get("generated")})
    states += r.get("distinct", 0); trans += r.get("generated", 0)
    r = connloop.tlc(s, "three-ops", connloop.CONFIGS["three-ops"], connloop.ALL_DEV, invariants=["ReceiverExists", "OneReceiver"],
                     props=connloop.LIVENESS, runname="cl-live")
    if "violated" in r:
        raise Inconclusive("ConnLoop.tla violates " + r["violated"])
    runs.append({"spec": "ConnLoop", "config": "three-ops, liveness", "distinct": r.get("distinct"), "generated": r.get("generated")})
    states += r.get("distinct", 0); trans += r.get("generated", 0)
    return runs, states, trans


def workloads(s, tier, seed, bindir, verdict, race=False):
    cfgs = []
    n = 12 if tier == "quick" else 60
    import random
    rng = random.Random(seed)
    for i in range(n):
        cfgs.append(dict(clients=rng.choice([2, 3, 8, 16, 32, 64]), conns=rng.choice([1, 2, 4, 8]), steps=rng.choice([40, 80, 160]),
                         xrename=rng.random() < 0.6, seed=seed * 100 + i))
    procs = []
    for i, c in enumerate(cfgs):
        out = os.path.join(s, "wl-%s%d.json" % ("race-" if race else "", i))
        tr = os.path.join(s, "wl-%d.ndjson" % i)
        cmd = [os.path.join(bindir, "workload"), "-clients", str(c["clients"]), "-conns", str(c["conns"]), "-steps", str(c["steps"]),
               "-seed", str(c["seed"]), "-xrename=%s" % ("true" if c["xrename"] else "false"), "-out", out] + ([] if race else ["-trace", tr])
        procs.append((c, out, tr, cmd))
    tot = {"requests": 0, "reads": 0, "renames": 0, "events": 0, "runs": 0}
    traces = []
    # run 4 at a time
    for j in range(0, len(procs), 4):
        batch = [(c, out, tr, subprocess.Popen(cmd, env=vlib.goenv(), stdout=subprocess.PIPE, stderr=subprocess.PIPE, text=True))
                 for (c, out, tr, cmd) in procs[j:j + 4]]
        for c, out, tr, p in batch:
            try:
                so, se = p.communicate(timeout=600)
            except subprocess.TimeoutExpired:
                p.kill()
                rp = vlib.save_replay("C16", {"workload": c, "finding": "the workload driver itself hung"}, "workload")
                verdict.violation(rp, "workload %s did not finish" % c)
                continue
            if "DATA RACE" in se or "concurrent map" in se or "fatal error" in se:
                rp = vlib.save_replay("C16", {"workload": c, "race": race, "stderr": se[-4000:]}, "race")
                verdict.violation(rp, "runtime reported %s in workload %s" % ("a data race" if "DATA RACE" in se else "a fatal error", c))
                continue
            if p.returncode != 0 or not os.path.exists(out):
                raise Inconclusive("workload driver failed: " + se[-1500:])
            r = json.load(open(out))
            tot["runs"] += 1
            for k in ("requests", "reads", "renames", "events"):
                tot[k] += r.get(k, 0)
            if r.get("findings"):
                rp = vlib.save_replay("C16", {"workload": c, "race": race, "findings": r["findings"]}, "workload")
                verdict.violation(rp, "workload %s: %s" % (c, r["findings"][0]))
            if not race and os.path.exists(tr):
                traces.append(tr)
    return tot, traces, cfgs


def isolation(s, tier, seed, bindir, verdict, race=False):
    fixed = vlib.fixed_ids()
    kinds = [k for k in session.ALL_KINDS if k != "Disconnect"]
    files = []
    c = session.base(BadNames=[".."], AttachNames=["", "a/b"], MaxDepth=3, Fixed=fixed, Kinds=kinds)
    out = os.path.join(s, "iso-bfs.ndjson")
    if not os.path.exists(out):
        vlib.run_tlc(s, "MC_Session", session.cfg_text(c, dump=True), workers=1, env={"GEN_OUT": out}, name="iso-gen-bfs", timeout=1500)
        c2 = session.base(MaxDepth=12, MaxFiles=12, Fixed=fixed, Kinds=kinds)
        out2 = os.path.join(s, "iso-sim.ndjson")
        vlib.run_tlc(s, "MC_Session", session.cfg_text(c2, dump=True), workers=1, env={"GEN_OUT": out2, "GEN_LAST": "1"},
                     name="iso-gen-sim", timeout=1500, extra=["-simulate", "num=%d" % (40 if tier == "quick" else 300), "-depth", "12", "-seed", str(seed)])
    files = [os.path.join(s, "iso-bfs.ndjson"), os.path.join(s, "iso-sim.ndjson")]
    tot = {"rounds": 0, "clients": 0, "steps": 0, "agreed_clients": 0}
    sample = None
    rounds = 150 if tier == "quick" else 1500
    if race:
        rounds //= 5
    for i, f in enumerate(files):
        o = os.path.join(s, "iso-%s%d.json" % ("race-" if race else "", i))
        p = subprocess.run([os.path.join(bindir, "isoreplay"), "-in", f, "-out", o, "-rounds", str(rounds), "-clients", "10", "-conns", "3",
                            "-seed", str(seed + i)], env=vlib.goenv(), capture_output=True, text=True, timeout=1800)
        if "DATA RACE" in p.stderr or "concurrent map" in p.stderr or "fatal error" in p.stderr:
            rp = vlib.save_replay("C16", {"isolation": f, "race": race, "stderr": p.stderr[-4000:]}, "race")
            verdict.violation(rp, "runtime reported a data race / fatal error during concurrent replay")
            continue
        if p.returncode != 0:
            raise Inconclusive("isoreplay failed: " + p.stderr[-1500:])
        r = json.load(open(o))
        for k in tot:
            tot[k] += r.get(k, 0)
        sample = sample or r.get("sample")
        for fd in (r.get("findings") or [])[:3]:
            rp = vlib.save_replay("C16", fd, "isolation")
            verdict.violation(rp, "client %s of a concurrent round: %s: %s" % (fd.get("client"), fd["mismatch"]["tag"], fd["mismatch"]["detail"]))
    return tot, sample


def run(tier, seed):
    t0 = time.time()
    verdict = vlib.Verdict("C16")
    vlib.ensure_setup()
    bindir = vlib.build_harness()
    with vlib.Scratch("C16") as s:
        runs, states, trans = tlc_part(s, tier)
        wl, traces, cfgs = workloads(s, tier, seed, bindir, verdict)
        fixed = [f for f in vlib.fixed_ids() if f in pathlocks.ALL_DEV]
        judged = pathlocks.judge(s, traces, fixed)
        nondev = [j for j in judged if not j["dev"]]
        iso, sample = isolation(s, tier, seed, bindir, verdict)
        life = lifetime.part("C16", tier, seed, verdict)
        nracy, stuck = pathlocks.racy_progress(s, 3 if tier == "quick" else 12)
        for cell, what in stuck[:3]:
            rp = vlib.save_replay("C16", {"cell": cell, "finding": what}, "racy")
            verdict.violation(rp, "simultaneous first look-ups of one name (node %d, %s connection): %s" %
                              (cell["a"]["n"], "second" if cell["cross"] else "same", what))
        states += life["states"]
        trans += life["transitions"]
        race_info = None
        if tier == "thorough":
            rb = vlib.build_harness(race=True)
            wl_r, _, _ = workloads(s, "quick", seed + 7, rb, verdict, race=True)
            iso_r, _ = isolation(s, "quick", seed + 7, rb, verdict, race=True)
            race_info = {"workloads": wl_r, "isolation": iso_r}
    cov = {"states": states, "transitions": trans,
           "traces_validated_against_impl": wl["runs"] + iso["agreed_clients"] + life["validated"],
           "samples": [{"workload_configs": cfgs[:3]}, {"isolation_round": sample}],
           "evaluations": wl["runs"] + iso["rounds"] + life["evaluations"],
           "distinct_nontrivial": wl["runs"] + iso["rounds"] + life["evaluations"], "rule": RULE,
           "lifetime": life["cov"], "simultaneous_first_lookup_cells": nracy,
           "workload": wl, "isolation": iso, "backend_log_events_validated_by_TLC": wl["events"],
           "contract_conflicts_in_workload_logs": {"known_deviations": len(judged) - len(nondev), "other (owned by C07)": len(nondev)},
           "race_detector": race_info or "thorough tier only", "tlc_runs": runs, "exhaustive": False,
           "checker_cmd": "tlc PathLocks/ConnLoop/Trace_Overlap + harness/cmd/workload + harness/cmd/isoreplay; " + life["checker_cmd"]}
    vlib.write_evidence("C16", tier, seed, "model_checking", cov, [
        "progress of the lock protocol and of the connection loop is model-checked under fairness; on the real scheduler progress is a watchdog observation (10 s per request)",
        "data-race freedom is decided by the Go race detector on these workloads (thorough tier), not by TLA+",
        "clients keep at most one request outstanding per fid",
    ], time.time() - t0, len(verdict.violations))
    return verdict.finish()


def replay(path):
    rep = json.load(open(path))
    if isinstance(rep, dict) and rep.get("kind") == "lifetime":
        return lifetime.replay_one(rep)
    print("re-run ./check C16 with the seed recorded in " + path)
    return 2
