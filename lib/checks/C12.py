"""C12 - version and msize negotiation (spec/Version.tla)."""
from .. import versioncheck

RULE = ("every (msize, base, extension) of Version.tla's grid (10 msize values incl. 0, <header, 4 MiB+1, 2^32-1 x 9 bases x 27 "
        "extensions: every N incl. leading zeros, overflow, signs, extra dots, other dialects) sent as Tversion to p9.Server, and "
        "every (requested msize, offered version, offered msize, EAGAIN retries) pair answered to NewClient by a scripted server, "
        "followed by probe operations whose message types and sizes must match what the client adopted")


def run(tier, seed):
    return versioncheck.run("C12", tier, seed, ["version", "client"], RULE,
                            "finite grid, exhaustive; each vector replayed against the real server / client")


def replay(path):
    print(open(path).read())
    return 2
