"""C04 - session state machine (spec/Session.tla, every explored edge replayed)."""
import subprocess, os
from .. import session, vlib

RULE = ("every (model state, request) edge of the bounded Session.tla model with a shortest witness history, "
        "replayed in lock step against p9.Server; distinct = distinct (request type, reply, backend-call "
        "outcome list) of the final step; non-trivial = the final step is rejected by a session rule or reaches the backend")


def nontrivial(k):
    return not k.endswith("|")  or "Rlerror" in k


def run(tier, seed):
    io = session.base(InitWorld="empty", Kinds=["Tattach", "Tlcreate", "Tucreate", "Tlopen", "Tread", "Twrite", "Tfsync", "Treaddir",
                                               "Tclunk", "Twalk", "Tmkdir", "Txattrcreate", "Txattrwalk"])
    # one backend error (EIO) in a history: what the fault-free requests AFTER the failed one are answered
    # (a fid left open or bound by a request that failed) is the session model's business too
    flt = session.base(Kinds=["Tattach", "Twalk", "Tlopen", "Tlcreate", "Tread", "Twrite", "Tfsync", "Tclunk", "Tremove", "Txattrwalk"],
                       FaultKinds=["EIO"], MaxFaults=1, MaxDepth=3)
    # hard links: refused inside an opened DIRECTORY fid (whatever the state of the target fid)
    lnk = session.base(Kinds=["Tattach", "Twalk", "Tlopen", "Tlink", "Tclunk"], MaxDepth=4)
    if tier == "quick":
        mc = [("full-d4", session.base(BadNames=[".."], AttachNames=["", "a/b"], MaxDepth=4)), ("io-d4", dict(io, MaxDepth=4))]
        gen = [("full-d3", session.base(BadNames=[".."], AttachNames=["", "a/b"], MaxDepth=3), "bfs"),
               ("io-d3", dict(io, MaxDepth=3), "bfs"), ("fault-d3", flt, "bfs"), ("link-d4", lnk, "bfs")]
    else:
        mc = [("full-d4", session.base(BadNames=[".."], AttachNames=["", "a/b"], MaxDepth=4)), ("io-d5", dict(io, MaxDepth=5)),
              ("mix-d4", session.base(Names=["a", "b", "s", "k"], InitWorld="mix", MaxDepth=4,
                                      Kinds=[k for k in session.ALL_KINDS if not k.startswith("Tu")]))]
        gen = [("full-d4", session.base(BadNames=[".."], AttachNames=["", "a/b"], MaxDepth=4), "bfs"),
               ("io-d4", dict(io, MaxDepth=4), "bfs"), ("fault-d4", dict(flt, MaxDepth=4), "bfs"), ("link-d5", dict(lnk, MaxDepth=5), "bfs")]
    return session.run("C04", tier, seed, mc, gen, RULE, nontrivial)


def replay(path):
    vlib.ensure_setup(); vlib.build_harness()
    p = subprocess.run([os.path.join(vlib.BIN, "sessionreplay"), "-single", "-in", path], env=vlib.goenv())
    return p.returncode
