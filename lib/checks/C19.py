"""C19 - directory listing: every entry exactly once, QIDs agree with Walk/GetAttr (spec/Readdir.tla)."""
import json
import os
import shutil
import time

from .. import vlib
from ..vlib import Inconclusive

ALL_DEV = ["R8"]
RULE = ("every case of Readdir.tla (directory sizes 0..6, per-call 'how many whole entries fit' sequences over {1,2,3,all}, index and "
        "local backends) scaled to real directories (sizes up to ~1500, name lengths 6..255) on localfs (temporary directories), "
        "staticfs, composefs root, staticfs mounted in composefs and in a nested composefs directory; each listed directly on the "
        "File and through a real client/server pair with byte counts computed so that exactly that many whole entries fit (or "
        "beyond msize); compared: every entry exactly once, strictly increasing offsets, pages within the count, QID and type of "
        "entries against Walk + GetAttr")


def run(tier, seed):
    prop = "C19"
    t0 = time.time()
    verdict = vlib.Verdict(prop)
    vlib.ensure_setup()
    vlib.build_harness()
    fixed = [f for f in vlib.fixed_ids() if f in ALL_DEV]
    with vlib.Scratch(prop) as s:
        out = os.path.join(s, "vec.ndjson")

        def cfg(fx, seq):
            return "\n".join(["SPECIFICATION Spec", "CONSTANTS", "  MaxN = 6", "  Fits = {1, 2, 3, 99}", "  MaxSeq = %d" % seq,
                              '  Backends = {"index", "local"}', "  Fixed = {%s}" % ", ".join('"%s"' % f for f in fx),
                              "CHECK_DEADLOCK FALSE", "INVARIANTS Complete NoDuplicates Terminates Dump", ""])
        seq = 2 if tier == "quick" else 3
        r = vlib.run_tlc(s, "MC_Readdir", cfg(ALL_DEV, seq), workers=1, env={"GEN_OUT": out}, name="readdir")
        if "violated" in r:
            raise Inconclusive("Readdir.tla violates " + r["violated"])
        work = os.path.join(s, "trees")
        os.makedirs(work)
        outs = []

        def args(i, k):
            o = os.path.join(s, "lst-%d.json" % i)
            outs.append(o)
            return ["-in", out, "-out", o, "-work", work, "-shard", str(i), "-nshard", str(k)]
        res = vlib.run_shards("listing", args, timeout=2400)
        cases = lst = ents = 0
        findings = []
        samples = []
        for (rc, o, e), f in zip(res, outs):
            if rc != 0 or not os.path.exists(f):
                raise Inconclusive("listing driver failed: " + (e or o)[-1500:])
            d = json.load(open(f))
            cases += d["cases"]
            lst += d["listings"]
            ents += d["entries"]
            findings += d.get("findings") or []
            samples += (d.get("samples") or [])[:1]
        for f in findings[:5]:
            p = vlib.save_replay(prop, {"finding": f}, "listing")
            verdict.violation(p, f)
        shutil.rmtree(work, ignore_errors=True)
    cov = {"states": r.get("distinct", 0), "transitions": r.get("generated", 0),
           "traces_validated_against_impl": lst - len(findings), "samples": samples[:2] or [{"note": "none"}],
           "evaluations": lst, "distinct_nontrivial": lst, "rule": RULE, "abstract_cases": cases, "listings": lst,
           "entries_listed": ents, "exhaustive": True, "checker_cmd": "tlc MC_Readdir.tla + harness/cmd/listing"}
    vlib.write_evidence(prop, tier, seed, "model_checking", cov, [
        "names within one directory have one length, so that byte counts can be computed for exactly k whole entries without knowing the OS order of localfs",
        "QID agreement is sampled (about 40 entries) for directories above 60 entries",
    ], time.time() - t0, len(verdict.violations))
    return verdict.finish()


def replay(path):
    print(open(path).read())
    return 2
