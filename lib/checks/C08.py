"""C08 - path coherence under rename/unlink and fencing (spec/Session.tla)."""
import subprocess, os
from .. import session, vlib

RULE = ("every edge of the tree-shaping configurations of Session.tla (create/mkdir/walk/clone/rename/renameat/unlinkat/"
        "remove/clunk with 3 fids on a depth-3 tree, renames over existing targets, subtree moves, re-creation) replayed; "
        "compared: Renamed callbacks as a set, the path the backend believes for every handle, names passed by "
        "Trename/Tremove, replies and absence of backend calls through fenced fids; non-trivial = the final step renames, "
        "unlinks, or acts through a fenced fid")

SHAPE = ["Tattach", "Twalk", "Tclunk", "Tlcreate", "Tmkdir", "Trenameat", "Trename", "Tunlinkat", "Tremove"]
USE = SHAPE + ["Tgetattr", "Tlopen", "Tread", "Tsetattr", "Treaddir", "Tlink", "Tsymlink", "Txattrwalk"]


def nontrivial(k):
    return "RenameAt" in k or "UnlinkAt" in k or "Renamed" in k or "EINVAL" in k or "ENOENT" in k


def run(tier, seed):
    shape = session.base(Fids=[1, 2, 3], Kinds=SHAPE, InitWorld="deep", MaxFiles=7)
    use = session.base(Fids=[1, 2, 3], Kinds=USE, AttachNames=["", "a/a"], InitWorld="deep", MaxFiles=7)
    xdir = session.base(Fids=[1, 2, 3], Kinds=["Tattach", "Twalk", "Trenameat", "Trename"], InitWorld="deep", MaxFiles=7)
    if tier == "quick":
        mc = [("shape-d4", dict(shape, MaxDepth=4)), ("use-d4", dict(use, MaxDepth=4, Fids=[1, 2]))]
        gen = [("shape-d3", dict(shape, MaxDepth=3), "bfs"), ("use-d3", dict(use, MaxDepth=3, Fids=[1, 2]), "bfs"),
               ("xdir-d4", dict(xdir, MaxDepth=4), "bfs"),
               ("shape-sim", dict(shape, MaxDepth=12, MaxFiles=12), "sim:40:12")]
    else:
        mc = [("shape-d5", dict(shape, MaxDepth=5)), ("use-d4", dict(use, MaxDepth=4))]
        gen = [("shape-d4", dict(shape, MaxDepth=4), "bfs"), ("use-d4", dict(use, MaxDepth=4, Fids=[1, 2]), "bfs"),
               ("shape-sim", dict(shape, MaxDepth=25, MaxFiles=20), "sim:300:25")]
    return session.run("C08", tier, seed, mc, gen, RULE, nontrivial)


def replay(path):
    vlib.ensure_setup(); vlib.build_harness()
    p = subprocess.run([os.path.join(vlib.BIN, "sessionreplay"), "-single", "-in", path], env=vlib.goenv())
    return p.returncode
