"""C20 - QID identity and mode/type mapping (spec/Qid.tla)."""
import json
import os
import subprocess
import time

from .. import vlib
from ..vlib import Inconclusive

ALL_DEV = ["R7"]
RULE = ("the 480-pair (major, minor, upper device bits, inode) grid of Qid.tla (incl. majors/minors beyond 12 bits, high device bits, "
        "inodes 2^39-1 / 2^39 / 2^63 / 2^64-1) through localfs' verif export, looked up twice in different orders (stability), exact "
        "compact value, bit 63 for table entries, injectivity over the grid and against small compact pairs as the table grows; all "
        "7 x 4096 modes through OSMode/ModeFromOS/QIDType (exhaustive); real localfs files of five types; concurrent Walk/GetAttr of "
        "fresh and known paths through composefs/staticfs mounts from 16 (thorough: 64, also under -race) client goroutines in a "
        "child process whose abort would be the observation")


def run(tier, seed):
    prop = "C20"
    t0 = time.time()
    verdict = vlib.Verdict(prop)
    vlib.ensure_setup()
    bindir = vlib.build_harness()
    fixed = [f for f in vlib.fixed_ids() if f in ALL_DEV]
    with vlib.Scratch(prop) as s:
        out = os.path.join(s, "grid.ndjson")

        def cfg(fx, callers):
            return "\n".join(["SPECIFICATION Spec", "CONSTANTS", "  Callers = {%s}" % ", ".join(str(i) for i in range(1, callers + 1)),
                              '  Sources = {"x", "y"}', "  Fixed = {%s}" % ", ".join('"%s"' % f for f in fx), "CHECK_DEADLOCK FALSE",
                              "INVARIANTS Stable Injective", ""])
        r = vlib.run_tlc(s, "MC_Qid", cfg(ALL_DEV, 3), env={"GEN_OUT": out}, workers=1, name="qid")
        if "violated" in r:
            raise Inconclusive("Qid.tla violates " + r["violated"])
        runs = [(bindir, 16 if tier == "quick" else 64, 60 if tier == "quick" else 200, False)]
        if tier == "thorough":
            runs.append((vlib.build_harness(race=True), 32, 80, True))
        tot = {"pairs": 0, "modes": 0, "concurrent_lookups": 0}
        samples = []
        for bd, g, files, race in runs:
            o = os.path.join(s, "qid-%s.json" % ("race" if race else "plain"))
            p = subprocess.run([os.path.join(bd, "qidcheck"), "-in", out, "-out", o, "-work", s, "-goroutines", str(g), "-files", str(files)],
                               env=vlib.goenv(), capture_output=True, text=True, timeout=1200)
            if "DATA RACE" in p.stderr or "concurrent map" in p.stderr or "fatal error" in p.stderr or p.returncode not in (0,):
                if "DATA RACE" in p.stderr or "concurrent map" in p.stderr or "fatal error" in p.stderr:
                    rp = vlib.save_replay(prop, {"race_build": race, "stderr": p.stderr[-4000:]}, "abort")
                    verdict.violation(rp, "concurrent QID lookups through composefs: the runtime reported %s" %
                                      ("a data race" if "DATA RACE" in p.stderr else "a fatal error (concurrent map access)"))
                    continue
                raise Inconclusive("qidcheck failed: " + p.stderr[-1500:])
            d = json.load(open(o))
            for k in tot:
                tot[k] += d.get(k, 0)
            samples += d.get("samples") or []
            for f in (d.get("findings") or [])[:5]:
                rp = vlib.save_replay(prop, {"finding": f}, "qid")
                verdict.violation(rp, f)
    n = tot["pairs"] + tot["modes"]
    cov = {"states": r.get("distinct", 0) + 28672, "transitions": r.get("generated", 0),
           "traces_validated_against_impl": n, "samples": samples[:2] or [{"note": "none"}],
           "evaluations": n + tot["concurrent_lookups"], "distinct_nontrivial": n, "rule": RULE, "grid_pairs": tot["pairs"],
           "modes_round_tripped": tot["modes"], "concurrent_lookups": tot["concurrent_lookups"], "exhaustive": True,
           "checker_cmd": "tlc MC_Qid.tla (Mapper interleavings, mode round trip ASSUME, grid dump) + harness/cmd/qidcheck"}
    vlib.write_evidence(prop, tier, seed, "model_checking", cov, [
        "64-bit values are field records in the specification; the harness computes the integers (TLC's integers are 32-bit)",
        "the hook fsimpl/localfs/verif_export.go evaluates the mapping on synthetic FileInfo values",
        "concurrent use of the mapper on the real scheduler is a stress observation (abort / inconsistency / race report), the interleavings are model-checked on Qid.tla",
    ], time.time() - t0, len(verdict.violations))
    return verdict.finish()


def replay(path):
    print(open(path).read())
    return 2
