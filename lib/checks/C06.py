"""C06 - one tagged reply per request, concurrency of service (spec/ConnLoop.tla)."""
from .. import connloop

RULE = ("every stimulus script of the ConnLoop.tla configurations with duplicate tags, immediate tag re-use, an "
        "undecodable frame between requests, self/idle flushes and three independent operations held inside the "
        "backend and released in every order; observations (complete replies with tag and type, calls inside the "
        "backend - i.e. which requests were served while others were blocked -, return of Handle) must be a path of the graph; plus batches of 64 in-flight reads with payloads of different sizes released "
        "at once from concurrent goroutines through a writer that yields inside a frame (frame contiguity, one reply per tag, own payload)")


def own(name, script, finding, detail=None):
    return True


def run(tier, seed):
    cfgs = ["mixed-ops", "dup-tag", "flush-twice", "flush-basic", "clunk-held"] if tier == "quick" else \
        ["three-ops", "mixed-ops", "dup-tag", "tag-reuse", "bad-frame", "flush-self", "flush-basic", "flush-twice", "flush-chain", "clunk-held"]
    return connloop.run("C06", tier, seed, cfgs, own, RULE, 150 if tier == "quick" else None,
                        batch=(64, 10) if tier == "quick" else (64, 250))


def replay(path):
    return connloop.replay(path)
