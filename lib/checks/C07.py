"""C07 - backend concurrency contract (spec/PathLocks.tla, rendezvous matrix, TLC-judged enter/exit logs)."""
from .. import pathlocks

RULE = ("one cell per (plan instance and call at which request A is held inside the backend) x (plan instance of request B): "
        "all lock plans of PathLocks.tla (read, write, unlink, walk, two-component walk, clone, rename, remove, none, attach) "
        "over the nodes root, a, a/b, c, same or second connection, concrete requests chosen per plan (seeded in quick, all in "
        "thorough); observed: does B reach the backend while A is inside; every simultaneous pair in the recorded log is judged "
        "by TLC (Trace_Overlap.tla) against the File contract; plus cells whose two fids on one path are created by walks "
        "released from the backend at the same instant (spin barrier), so that the path node is looked up for the first time "
        "concurrently (NodeFor.tla: one node, hence one lock, per path)")


def run(tier, seed):
    return pathlocks.run("C07", tier, seed, RULE)


def replay(path):
    print("re-run ./check C07; the cell is described in " + path)
    return 2
