"""C14 - Tflush ordering (spec/ConnLoop.tla: FlushAfterStop, immediate answers, liveness)."""
from .. import connloop

RULE = ("every stimulus script (deliver request / release its backend call / hang up, in every order the big-step graph "
        "of ConnLoop.tla allows) of configurations with one or several, chained, repeated, idle-tag and own-tag "
        "flushes of reads, writes, walks, mkdirs and renames held inside the backend; after each stimulus the set of "
        "complete reply frames, of calls inside the backend and the return of Handle must be a state of the graph")


def own(name, script, finding, detail=None):
    return connloop.flush_related(detail)


def run(tier, seed):
    cfgs = ["flush-basic", "flush-twice", "flush-chain", "flush-self-busy", "flush-notag", "flush-walkover", "flush-renamedeep", "flush-badsametag"] if tier == "quick" else \
        ["flush-basic", "flush-self", "flush-chain", "flush-twice", "flush-idle", "flush-rename", "flush-self-busy", "flush-notag", "flush-walkover", "flush-renamedeep", "flush-badsametag"]
    return connloop.run("C14", tier, seed, cfgs, own, RULE, 150 if tier == "quick" else None)


def replay(path):
    return connloop.replay(path)
