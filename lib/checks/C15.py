"""C15 - fault containment (spec/Session.tla with an error or a panic at every backend call index)."""
import subprocess, os
from .. import session, vlib

RULE = ("every edge of Session.tla with the fault budget enabled: an EIO or a panic injected at every backend call index "
        "of every request kind (incl. inside multi-step walks, rename notifications and Close), followed by the state "
        "probes and, for histories, by further requests on the same fids and paths and on a second connection; "
        "non-trivial = a fault struck in the history")


def nontrivial(k):
    return ":EIO" in k or ":panic" in k


def run(tier, seed):
    f = session.base(AttachNames=["", "a/b"], FaultKinds=["EIO", "panic"], MaxFaults=1)
    ren = session.base(Fids=[1, 2, 3], Kinds=["Tattach", "Twalk", "Tclunk", "Trenameat", "Trename", "Tunlinkat", "Tremove", "Tgetattr"],
                       InitWorld="deep", MaxFiles=7, FaultKinds=["EIO", "panic"], MaxFaults=1)
    two = session.base(Conns=[1, 2], Fids=[1], Kinds=["Tattach", "Twalk", "Tclunk", "Tmkdir", "Tunlinkat", "Tgetattr", "Disconnect"],
                       FaultKinds=["EIO", "panic"], MaxFaults=1)
    core = ["Tattach", "Twalk", "Twalkgetattr", "Tclunk", "Tremove", "Tlcreate", "Tlopen", "Tread", "Tmkdir", "Txattrwalk",
            "Txattrcreate", "Twrite", "Tunlinkat", "Trenameat", "Tgetattr"]
    if tier == "quick":
        mc = [("fault-d3", dict(f, MaxDepth=3)), ("rename-d4", dict(ren, MaxDepth=4))]
        gen = [("fault-d2", dict(f, MaxDepth=2), "bfs"), ("core-d3", dict(f, MaxDepth=3, Kinds=core, AttachNames=[""]), "bfs"),
               ("rename-d3", dict(ren, MaxDepth=3, Fids=[1, 2]), "bfs"), ("twoconn-d3", dict(two, MaxDepth=3), "bfs")]
    else:
        # (rename-d5 with three fids does not finish within 50 min; two fids: 330 k states in a minute)
        mc = [("fault-d4", dict(f, MaxDepth=4)), ("rename-d5", dict(ren, MaxDepth=5, Fids=[1, 2])), ("rename-d4-3fids", dict(ren, MaxDepth=4)),
              ("twoconn-d5", dict(two, MaxDepth=5))]
        gen = [("fault-d4", dict(f, MaxDepth=4, Kinds=[k for k in session.ALL_KINDS if not k.startswith("Tu")]), "bfs"),
               ("rename-d5", dict(ren, MaxDepth=5, Fids=[1, 2]), "bfs"), ("twoconn-d5", dict(two, MaxDepth=5), "bfs")]
    return session.run("C15", tier, seed, mc, gen, RULE, nontrivial)


def replay(path):
    vlib.ensure_setup(); vlib.build_harness()
    p = subprocess.run([os.path.join(vlib.BIN, "sessionreplay"), "-single", "-in", path], env=vlib.goenv())
    return p.returncode
