"""C05 - File lifecycle (spec/Session.tla histories, faults, disconnects; byte-offset cuts)."""
import subprocess, os
import json
from .. import session, vlib, lifetime

RULE = ("every edge of the bounded lifecycle configurations of Session.tla (failed multi-step walks, fid replacement, "
        "create rebinding, xattr fids, rename/unlink of referenced entries, disconnect, an EIO at every backend call "
        "index) replayed against p9.Server with a counting backend; plus the connection cut inside the last frame of "
        "every history; distinct = distinct final steps; non-trivial = the final step closes a File, obtains one, or fails after obtaining one")

LIFE_RULE = ("; schedules: every stimulus script of the Lifetime.tla scenarios (rename within / across directories, of a "
             "directory with held entries, over a held target, racing with clunks, an in-flight request holding the last "
             "reference, and the teardown of a second connection; Close, Renamed, GetAttr, RenameAt held at gates) executed "
             "against p9.Server: answered requests, calls inside the backend, Close counts per File and calls on closed Files "
             "must be a path of the specification's graph")

LIFE = ["Tattach", "Twalk", "Twalkgetattr", "Tclunk", "Tremove", "Tlcreate", "Txattrwalk", "Trenameat",
        "Tunlinkat", "Tlopen", "Disconnect"]


def nontrivial(k):
    return "Close" in k or "Walk:ok" in k or "Create:ok" in k or "Attach:ok" in k


def run(tier, seed):
    # CloneProbes: after every explored edge each bound fid is cloned onto a free number and the clone clunked
    life = session.base(Kinds=LIFE, AttachNames=["", "a/b", "b/a"], MaxFiles=7, CloneProbes=True)
    fault = session.base(Kinds=[k for k in LIFE if k != "Tlopen"], AttachNames=["", "a/b"], MaxFiles=7,
                         FaultKinds=["EIO"], MaxFaults=1)
    two = session.base(Conns=[1, 2], Fids=[1], Kinds=["Tattach", "Twalk", "Tclunk", "Trenameat", "Tunlinkat", "Disconnect"],
                       AttachNames=["", "a/b"], MaxFiles=6)
    ren = session.base(Kinds=["Tattach", "Twalk", "Tclunk", "Trenameat", "Trename", "Tunlinkat", "Disconnect"], MaxFiles=7, CloneProbes=True)
    if tier == "quick":
        mc = [("life-d4", dict(life, MaxDepth=4)), ("fault-d3", dict(fault, MaxDepth=3)), ("twoconn-d4", dict(two, MaxDepth=4)),
              ("rename-d5", dict(ren, MaxDepth=5))]
        gen = [("life-d3", dict(life, MaxDepth=3), "bfs"), ("fault-d3", dict(fault, MaxDepth=3), "bfs"),
               ("twoconn-d3", dict(two, MaxDepth=3), "bfs"), ("rename-d4", dict(ren, MaxDepth=4), "bfs")]
        cuts = "sample"
    else:
        mc = [("life-d5", dict(life, MaxDepth=5)), ("fault-d4", dict(fault, MaxDepth=4)), ("twoconn-d5", dict(two, MaxDepth=5))]
        gen = [("life-d4", dict(life, MaxDepth=4), "bfs"), ("fault-d4", dict(fault, MaxDepth=4), "bfs"),
               ("twoconn-d4", dict(two, MaxDepth=4), "bfs"), ("rename-d5", dict(ren, MaxDepth=5), "bfs")]
        # every byte offset of the last frame for the fault-free histories, the four sampled offsets elsewhere
        cuts = {"life-d4": "all", "fault-d4": "sample", "twoconn-d4": "sample", "rename-d5": "sample"}
    return session.run("C05", tier, seed, mc, gen, RULE + LIFE_RULE, nontrivial, cuts=cuts,
                       extra=lambda s, verdict, sums: lifetime.part("C05", tier, seed, verdict))


def replay(path):
    rep = json.load(open(path))
    if rep.get("kind") == "lifetime":
        return lifetime.replay_one(rep)
    vlib.ensure_setup(); vlib.build_harness()
    p = subprocess.run([os.path.join(vlib.BIN, "sessionreplay"), "-single", "-in", path], env=vlib.goenv())
    return p.returncode
