"""C05 - File lifecycle (spec/Session.tla histories, faults, disconnects; byte-offset cuts)."""
import subprocess, os
from .. import session, vlib

RULE = ("every edge of the bounded lifecycle configurations of Session.tla (failed multi-step walks, fid replacement, "
        "create rebinding, xattr fids, rename/unlink of referenced entries, disconnect, an EIO at every backend call "
        "index) replayed against p9.Server with a counting backend; plus the connection cut inside the last frame of "
        "every history; distinct = distinct final steps; non-trivial = the final step closes a File, obtains one, or fails after obtaining one")

LIFE = ["Tattach", "Twalk", "Twalkgetattr", "Tclunk", "Tremove", "Tlcreate", "Txattrwalk", "Trenameat",
        "Tunlinkat", "Tlopen", "Disconnect"]


def nontrivial(k):
    return "Close" in k or "Walk:ok" in k or "Create:ok" in k or "Attach:ok" in k


def run(tier, seed):
    life = session.base(Kinds=LIFE, AttachNames=["", "a/b", "b/a"], MaxFiles=7)
    fault = session.base(Kinds=[k for k in LIFE if k != "Tlopen"], AttachNames=["", "a/b"], MaxFiles=7,
                         FaultKinds=["EIO"], MaxFaults=1)
    two = session.base(Conns=[1, 2], Fids=[1], Kinds=["Tattach", "Twalk", "Tclunk", "Trenameat", "Tunlinkat", "Disconnect"],
                       AttachNames=["", "a/b"], MaxFiles=6)
    ren = session.base(Kinds=["Tattach", "Twalk", "Tclunk", "Trenameat", "Trename", "Disconnect"], MaxFiles=7)
    if tier == "quick":
        mc = [("life-d4", dict(life, MaxDepth=4)), ("fault-d3", dict(fault, MaxDepth=3)), ("twoconn-d4", dict(two, MaxDepth=4)),
              ("rename-d5", dict(ren, MaxDepth=5))]
        gen = [("life-d3", dict(life, MaxDepth=3), "bfs"), ("fault-d3", dict(fault, MaxDepth=3), "bfs"),
               ("twoconn-d3", dict(two, MaxDepth=3), "bfs"), ("rename-d4", dict(ren, MaxDepth=4), "bfs")]
        cuts = "sample"
    else:
        mc = [("life-d5", dict(life, MaxDepth=5)), ("fault-d4", dict(fault, MaxDepth=4)), ("twoconn-d5", dict(two, MaxDepth=5))]
        gen = [("life-d4", dict(life, MaxDepth=4), "bfs"), ("fault-d4", dict(fault, MaxDepth=4), "bfs"),
               ("twoconn-d4", dict(two, MaxDepth=4), "bfs"), ("rename-d5", dict(ren, MaxDepth=5), "bfs")]
        cuts = "all"
    return session.run("C05", tier, seed, mc, gen, RULE, nontrivial, cuts=cuts)


def replay(path):
    vlib.ensure_setup(); vlib.build_harness()
    p = subprocess.run([os.path.join(vlib.BIN, "sessionreplay"), "-single", "-in", path], env=vlib.goenv())
    return p.returncode
