"""C18 - no carry-over between messages through recycled objects and buffers (spec/MsgCache.tla, spec/ReadBuf.tla)."""
import json
import os
import time

from .. import vlib
from ..vlib import Inconclusive

RULE = ("every history of 4 (thorough: 5) messages of one type (requests decoded by the server: Twalk, Twalkgetattr, Twrite, Tlcreate, Tread, Tsetattr (bit sets and scalars); "
        "replies decoded by the p9 client: Rreaddir, Rwalk, Rread, the xattr list, Rreadlink - there what every call returned is compared "
        "with its own reply when it returns and again after every later message of the history) with list / string / "
        "payload lengths from {0, 1, 3} on two connections sharing the process-wide message cache and the buffer pools (long then "
        "short, short then empty, interleaved across connections); every request's elements come from an alphabet unique to it, "
        "a lazy backend read exposes un-cleared buffers; compared: the arguments at the backend and the reply bytes with the "
        "request's own frame; plus batches of 2..5 Treads of mixed lengths all handled while the reply transport is stalled "
        "(the schedule of ReadBuf.tla in which every reply is queued before any is written): every Rread carries its own bytes")


def run(tier, seed):
    prop = "C18"
    t0 = time.time()
    verdict = vlib.Verdict(prop)
    vlib.ensure_setup()
    vlib.build_harness()
    with vlib.Scratch(prop) as s:
        out = os.path.join(s, "vec.ndjson")
        n = 4 if tier == "quick" else 5
        cfg = "\n".join(["SPECIFICATION Spec", "CONSTANTS", '  Types = {"Twalk", "Twalkgetattr", "Twrite", "Tlcreate", "Tread", "Tsetattr", "Rreaddir", "Rwalk", "Rread", "Rxattrlist", "Rreadlink"}',
                         "  Lens = {0, 1, 3}", "  Conns = {1, 2}", "  MaxLen = %d" % n, "CHECK_DEADLOCK FALSE",
                         "INVARIANTS NoCarryOver Dump", ""])
        r = vlib.run_tlc(s, "MC_MsgCache", cfg, workers=1, env={"GEN_OUT": out}, name="msgcache", timeout=1500)
        if "violated" in r:
            raise Inconclusive("MsgCache.tla violates " + r["violated"])
        rb_cfg = "\n".join(["SPECIFICATION Spec", "CONSTANTS", "  Reads = {1, 2, 3%s}" % ("" if tier == "quick" else ", 4"),
                            "  Bufs = {1, 2, 3%s}" % ("" if tier == "quick" else ", 4"),
                            "INVARIANTS ReplyIsOwn BufferExclusive PoolZeroed", "CHECK_DEADLOCK FALSE", ""])
        rb = vlib.run_tlc(s, "ReadBuf", rb_cfg, name="readbuf", timeout=600)
        if "violated" in rb:
            raise Inconclusive("ReadBuf.tla violates " + rb["violated"])
        outs = []

        def args(i, k):
            o = os.path.join(s, "mc-%d.json" % i)
            outs.append(o)
            return ["-in", out, "-out", o, "-shard", str(i), "-nshard", str(k)]
        res = vlib.run_shards("msgcache", args, nshard=8)
        cases = reqs = 0
        findings = []
        samples = []
        for (rc, o, e), f in zip(res, outs):
            if rc != 0 or not os.path.exists(f):
                raise Inconclusive("msgcache driver failed: " + (e or o)[-1500:])
            d = json.load(open(f))
            cases += d["cases"]
            reqs += d["requests"]
            findings += d.get("findings") or []
            samples += (d.get("samples") or [])[:1]
        for f in findings[:5]:
            p = vlib.save_replay(prop, {"finding": f}, "msgcache")
            verdict.violation(p, f)
    cov = {"states": r.get("distinct", 0) + rb.get("distinct", 0), "transitions": r.get("generated", 0) + rb.get("generated", 0),
           "readbuf_tla": {"distinct": rb.get("distinct"), "invariants": ["ReplyIsOwn", "BufferExclusive", "PoolZeroed"]},
           "traces_validated_against_impl": cases - len(findings), "samples": samples[:2] or [{"note": "none"}],
           "evaluations": cases, "distinct_nontrivial": cases, "rule": RULE, "requests": reqs, "exhaustive": True,
           "checker_cmd": "tlc MC_MsgCache.tla, ReadBuf.tla + harness/cmd/msgcache"}
    vlib.write_evidence(prop, tier, seed, "model_checking", cov, [
        "the orders of messages are exhaustive in the bound; the contents are one unique alphabet per request (exploration over contents)",
        "requests are handled one after the other, so each finds the object its predecessor returned to the cache; histories run in one server process per shard, so residue also carries over between histories",
    ], time.time() - t0, len(verdict.violations))
    return verdict.finish()


def replay(path):
    print(open(path).read())
    return 2
