"""C10 - client multiplexing (spec/Client.tla)."""
from .. import client


def run(tier, seed):
    return client.run(tier, seed)


def replay(path):
    return client.replay(path)
