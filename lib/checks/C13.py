"""C13 - negotiated msize never exceeded (spec/Version.tla size arithmetic)."""
from .. import versioncheck

RULE = ("every (msize, count, read|readdir, negotiated once | re-negotiated smaller | larger) of Version.tla's SizeCases (6 msize "
        "values from 64 bytes to 4 MiB x all count classes around msize-11, msize, 4 MiB, 2^32-1) against p9.Server with a backend "
        "that always has enough data/entries: the size field of the reply may never exceed the msize announced last; and the client "
        "vectors of C12: request and reply sizes within the msize the server announced; plus Treaddir over 72 consecutive msize "
        "values and 61 counts of msize-11 with mixed name lengths (every position of the cut relative to an entry boundary)")


def run(tier, seed):
    return versioncheck.run("C13", tier, seed, ["size", "client", "dirfit"], RULE,
                            "finite grid, exhaustive; each vector replayed against the real server / client")


def replay(path):
    print(open(path).read())
    return 2
