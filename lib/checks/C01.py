"""C01 - wire format (spec/Wire.tla layout table as independent oracle)."""
from .. import transp

RULE = ("every frame that travels in the ClientFile.tla scenario grid (all T types the client sends at versions 0..7 and all R "
        "types the server produces, with boundary values in every field) is decoded by a reference codec that interprets the "
        "layout table exported from Wire.tla: size field = length, every field in Wire.tla's order equals what the caller passed / "
        "the backend returned (positionally, so swapped or mis-sized fields show), permission fields carry 12 bits only, and "
        "re-encoding the decoded values reproduces the bytes; 65535-byte names and Tauth/Tflush travel in the raw-peer drivers of "
        "C09/C04/C06, which use the same codec; plus Treaddir for 150 consecutive counts and 72 consecutive msize values over "
        "a directory with mixed name lengths: the entries of the reply, sized qid[13] offset[8] type[1] name[s], total at most the requested count")


def run(tier, seed):
    return transp.run("C01", tier, seed, RULE,
                      "boundary-grid exploration against an independent layout statement; not a proof over all field values")


def replay(path):
    print(open(path).read())
    return 2
