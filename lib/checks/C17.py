"""C17 - stream segmentation independence on both receive paths (spec/Segments.tla)."""
import json
import os
import time

from .. import vlib
from ..vlib import Inconclusive

ALL_DEV = ["R13"]
RULE = ("every delivery of the 87-byte stream <unknown-type frame> Twrite Tgetattr with at most 2 cut points (the rejected frame's body "
        "is discarded across reads; the frames after it are served), and "
        "every delivery of the 58-byte stream Twrite(payload) Tclunk Tgetattr with at most 2 (thorough: 3) cut points, for the full "
        "stream and for streams ending one byte early, at frame boundaries, inside a body and inside a header; generic path: an "
        "io.Reader returning exactly the chunks, end of stream reported alone or together with the last data; linux path: a real "
        "AF_UNIX stream socket pair written chunk by chunk, each drained by the receiver before the next (FIONREAD); compared: which "
        "messages the server acts on, the payload bytes at the backend, no partial message, end of the session")


def run(tier, seed):
    prop = "C17"
    t0 = time.time()
    verdict = vlib.Verdict(prop)
    vlib.ensure_setup()
    vlib.build_harness()
    fixed = [f for f in vlib.fixed_ids() if f in ALL_DEV]
    with vlib.Scratch(prop) as s:
        out = os.path.join(s, "vec.ndjson")

        def cfg(fx, cuts, stream="A"):
            return "\n".join(["SPECIFICATION Spec", "CONSTANTS", "  Frames <- %s" % ("MCFrames" if stream == "A" else "MCFramesB"),
                              "  ChunkSets <- MCChunkSets", "  MaxCuts = %d" % cuts, '  Stream = "%s"' % stream,
                              "  Lens = %s" % ("{58, 57, 39, 28, 20, 3}" if stream == "A" else "{87}"),
                              "  Fixed = {%s}" % ", ".join('"%s"' % f for f in fx),
                              "CHECK_DEADLOCK FALSE", "INVARIANTS Independent Dump", ""])
        cuts = 2 if tier == "quick" else 3
        r0 = {"distinct": 0, "generated": 0}
        r = None
        for stream in ("A", "B"):
            # stream B (a rejected frame whose body is discarded, then two served ones): complete stream only, <= 2 cuts
            c = cuts if stream == "A" else 2
            ri = vlib.run_tlc(s, "MC_Segments", cfg(ALL_DEV, c, stream), name="ideal-" + stream, timeout=7200)
            if "violated" in ri:
                raise Inconclusive("Segments.tla (ideal) violates " + ri["violated"])
            r0["distinct"] += ri.get("distinct", 0)
            r0["generated"] += ri.get("generated", 0)
            r = vlib.run_tlc(s, "MC_Segments", cfg(fixed, c, stream).replace("INVARIANTS Independent Dump", "INVARIANTS Dump"), workers=1,
                             env={"GEN_OUT": out}, name="gen-" + stream, timeout=7200)
        outs = []

        def args(i, k):
            o = os.path.join(s, "seg-%d.json" % i)
            outs.append(o)
            return ["-in", out, "-out", o, "-shard", str(i), "-nshard", str(k)]
        res = vlib.run_shards("segments", args, timeout=5400)
        cases = 0
        findings = []
        samples = []
        for (rc, o, e), f in zip(res, outs):
            if rc != 0 or not os.path.exists(f):
                lp = vlib.library_panic(e)
                if lp:
                    findings.append("a well-formed segmented stream (shard %d): %s" % (len(samples), lp))
                    vlib.save_replay(prop, {"stderr": e[-4000:]}, "panic")
                    continue
                raise Inconclusive("segments driver failed: " + (e or o)[-1500:])
            d = json.load(open(f))
            cases += d["cases"]
            findings += d.get("findings") or []
            samples += (d.get("samples") or [])[:1]
        for f in findings[:5]:
            p = vlib.save_replay(prop, {"finding": f}, "segments")
            verdict.violation(p, f)
    cov = {"states": r0.get("distinct", 0), "transitions": r0.get("generated", 0),
           "traces_validated_against_impl": cases - len(findings), "samples": samples[:2] or [{"note": "none"}],
           "evaluations": cases, "distinct_nontrivial": cases, "rule": RULE, "exhaustive": True,
           "checker_cmd": "tlc MC_Segments.tla + harness/cmd/segments"}
    vlib.write_evidence(prop, tier, seed, "model_checking", cov, [
        "on the socket path the intended partial fills are produced by waiting until the receiver has drained each chunk; a chunk the kernel merges with the next would only make a case easier, never wrong",
        "one stream shape (payload-carrying frame first); cut points bounded",
    ], time.time() - t0, len(verdict.violations))
    return verdict.finish()


def replay(path):
    print(open(path).read())
    return 2
