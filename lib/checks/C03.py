"""C03 - client/server transparency at every version (spec/ClientFile.tla)."""
from .. import transp

RULE = ("every scenario of ClientFile.tla: 26 File methods x versions 0..7 with fingerprint arguments; every argument at each of its "
        "boundary classes (flags incl. extra bits, permissions incl. setuid/setgid/sticky/type bits/all ones, uid/gid sentinels, "
        "64-bit offsets, names with NUL/high/UTF-8 bytes and 255/32768-byte strings, masks none/all/single) at versions 0, 2, 7; "
        "backend results zero/max/odd; 12 error shapes (linux/syscall errno, wrapped 1x/3x, PathError, errors.Join, os.Err*, "
        "opaque) x errnos; compared: backend operation, backend File identity, arguments after the documented rewriting, "
        "returned values, errno, and that only message types of the negotiated version travel")


def run(tier, seed):
    return transp.run("C03", tier, seed, RULE, "finite scenario grid, exhaustive; each scenario executed end to end")


def replay(path):
    print(open(path).read())
    return 2
