"""C11 - chunked I/O (spec/Chunk.tla: every behaviour of the loop, replayed scaled to real payload sizes)."""
import json
import os
import time

from .. import vlib
from ..vlib import Inconclusive

RULE = ("every finished behaviour of Chunk.tla (read|write, chunk 1..3, length 0..3*chunk+1 incl. exact multiples and +-1, every "
        "per-request outcome: full, short by any amount, nothing, error) scaled to real payload sizes (msize 665/4249; thorough: 154.."
        "1 MiB) and offsets (0, >2^32), executed through p9 client -> p9 server -> scripted backend; compared: the (offset, count) "
        "sequence at the backend, n, the error (nil / io.EOF / errno), the bytes in p and the bytes written")


def run(tier, seed):
    prop = "C11"
    t0 = time.time()
    verdict = vlib.Verdict(prop)
    vlib.ensure_setup()
    vlib.build_harness()
    with vlib.Scratch(prop) as s:
        out = os.path.join(s, "vec.ndjson")
        cfg = "\n".join(["SPECIFICATION Spec", "CONSTANTS", "  MaxChunk = 3", '  Kinds = {"read", "write"}', "CHECK_DEADLOCK FALSE",
                         "INVARIANTS Contiguous StopAtFirstShort Result Terminates Dump", ""])
        r = vlib.run_tlc(s, "MC_Chunk", cfg, workers=1, env={"GEN_OUT": out}, name="chunk")
        if "violated" in r:
            raise Inconclusive("Chunk.tla violates " + r["violated"])
        outs = []

        def args(i, n):
            o = os.path.join(s, "chunk-%d.json" % i)
            outs.append(o)
            return ["-in", out, "-out", o, "-shard", str(i), "-nshard", str(n)] + (["-full"] if tier == "thorough" else [])
        res = vlib.run_shards("chunkio", args, nshard=8)
        cases = 0
        findings = []
        samples = []
        for (rc, o, e), f in zip(res, outs):
            if rc != 0 or not os.path.exists(f):
                lp = vlib.library_panic(e)
                if lp:
                    findings.append("during a chunked transfer: " + lp)
                    vlib.save_replay(prop, {"stderr": e[-4000:]}, "panic")
                    continue
                raise Inconclusive("chunkio failed: " + (e or o)[-1500:])
            d = json.load(open(f))
            cases += d["cases"]
            findings += d.get("findings") or []
            samples += (d.get("samples") or [])[:1]
        for f in findings[:5]:
            p = vlib.save_replay(prop, {"finding": f}, "chunk")
            verdict.violation(p, f)
    nvec = sum(1 for _ in open(out)) if os.path.exists(out) else 0
    cov = {"states": r.get("distinct", 0), "transitions": r.get("generated", 0),
           "traces_validated_against_impl": cases - len(findings), "samples": samples[:2] or [{"note": "none"}],
           "evaluations": cases, "distinct_nontrivial": cases, "rule": RULE, "abstract_behaviours": r.get("distinct", 0),
           "exhaustive": True, "checker_cmd": "tlc MC_Chunk.tla + harness/cmd/chunkio"}
    vlib.write_evidence(prop, tier, seed, "model_checking", cov, [
        "the abstract space (chunk <= 3, <= 4 requests) is exhaustive; concretisation maps 'one unit' to 1 byte or payload-1 bytes and whole chunks to the real payload size",
        "backend errors are EIO; the server turns a backend error with partial data into an error reply (n = 0 for that chunk), which is what the model's 'err' outcome means",
    ], time.time() - t0, len(verdict.violations))
    return verdict.finish()


def replay(path):
    print(open(path).read())
    return 2
