"""C09 - name confinement (spec/Session.tla with unsafe and odd names in every name position)."""
import subprocess, os
from .. import session, vlib

RULE = ("every edge of Session.tla configurations whose request alphabet offers the unsafe names '', '.', '..', 'a/b', "
        "'/a', 'a/', './a', './..', 'a/../b', './/a', 'a/../..', '../a', 'a//b', '/', 'a/.', './', 'b/..' (and 65535-byte, NUL and high-byte names as safe ones) in every name position of every name-bearing "
        "request, 12 attach-name shapes, and walks through symlinks/sockets; the backend records every name argument and "
        "the kind of every Walk receiver; non-trivial = the final step carries an unsafe or odd name or walks >1 component")

NAMEK = ["Tattach", "Twalk", "Twalkgetattr", "Tlcreate", "Tucreate", "Tmkdir", "Tumkdir", "Tsymlink", "Tusymlink",
         "Tmknod", "Tumknod", "Tlink", "Tunlinkat", "Trenameat", "Trename", "Tclunk"]
BAD = ["", ".", "..", "a/b", "/a", "a/"]
# names that a path-cleaning check would let through: their directory part cancels out
BAD2 = ["./a", "./..", "a/../b", ".//a", "a/../..", "../a", "a//b", "/", "a/.", "./", "b/.."]
ATT = ["", "/", "a", "/a", "a/b", "a//b", "//a", "/../b", "a/./b", "a/", "a/..", ".", "/a/"]


def nontrivial(k):
    return "EINVAL" in k or "Walk" in k or "ENOENT" in k


def run(tier, seed):
    bad = session.base(BadNames=BAD, AttachNames=ATT, Kinds=NAMEK)
    odd = session.base(Names=["a", "LONG", "NUL", "HIGH"], BadNames=[".."], AttachNames=["", "LONG"], Kinds=NAMEK, InitWorld="empty")
    mix = session.base(Names=["a", "b", "s", "k"], BadNames=[], AttachNames=["", "s/a", "a/b"], InitWorld="mix",
                       Kinds=["Tattach", "Twalk", "Twalkgetattr", "Tclunk", "Tmkdir", "Tlcreate"])
    # walks from fids that were bound by a create / mkdir (the server's cached type comes from the create, not from a walk)
    crw = session.base(Names=["a", "b"], BadNames=[], AttachNames=[""], InitWorld="empty", MaxDepth=3,
                       Kinds=["Tattach", "Tlcreate", "Tmkdir", "Twalk", "Twalkgetattr"])
    bad2 = session.base(BadNames=BAD2, AttachNames=[""], Kinds=NAMEK)
    if tier == "quick":
        mc = [("bad-d3", dict(bad, MaxDepth=3)), ("mix-d3", dict(mix, MaxDepth=3))]
        gen = [("bad-d2", dict(bad, MaxDepth=2), "bfs"), ("bad2-d2", dict(bad2, MaxDepth=2), "bfs"), ("create-walk-d3", crw, "bfs"), ("odd-d2", dict(odd, MaxDepth=2), "bfs"), ("mix-d3", dict(mix, MaxDepth=3), "bfs")]
    else:
        mc = [("bad-d4", dict(bad, MaxDepth=4)), ("mix-d4", dict(mix, MaxDepth=4))]
        gen = [("bad-d3", dict(bad, MaxDepth=3), "bfs"), ("bad2-d3", dict(bad2, MaxDepth=3), "bfs"), ("create-walk-d4", dict(crw, MaxDepth=4), "bfs"), ("odd-d3", dict(odd, MaxDepth=3), "bfs"), ("mix-d4", dict(mix, MaxDepth=4), "bfs")]
    return session.run("C09", tier, seed, mc, gen, RULE, nontrivial)


def replay(path):
    vlib.ensure_setup(); vlib.build_harness()
    p = subprocess.run([os.path.join(vlib.BIN, "sessionreplay"), "-single", "-in", path], env=vlib.goenv())
    return p.returncode
