"""C02 - decoder safety and resynchronisation (spec/Frames.tla)."""
import json
import os
import time

from .. import vlib
from ..vlib import Inconclusive

RULE = ("every stream of up to 3 (thorough: 4) frames drawn from the 15 frame kinds of Frames.tla (well-formed with/without payload, "
        "trailing bytes, unknown type, body shorter than the fixed part, empty body, element count / string length / payload count "
        "beyond the body, size field 0..6 / msize+1 / >4 MiB / 2^31 / 2^32-1, stream ending inside header / body), concretised with "
        "seeded random choices, fed to Server.Handle one frame at a time through a counting pipe: per frame the reply class and tag or "
        "the end of the connection, and the exact number of bytes consumed; plus the sweep of every request type x every proper prefix "
        "of a well-formed body x last string length +1/+2, each followed by a good request (Rlerror, then served); plus the size check of p9.Client as receiver for msize "
        "64 KiB / 4 MiB / 8 MiB; unacceptable R-frames with calls pending are covered by C10's stimuli")


def run(tier, seed):
    prop = "C02"
    t0 = time.time()
    verdict = vlib.Verdict(prop)
    vlib.ensure_setup()
    vlib.build_harness()
    with vlib.Scratch(prop) as s:
        out = os.path.join(s, "vec.ndjson")
        sz = os.path.join(s, "size.ndjson")
        n = 3 if tier == "quick" else 4
        cfg = "\n".join(["SPECIFICATION Spec", "CONSTANTS MaxLen = %d" % n, "CHECK_DEADLOCK FALSE",
                         "INVARIANTS WellDelimitedConsumedExactly OneReplyPerWellDelimited RejectedAnsweredRlerror NothingAfterFatal "
                         "FramesAfterRejectedStillServed BodyNeverReadForBadSize Dump", ""])
        r = vlib.run_tlc(s, "MC_Frames", cfg, workers=1, env={"GEN_OUT": out, "VEC_SIZE": sz}, name="frames", timeout=1500)
        if "violated" in r:
            raise Inconclusive("Frames.tla violates " + r["violated"])
        outs = []

        def args(i, k):
            o = os.path.join(s, "frames-%d.json" % i)
            outs.append(o)
            return ["-in", out, "-sizes", sz, "-out", o, "-shard", str(i), "-nshard", str(k), "-seed", str(seed), "-sweep",
                    "-reps", "1" if tier == "quick" else "3"]
        res = vlib.run_shards("frames", args)
        cases = frames = 0
        findings = []
        samples = []
        for (rc, o, e), f in zip(res, outs):
            if rc != 0 or not os.path.exists(f):
                # a crash of the driver process is a crash of the in-process server
                if "panic" in (e or ""):
                    p = vlib.save_replay(prop, {"stderr": e[-3000:]}, "crash")
                    verdict.violation(p, "the receiver crashed the process: " + e.strip().splitlines()[0][:200])
                    continue
                raise Inconclusive("frames driver failed: " + (e or o)[-1500:])
            d = json.load(open(f))
            cases += d["cases"]
            frames += d["frames"]
            findings += d.get("findings") or []
            samples += (d.get("samples") or [])[:1]
        for f in findings[:5]:
            p = vlib.save_replay(prop, {"finding": f, "seed": seed}, "frames")
            verdict.violation(p, f)
    cov = {"states": r.get("distinct", 0), "transitions": r.get("generated", 0),
           "traces_validated_against_impl": cases - len(findings), "samples": samples[:2] or [{"note": "none"}],
           "evaluations": cases, "distinct_nontrivial": cases, "rule": RULE, "frames_sent": frames, "exhaustive": True,
           "checker_cmd": "tlc MC_Frames.tla + harness/cmd/frames"}
    vlib.write_evidence(prop, tier, seed, "model_checking", cov, [
        "'any byte stream whatsoever never panics' is sampled through the structured frame kinds with seeded concretisation; it is not decided exhaustively (DESIGN.md section 9)",
        "peak buffering is observed through bytes consumed from the transport after a fatal size field, not through allocation profiling",
    ], time.time() - t0, len(verdict.violations))
    return verdict.finish()


def replay(path):
    print(open(path).read())
    return 2
