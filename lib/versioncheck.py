"""C12 / C13: spec/Version.tla evaluated by TLC over its grids (tables checked by ASSUMEs, vectors written out);
harness/cmd/sizes replays every vector against the real server / client."""
import json
import os
import time

from . import vlib
from .vlib import Inconclusive

ALL_DEV = ["R4"]


def vectors(s, fixed):
    env = {"VEC_VERSION": os.path.join(s, "vv.ndjson"), "VEC_CLIENT": os.path.join(s, "vc.ndjson"), "VEC_SIZE": os.path.join(s, "vs.ndjson"),
           "VEC_DIRFIT": os.path.join(s, "vd.ndjson")}
    cfg = "CONSTANTS Fixed = {%s}\n" % ", ".join('"%s"' % f for f in fixed)
    r = vlib.run_tlc(s, "MC_Version", cfg, workers=1, env=env, name="vectors", timeout=600)
    for f in env.values():
        if not os.path.exists(f):
            raise Inconclusive("TLC wrote no vectors to " + f)
    return env, r


def replay(s, mode, path):
    outs = []

    def args(i, n):
        o = os.path.join(s, "sizes-%s-%d.json" % (mode, i))
        outs.append(o)
        return ["-mode", mode, "-in", path, "-shard", str(i), "-nshard", str(n), "-out", o]
    res = vlib.run_shards("sizes", args, nshard=8)
    tot = {"cases": 0, "findings": [], "samples": []}
    for (rc, o, e), f in zip(res, outs):
        if rc != 0 or not os.path.exists(f):
            raise Inconclusive("sizes driver failed: " + (e or o)[-1500:])
        d = json.load(open(f))
        tot["cases"] += d["cases"]
        tot["findings"] += d.get("findings") or []
        tot["samples"] += (d.get("samples") or [])[:1]
    return tot


def run(prop, tier, seed, modes, rule, level_text):
    t0 = time.time()
    verdict = vlib.Verdict(prop)
    vlib.ensure_setup()
    vlib.build_harness()
    fixed = [f for f in vlib.fixed_ids() if f in ALL_DEV]
    with vlib.Scratch(prop) as s:
        # the ideal tables must pass their own ASSUMEs, and so must the ones used for generation
        vectors(s + "/ideal", ALL_DEV) if os.makedirs(s + "/ideal", exist_ok=True) is None else None
        env, r = vectors(s, fixed)
        key = {"version": "VEC_VERSION", "client": "VEC_CLIENT", "size": "VEC_SIZE", "dirfit": "VEC_DIRFIT"}
        totals = {}
        for m in modes:
            t = replay(s, m, env[key[m]])
            if m == "dirfit":
                # the sweep serves two properties; each reports its own findings
                t["findings"] = [f[5:] for f in t["findings"] if f.startswith(prop + ": ")]
            totals[m] = t
            for f in t["findings"][:5]:
                p = vlib.save_replay(prop, {"mode": m, "finding": f}, "vector")
                verdict.violation(p, f)
    ncases = sum(t["cases"] for t in totals.values())
    nbad = sum(len(t["findings"]) for t in totals.values())
    cov = {"states": ncases, "transitions": ncases, "traces_validated_against_impl": ncases - nbad,
           "samples": sum((t["samples"][:2] for t in totals.values()), []) or [{"note": "none"}],
           "evaluations": ncases, "distinct_nontrivial": ncases, "rule": rule,
           "vectors_per_mode": {m: t["cases"] for m, t in totals.items()}, "exhaustive": True,
           "explanation": level_text,
           "checker_cmd": "tlc MC_Version.tla (ASSUMEs over the grids + vector dump) + harness/cmd/sizes"}
    vlib.write_evidence(prop, tier, seed, "model_checking", cov, [
        "the specification here is a table/arithmetic transcription evaluated by TLC over a finite grid (no interleavings): 'states' counts grid cases",
        "version strings are token structures whose meaning is stated in Version.tla's ExtMeaning table",
    ], time.time() - t0, len(verdict.violations))
    return verdict.finish()
