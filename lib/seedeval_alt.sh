#!/bin/bash
# usage: seedeval_alt.sh <seed-name> <worktree> <check>...   like seedeval.sh, but the checks run against a private
# clone of /repo (VERIF_REPO), so that /repo itself is never touched and other checks can run meanwhile
set -u
name=$1; wt=$2; shift 2
export GOFLAGS=-mod=mod GOPROXY=off GOSUMDB=off GOTOOLCHAIN=local
out=/verif/seeded/$name; mkdir -p $out
cd $wt || exit 2
git diff > $out/patch.diff
demo=$(git status --short | grep zz_seeded_demo_test.go | awk '{print $2}')
cp $demo $out/ 2>/dev/null; cp SEEDED.md $out/ 2>/dev/null
pkg=./$(dirname $demo)
echo "== build"; go build ./... && go vet ./p9/ >/dev/null 2>&1; echo "build rc=$?"
echo "== existing tests with change (demo moved aside)"
mv $demo /tmp/zz_demo_$name.aside
go test -count=1 ./p9/... ./vecnet/... ./linux/... ./fsimpl/composefs/... ./fsimpl/localfs/... ./fsimpl/qids/... ./fsimpl/staticfs/... ./fsimpl/readdir/... ./fsimpl/templatefs/... 2>&1 | grep -v "no test files" | grep -v "^ok" | tail -8
mv /tmp/zz_demo_$name.aside $demo
echo "== demo with change (must FAIL)"; go test -count=1 -run 'Seeded' $pkg 2>&1 | tail -2
git diff > /tmp/seed_$name.patch; git checkout -- . 
echo "== demo without change (must PASS)"; go test -count=1 -run 'Seeded' $pkg 2>&1 | tail -1
git apply /tmp/seed_$name.patch
alt=/tmp/altrepo-$name
rm -rf $alt; git clone -q /repo $alt && git -C $alt apply $out/patch.diff || { echo "patch does not apply"; exit 2; }
cd /verif
for c in "$@"; do
  VERIF_REPO=$alt ./check $c --tier quick > /tmp/seed-$name-$c.out 2>/tmp/seed-$name-$c.err; rc=$?
  echo "check $c rc=$rc: $(grep -c '^VIOLATION' /tmp/seed-$name-$c.out) violation lines; $(grep -v KNOWN /tmp/seed-$name-$c.err | head -1 | cut -c1-400)"
done
rm -rf $alt
