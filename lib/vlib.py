"""Shared machinery of ./check: environment, scratch space, TLC runner, Go
builds, sharded drivers, evidence and known-findings handling."""
import hashlib
import json
import os
import re
import shutil
import subprocess
import sys
import time

ROOT = os.path.dirname(os.path.dirname(os.path.abspath(__file__)))
REPO = os.environ.get("VERIF_REPO", "/repo")
WORK = os.path.join(ROOT, ".work")
BIN = os.path.join(WORK, "bin")
SPEC = os.path.join(ROOT, "spec")
HARNESS = os.path.join(ROOT, "harness")
EVID = os.path.join(ROOT, "evidence")
REPLAYS = os.path.join(EVID, "replays")
LAYOUT = os.path.join(WORK, "layout.json")
NPROC = min(16, os.cpu_count() or 4)
# Development aid: VERIF_REPO=<copy of the repository> runs a check against that copy (own binaries,
# own evidence directory under .work), so that seeded changes can be evaluated while other checks
# run against /repo.  The registered commands never set it.
ALT = REPO != "/repo"
if ALT:
    _h = hashlib.sha1(REPO.encode()).hexdigest()[:8]
    BIN = os.path.join(WORK, "bin-alt-" + _h)
    EVID = os.path.join(WORK, "evid-alt-" + _h)
    REPLAYS = os.path.join(EVID, "replays")


class Inconclusive(Exception):
    """The check could not reach a verdict (exit 2)."""


def goenv():
    e = dict(os.environ)
    e.update(GOFLAGS="-mod=mod", GOPROXY="off", GOSUMDB="off", GOTOOLCHAIN="local",
             VERIF_LAYOUT=LAYOUT)
    e.setdefault("GOCACHE", os.path.join(WORK, "gocache"))
    return e


def log(*a):
    print(*a, file=sys.stderr, flush=True)


class Scratch:
    """A private scratch directory under .work, removed on exit."""

    def __init__(self, name):
        self.path = os.path.join(WORK, "%s-%d" % (name, os.getpid()))

    def __enter__(self):
        shutil.rmtree(self.path, ignore_errors=True)
        os.makedirs(self.path)
        return self.path

    def __exit__(self, *a):
        if not os.environ.get("VERIF_KEEP"):
            shutil.rmtree(self.path, ignore_errors=True)


def build_harness(race=False, tags="verif"):
    """(Re)build every driver from /repo's working tree."""
    os.makedirs(BIN, exist_ok=True)
    out = BIN + ("-race" if race else "")
    os.makedirs(out, exist_ok=True)
    modfile = []
    if ALT:
        mf = os.path.join(BIN, "go.alt.mod")
        open(mf, "w").write(open(os.path.join(HARNESS, "go.mod")).read().replace("=> /repo", "=> " + REPO))
        shutil.copyfile(os.path.join(REPO, "go.sum"), os.path.join(BIN, "go.alt.sum"))
        modfile = ["-modfile=" + mf]
    else:
        shutil.copyfile(os.path.join(REPO, "go.sum"), os.path.join(HARNESS, "go.sum"))
    cmd = ["go", "build"] + modfile + ["-tags", tags] + (["-race"] if race else []) + ["-o", out + "/", "./cmd/..."]
    p = subprocess.run(cmd, cwd=HARNESS, env=goenv(), capture_output=True, text=True)
    if p.returncode != 0 and tags:
        # A hook may have stopped compiling after a refactoring of the repository:
        # fall back to the hook-free build (checks that need a hook say so themselves).
        first = p.stdout + p.stderr
        cmd = ["go", "build"] + modfile + (["-race"] if race else []) + ["-o", out + "/", "./cmd/..."]
        p = subprocess.run(cmd, cwd=HARNESS, env=goenv(), capture_output=True, text=True)
        if p.returncode == 0:
            log("NOTE: building with -tags %s failed, continuing without hooks:\n%s" % (tags, first[-600:]))
    if p.returncode != 0:
        raise Inconclusive("go build failed (the repository or the harness does not compile):\n" + p.stdout + p.stderr)
    return out


TLC_JAR = "/opt/veriftools/tla/tla2tools.jar:/opt/veriftools/tla/CommunityModules-deps.jar"


def run_tlc(scratch, module, cfg_text, workers=None, env=None, timeout=600, extra=None, name=None, heap=None, extra_files=None):
    """Run TLC on spec/<module>.tla with the given configuration text in a
    private copy.  Returns a dict with the parsed summary.  Raises
    Inconclusive on timeouts and tool errors; an invariant violation *of the
    specification* is returned as res['violated']."""
    name = name or module
    d = os.path.join(scratch, "tlc-" + name)
    os.makedirs(d, exist_ok=True)
    for f in os.listdir(SPEC):
        if f.endswith(".tla"):
            shutil.copyfile(os.path.join(SPEC, f), os.path.join(d, f))
    for fn, text in (extra_files or {}).items():
        with open(os.path.join(d, fn), "w") as f:
            f.write(text)
    with open(os.path.join(d, name + ".cfg"), "w") as f:
        f.write(cfg_text)
    w = str(workers or NPROC)
    cmd = ["java", "-XX:+UseParallelGC", "-Xss64m"]
    if heap:
        cmd.append("-Xmx" + heap)
    cmd += ["-cp", TLC_JAR, "tlc2.TLC", "-workers", w, "-metadir", os.path.join(d, "md"),
            "-config", name + ".cfg"] + (extra or []) + [module + ".tla"]
    e = dict(os.environ)
    e.update(env or {})
    t0 = time.time()
    try:
        p = subprocess.run(cmd, cwd=d, env=e, capture_output=True, text=True, timeout=timeout)
    except subprocess.TimeoutExpired:
        subprocess.run(["pkill", "-f", d], capture_output=True)
        raise Inconclusive("TLC timed out after %ds on %s" % (timeout, name))
    out = p.stdout + p.stderr
    res = {"output": out, "wall_s": time.time() - t0, "rc": p.returncode, "name": name}
    m = re.search(r"(\d+) states generated, (\d+) distinct states found", out)
    if m:
        res["generated"] = int(m.group(1))
        res["distinct"] = int(m.group(2))
    m = re.search(r"The depth of the complete state graph search is (\d+)", out)
    if m:
        res["depth"] = int(m.group(1))
    m = re.search(r"Invariant (\w+) is violated", out)
    if m:
        res["violated"] = m.group(1)
    m = re.search(r"Action property (\w+) is violated", out)
    if m:
        res["violated"] = m.group(1)
    if "Temporal properties were violated" in out:
        res["violated"] = res.get("violated", "temporal property")
    if "Deadlock reached" in out:
        res["violated"] = "Deadlock"
    ok = "Model checking completed. No error has been found." in out or "violated" in res \
        or "The number of states generated" in out or "Finished in" in out
    if not ok or ("Error:" in out and "violated" not in res and "Deadlock" not in out):
        tail = "\n".join(out.splitlines()[-40:])
        raise Inconclusive("TLC failed on %s (rc=%d):\n%s" % (name, p.returncode, tail))
    return res


def export_layout():
    """Export the Wire.tla layout table as JSON for harness/wirecodec."""
    with Scratch("layout") as s:
        tmp = os.path.join(s, "layout.json")
        run_tlc(s, "MC_WireExport", "", workers=1, env={"OUT": tmp}, timeout=120)
        if not os.path.exists(tmp):
            raise Inconclusive("layout export produced nothing")
        os.makedirs(WORK, exist_ok=True)
        shutil.copyfile(tmp, LAYOUT)


def ensure_setup():
    if not os.path.exists(LAYOUT):
        export_layout()


def run_shards(binary, args_for_shard, nshard=None, timeout=1800, bindir=None, env=None):
    """Run `nshard` copies of a driver in parallel; args_for_shard(i, n) gives
    the argument list.  Returns the list of (rc, stdout, stderr)."""
    nshard = nshard or NPROC
    procs = []
    e = goenv()
    e.update(env or {})
    for i in range(nshard):
        cmd = [os.path.join(bindir or BIN, binary)] + args_for_shard(i, nshard)
        procs.append(subprocess.Popen(cmd, env=e, stdout=subprocess.PIPE, stderr=subprocess.PIPE, text=True))
    res = []
    deadline = time.time() + timeout
    for p in procs:
        try:
            o, er = p.communicate(timeout=max(1, deadline - time.time()))
        except subprocess.TimeoutExpired:
            for q in procs:
                q.kill()
            raise Inconclusive("driver %s timed out" % binary)
        res.append((p.returncode, o, er))
    return res


def library_panic(stderr):
    """A driver that died of a Go panic: if the panicking goroutine's first frame outside the Go runtime is a
    function of the library under test, that is the library's behaviour on the driver's (well-formed) input and
    the description is returned; otherwise (a harness fault, or no panic) None - the caller reports inconclusive."""
    m = re.search(r"^panic: (.*)$", stderr or "", re.M)
    if not m:
        return None
    g = re.search(r"^goroutine \d+ \[running\]:\n((?:.+\n?)+)", stderr[m.end():], re.M)
    if not g:
        return None
    for fn in re.findall(r"^(\S[^\n]*)\n\s+\S+:\d+", g.group(1), re.M):
        if fn.startswith("runtime.") or fn.startswith("panic(") or fn.startswith("runtime/"):
            continue
        if fn.startswith("github.com/hugelgupf/p9/"):
            return "the library panicked: %s in %s" % (m.group(1), fn.split("(")[0])
        return None
    return None


def load_findings():
    p = os.path.join(ROOT, "known_findings.json")
    if not os.path.exists(p):
        return []
    return json.load(open(p)).get("findings", [])


def open_findings(prop):
    return [f for f in load_findings() if f.get("status") == "open" and f.get("property") == prop]


def fixed_ids():
    return sorted(f["id"] for f in load_findings() if f.get("status") == "fixed")


def save_replay(prop, obj, tag="cex"):
    os.makedirs(REPLAYS, exist_ok=True)
    b = json.dumps(obj, indent=1, sort_keys=True, default=str)
    h = hashlib.sha1(b.encode()).hexdigest()[:10]
    p = os.path.join(REPLAYS, "%s-%s-%s.json" % (prop, tag, h))
    with open(p, "w") as f:
        f.write(b)
    return p


def write_evidence(prop, tier, seed, level, coverage, assumptions, wall_s, violations):
    os.makedirs(EVID, exist_ok=True)
    ev = {"property_id": prop, "tier": tier, "seed": int(seed), "level": level,
          "coverage": coverage, "assumptions": assumptions, "wall_s": round(wall_s, 2),
          "violations": int(violations)}
    tmp = os.path.join(EVID, ".%s.json.tmp" % prop)
    with open(tmp, "w") as f:
        json.dump(ev, f, indent=1, default=str)
    os.replace(tmp, os.path.join(EVID, prop + ".json"))
    return ev


class Verdict:
    """Collects violations / known findings of one check run."""

    def __init__(self, prop):
        self.prop = prop
        self.violations = []   # (replay path, text)
        self.known = []        # text
        self.notes = []

    def violation(self, replay, text):
        self.violations.append((replay, text))

    def known_finding(self, text):
        if text not in self.known:
            self.known.append(text)

    def finish(self):
        for k in self.known:
            print("KNOWN-FINDING: property=%s %s" % (self.prop, k))
        for r, t in self.violations:
            print("VIOLATION property=%s replay=%s" % (self.prop, r))
            log("  " + t)
        sys.stdout.flush()
        return 1 if self.violations else 0
