"""Folds the small-step state graph TLC explored (edges dumped by an
ACTION_CONSTRAINT as {f, a, t, o}) into quiescent big steps: the harness
applies one stimulus, waits until the implementation is quiescent, and records
what is observable; a recorded observation sequence is accepted iff it is a
path of the big-step graph (NFA acceptance)."""
import json
import random
from collections import defaultdict


class Graph:
    def __init__(self, path, stimuli, canon=None):
        if canon:
            self.canon = canon
        self.stim = set(stimuli)
        self.int_succ = defaultdict(set)
        self.stim_succ = defaultdict(lambda: defaultdict(set))   # s -> (a, r) -> {t}
        self.obs = {}
        targets = set()
        sources = set()
        self.nedges = 0
        first = None
        with open(path) as f:
            for line in f:
                line = line.strip()
                if not line:
                    continue
                e = json.loads(line)
                if isinstance(e, str):
                    e = json.loads(e)
                self.nedges += 1
                s, t, a = e["f"], e["t"], e["a"]
                if isinstance(s, list):
                    s, t = tuple(s), tuple(t)      # (fingerprint, salted fingerprint): 64 bits of state identity
                if first is None:
                    first = s
                sources.add(s)
                targets.add(t)
                self.obs[t] = self.canon(e["o"])
                if a["a"] in self.stim:
                    self.stim_succ[s][(a["a"], a["r"])].add(t)
                elif s != t:
                    self.int_succ[s].add(t)
        init = sources - targets
        if len(init) == 1:
            self.init = next(iter(init))
        elif first is not None:
            # the initial state is reachable again (a stimulus that undoes another): with one worker
            # TLC's breadth-first search expands the initial state first, so it is the first source
            self.init = first
        else:
            raise ValueError("cannot identify the initial state (%d candidates)" % len(init))
        self.states = sources | targets
        self._q = {}

    @staticmethod
    def canon(o):
        return (tuple(sorted(o.get("replies") or [])), tuple(sorted(o.get("gated") or [])), bool(o.get("exited", False)))

    def quiescent(self, s):
        """Quiescent states reachable from s by internal steps only."""
        if s in self._q:
            return self._q[s]
        seen, stack, res = {s}, [s], set()
        while stack:
            x = stack.pop()
            nx = self.int_succ.get(x)
            if not nx:
                res.add(x)
                continue
            for y in nx:
                if y not in seen:
                    seen.add(y)
                    stack.append(y)
        self._q[s] = frozenset(res)
        return self._q[s]

    def start(self):
        return self.quiescent(self.init)

    def step(self, cur, stim):
        """cur: set of quiescent states; stim: (name, r)."""
        nxt = set()
        for s in cur:
            for t in self.stim_succ.get(s, {}).get(stim, ()):
                nxt |= self.quiescent(t)
        return frozenset(nxt)

    def enabled(self, cur):
        en = set()
        for s in cur:
            en |= set(self.stim_succ.get(s, {}).keys())
        return en

    def scripts(self, maxlen, limit=None, seed=1):
        """All stimulus sequences (up to maxlen) of the big-step graph that end
        in a state with no stimulus left or at maxlen; optionally sampled."""
        out = []

        def rec(cur, path):
            en = sorted(self.enabled(cur))
            if not en or len(path) >= maxlen:
                if path:
                    out.append(list(path))
                return
            for st in en:
                nx = self.step(cur, st)
                if not nx:
                    continue
                path.append(st)
                rec(nx, path)
                path.pop()
        rec(self.start(), [])
        if limit and len(out) > limit:
            random.Random(seed).shuffle(out)
            out = out[:limit]
        return out

    def accepts(self, script, observations):
        """Returns (ok, step index, allowed observations at that step)."""
        cur = self.start()
        for i, (st, ob) in enumerate(zip(script, observations)):
            nx = self.step(cur, tuple(st))
            if isinstance(ob, dict) and ob.get("unobserved"):
                # the harness applied the stimulus without observing (burst delivery): every outcome stays possible.
                # (step() folds to quiescent states, which is what a later observation is compared with; the
                # non-quiescent intermediate states are covered because the next stimulus of a burst is enabled
                # in every state of the run)
                cur = nx
                if not cur:
                    return False, i, []
                continue
            allowed = {self.obs.get(s) for s in nx}
            got = self.canon(ob)
            cur = frozenset(s for s in nx if self.obs.get(s) == got)
            if not cur:
                return False, i, sorted(allowed, key=str)
        return True, -1, None
