#!/usr/bin/env python3
"""Regenerates MANIFEST.json from the table below (python3 lib/manifest_gen.py)."""
import json
import os
import subprocess

ROOT = os.path.dirname(os.path.dirname(os.path.abspath(__file__)))

SESSION_NOTE = ("Trusted base: TLC; the transcription of handlers.go/server.go/path_tree.go in spec/Session.tla "
                "(itself validated by the replay: every generated edge is executed against the real server); "
                "the scripted puppet backend and the layout-table codec of the harness. Bounded: constants are "
                "listed per TLC run in the evidence; sequential histories on in-memory transports.")

CHECKS = {
    "C04": dict(
        engine="session",
        category="model_checking",
        text=("TLC checks the session-model clauses (EBADF for unbound fids, clunk/remove always unbind, bind only on "
              "success, open-mode and opened-directory rules, no auth) as invariants/action properties of Session.tla, "
              "exhaustively for 2 fids x 2 names over all 32 request kinds; every explored (state, request) edge is then "
              "replayed in lock step against the real p9.Server (reply type/errno, backend calls, and state probes after "
              "the edge). History-quantified property, so bounded-exhaustive model checking plus edge-complete "
              "conformance is the right level."),
        ref="DESIGN.md section 5 C04, section 3.4, section 4 B1",
        technique="TLC model checking of Session.tla + lock-step replay of every explored edge against p9.Server"),
    "C05": dict(
        engine="session",
        category="model_checking",
        text=("TLC checks reference conservation, closed-at-most-once, closed-iff-unreferenced, no-use-after-close and "
              "all-closed-after-disconnect on Session.tla (DecRef chains, fid replacement, create rebinding, xattr fids, "
              "rename/unlink of referenced entries, EIO at every backend call index, two connections); every edge is "
              "replayed against p9.Server with a counting backend, and for every history the byte stream is additionally "
              "cut inside the last frame (crash points), after which Handle must return, no goroutine may remain and every "
              "File must have been closed exactly once."),
        ref="DESIGN.md section 5 C05",
        technique="TLC model checking of Session.tla (incl. clone probes) and of Lifetime.tla (reference counting under schedules, deadlock check) + replay with counting puppet backend + stream cuts + gated-schedule conformance (lifesched)"),
    "C08": dict(
        engine="session",
        category="model_checking",
        text=("TLC checks PathCoherence (the path the backend believes for every live unfenced handle resolves to the object "
              "it was bound to), tree consistency and fencing on Session.tla over rename/renameat/unlinkat/remove/create/"
              "walk/clone sequences with 3 fids on a depth-3 tree; replay compares the Renamed callbacks (as a set), the "
              "believed path of every handle after each step, the names used by Trename/Tremove, and the replies/absence "
              "of backend calls through fenced fids; long simulated histories add depth."),
        ref="DESIGN.md section 5 C08",
        technique="TLC model checking of Session.tla (path-string world model) + replay of edges and simulated histories"),
    "C09": dict(
        engine="session",
        category="model_checking",
        text=("TLC checks that no unsafe name reaches a backend call and that multi-component walks advance one component "
              "at a time through directories only, with the unsafe names offered in every name position of every "
              "name-bearing request and 13 attach-name shapes; replay records every name argument and Walk receiver kind "
              "at the backend (a model-independent monitor) and compares replies."),
        ref="DESIGN.md section 5 C09",
        technique="TLC model checking of Session.tla + replay with name-recording backend"),
    "C15": dict(
        engine="session",
        category="model_checking",
        text=("TLC explores Session.tla with an EIO or a panic injected at every backend call index (incl. walks, rename "
              "callbacks, Close) and checks EFAULT-for-panic, obtained-files-closed, table-unchanged-after-error; every "
              "edge is replayed with the fault scripted at the same call, followed by state probes and further requests; "
              "a request that is never answered afterwards (leaked lock) is a violation."),
        ref="DESIGN.md section 5 C15",
        technique="TLC model checking of Session.tla with fault budget + fault-scripted replay against p9.Server"),
}

CONN_NOTE = ("Trusted base: TLC; the transcription of handleRequest/StartTag/ClearTag/WaitTag/send in spec/ConnLoop.tla; "
             "lib/bigstep.py (folds TLC's explored graph into quiescent steps); quiescence judged by an idle window and "
             "confirmed once with a longer one. Bounded: 3 requests per configuration.")

CHECKS["C06"] = dict(
    engine="connloop", category="model_checking", note=CONN_NOTE,
    text=("TLC checks on ConnLoop.tla, for all interleavings of the handler goroutines of one connection, that each accepted "
          "request gets at most one reply written as one contiguous frame, that nothing unsolicited is sent, that a receiver "
          "exists whenever the connection is up (a blocked handler never stops intake) and - as liveness under weak fairness - "
          "that every request whose backend call is released is eventually answered, incl. duplicate tags, tag re-use right "
          "after the reply, undecodable frames and self/idle flushes. Every stimulus script of the bounded configurations is "
          "run against the real server with gated backend calls and its observations must be a path of TLC's graph; batches "
          "of 64 concurrent replies check contiguity under the real scheduler."),
    ref="DESIGN.md section 5 C06, section 3.6",
    technique="TLC model checking of ConnLoop.tla (safety + liveness) + big-step conformance of gated schedules (incl. Close held, read/write-class mixes) + concurrent batches")
CHECKS["C14"] = dict(
    engine="connloop", category="model_checking", note=CONN_NOTE,
    text=("TLC checks FlushAfterStop on ConnLoop.tla (an Rflush is on the wire only when every request that was executing "
          "when the flush was handled has left the backend), immediate answers for idle/answered/own tags and that flushes "
          "never suppress or duplicate replies (AtMostOneReply + EventuallyAnswered), for single, chained, repeated flushes; "
          "all orders of {request blocked in backend, flush arrival(s), release, hang-up} are replayed with the backend call "
          "of the flushed read/write/walk/mkdir/rename held at a gate."),
    ref="DESIGN.md section 5 C14, section 3.6",
    technique="TLC model checking of ConnLoop.tla + big-step conformance of flush schedules with gated backend calls")

CHECKS["C07"] = dict(
    engine="pathlocks", category="model_checking",
    note=("Trusted base: TLC; the lock plans of spec/PathLocks.tla (validated cell by cell against the server: predicted and "
          "observed overlap/blocking agree); the class table of spec/Trace_Overlap.tla; goroutine ids to attribute calls to "
          "requests. Non-overlap is a timeout observation and only confirms predictions. Open findings R11/R18 are matched by "
          "request kind and call kind, any other conflicting overlap is a violation."),
    text=("TLC checks on PathLocks.tla (RWMutexes with writer preference, 2-3 concurrent handlers, all lock plans of the "
          "handlers) that simultaneous backend calls respect the File contract (named deviations R11/R18 aside), that no "
          "handler gets stuck, and derives the ordered may-overlap matrix. Every cell (request A held at one of its backend "
          "calls x request B, same/other connection) is forced to rendezvous in the real server; TLC then validates the "
          "recorded enter/exit log against Trace_Overlap.tla: any pair inside the backend at once that the contract forbids "
          "is a violation. Schedule-quantified, so forced rendezvous + model checking is the right level."),
    ref="DESIGN.md section 5 C07, section 3.7, section 4 B3/B4",
    technique="TLC model checking of PathLocks.tla and NodeFor.tla + forced pairwise rendezvous (incl. same-fid and racy-setup cells) + TLC trace validation (Trace_Overlap.tla)")

CHECKS["C16"] = dict(
    engine="concurrency", category="model_checking",
    note=("Trusted base: TLC; PathLocks.tla / ConnLoop.tla as validated by C07/C06; the Go race detector (thorough tier) "
          "for the memory-model clause, which TLA+ does not decide; watchdog of 10 s per request for progress on the real scheduler."),
    text=("TLC checks that the lock protocol cannot get stuck (PathLocks.tla: termination under fairness for 2 looping "
          "handlers, TLC deadlock check for 3 one-shot handlers over all plan/node combinations, Go RWMutex semantics incl. "
          "writer preference and reader admission) and the liveness of the connection loop (ConnLoop.tla). On the code: seeded "
          "random concurrent workloads (2..64 clients, 1..8 connections, with/without cross-directory renames, delays in backend "
          "calls and inside reply frames) in which every request must be answered, succeed and carry its own data, with the "
          "backend log validated by TLC; isolation: Session.tla histories replayed concurrently as independent clients on one "
          "server, each compared with its own history; thorough: the same under the race detector."),
    ref="DESIGN.md section 5 C16",
    technique="TLC model checking (PathLocks/ConnLoop progress, Lifetime.tla deadlock check) + concurrent model-history replay + random workloads with TLC-validated logs + gated-schedule conformance (lifesched) + race detector")

CHECKS["C10"] = dict(
    engine="client", category="model_checking",
    note=("Trusted base: TLC; the transcription of sendRecv/waitAndRecv/handleOne/pool.go in spec/Client.tla; lib/bigstep.py; "
          "quiescence judged by an idle window and confirmed once. Tag values are not compared. Open finding R15 is matched "
          "only in scripts that contain an unacceptable frame."),
    text=("TLC checks on Client.tla (2-3 concurrent callers, LIFO tag pool, recycled response objects with 1-slot channels, the "
          "receive token, all reply orders, unknown-tag / wrong-type / undecodable / truncated / garbage frames, close, failing "
          "and blocking writes) that outstanding tags are distinct, that a successful call carries the reply to its own request "
          "and that no reachable quiescent state leaves a caller blocked that should have returned. Every stimulus script of "
          "the bounded configurations is executed against the real p9.Client with a scripted server and its observations "
          "(per caller: blocked / error / success with WHICH reply) must be a path of TLC's graph."),
    ref="DESIGN.md section 5 C10, section 3.8",
    technique="TLC model checking of Client.tla and FidPool.tla + big-step conformance of scripted-server schedules and replay of all fid-allocation histories against p9.Client")

VEC_NOTE = ("Trusted base: TLC as evaluator of the tables of spec/Version.tla (their ASSUMEs: canonical spelling parses back, "
            "replies within 4 MiB, size arithmetic) and the meaning table of the version tokens; the layout-table codec. "
            "No interleavings are involved: the specification is a transcription of functions and TLC enumerates its grid.")
CHECKS["C12"] = dict(
    engine="version", category="model_checking", note=VEC_NOTE,
    text=("Version.tla states the negotiation as tables over token-structured version strings and msize classes; TLC checks "
          "the tables' own properties and enumerates the whole grid (2430 Tversion vectors, 462 client scenarios incl. EAGAIN "
          "retries and lowered msize/version); every vector is replayed against p9.Server / p9.NewClient and the client's "
          "subsequent message types and sizes are compared with what it must have adopted. Input/configuration-quantified, "
          "finite grid, exhaustive."),
    ref="DESIGN.md section 5 C12", technique="TLC-evaluated specification tables (Version.tla) + exhaustive vector replay")
CHECKS["C13"] = dict(
    engine="version", category="model_checking", note=VEC_NOTE,
    text=("Version.tla states the size arithmetic (largest data under an msize, payload size a client derives); TLC checks the "
          "inequalities over the msize grid and enumerates 1404 (msize, count, read|readdir, re-negotiation) vectors; each is "
          "replayed against p9.Server with a backend that always has enough data: no reply frame may exceed the announced "
          "msize and the connection must stay usable; the client vectors check request/reply sizing against a lowered msize."),
    ref="DESIGN.md section 5 C13", technique="TLC-evaluated size arithmetic (Version.tla, incl. directory-fit sweep) + exhaustive vector replay")

CHECKS["C11"] = dict(
    engine="chunk", category="model_checking",
    note=("Trusted base: TLC; spec/Chunk.tla's loop transcription (checked against the independent one-operation properties "
          "Contiguous / StopAtFirstShort / Result); the scaling of abstract units to bytes in harness/cmd/chunkio."),
    text=("Chunk.tla is the chunk()/readAt/writeAt loop as a state machine whose environment chooses every request's outcome; TLC "
          "explores all behaviours for chunk sizes 1..3 and lengths 0..3*chunk+1 and checks the one-operation semantics as "
          "invariants; every finished behaviour is scaled to real payload sizes and offsets and executed through the real "
          "client, server and a scripted backend (request sequence, n, error, bytes compared). Input-quantified with a small "
          "abstract space that is exhaustive; scaled concretisation covers exact multiples, +-1 and offsets beyond 2^32."),
    ref="DESIGN.md section 5 C11", technique="TLC exhaustive exploration of Chunk.tla + scaled replay through client/server/backend")

TR_NOTE = ("Trusted base: TLC as evaluator of the tables (ClientFile.tla checked against Wire.tla: a version only uses message "
           "types it defines); the layout table of Wire.tla, written from the protocol descriptions and not from messages.go; the "
           "reference codec interpreting it; per-method glue in harness/cmd/transp that maps arguments to fields.")
CHECKS["C03"] = dict(
    engine="transp", category="model_checking", note=TR_NOTE,
    text=("ClientFile.tla states, per File method and negotiated version, the T-message(s), the backend operation and the "
          "documented rewriting, and ExtractErrno as a table over error shapes; TLC checks it against Wire.tla and enumerates the "
          "scenario grid (about 2000: methods x versions x boundary arguments x results x error shapes); every scenario runs "
          "p9.Client <-> recording proxy <-> p9.Server <-> recording backend and backend call, File identity, arguments, return "
          "values, errno and message family are compared. Input/configuration-quantified; the grid is finite and run exhaustively."),
    ref="DESIGN.md section 5 C03", technique="TLC-checked specification tables (ClientFile.tla) + exhaustive end-to-end scenario replay")
CHECKS["C01"] = dict(
    engine="transp", category="exploration", note=TR_NOTE,
    text=("Wire.tla is an independent statement of the 65 message layouts (TLC checks its internal consistency: distinct type "
          "bytes, T/R pairing, payload last, sizes); every frame captured in the scenario grid of ClientFile.tla - all T types the "
          "client emits at versions 0..7, all R types the server emits, boundary values in every field - is decoded by a codec that "
          "only interprets that table and compared positionally with the values given/returned, incl. size field, 12-bit "
          "permissions and byte-exact re-encoding. Encode/decode fidelity over all values is outside what TLA+ decides; the "
          "level is exploration over a boundary grid against an independent oracle."),
    ref="DESIGN.md section 5 C01, section 9", technique="independent TLA+ layout table + reference codec; boundary-grid differential check of captured frames")

CHECKS["C02"] = dict(
    engine="frames", category="model_checking",
    note=("Trusted base: TLC; the decision table of spec/Frames.tla; the concretisation of frame kinds into bytes in "
          "harness/cmd/frames (seeded). The clause 'for any byte stream whatsoever ... never panics' is sampled through "
          "structured classes, not decided (memory-safety style claims are outside the family, DESIGN.md section 9)."),
    text=("Frames.tla states what the receiver does with each kind of frame (consumed bytes, reply class and tag, end of "
          "connection) and TLC checks on all streams of up to 3/4 frames that well-delimited frames consume exactly their size, "
          "are answered once (Rlerror if rejected), that later frames are still served and that nothing is read after a fatal "
          "size field; every enumerated stream is concretised and fed to Server.Handle frame by frame through a counting pipe "
          "(a receiver that waits for more input shows as a missing reply; a server panic is a finding), and the size check "
          "Accept(size, msize) is replayed against p9.Client as receiver."),
    ref="DESIGN.md section 5 C02, section 3.2",
    technique="TLC enumeration of frame streams (Frames.tla) + byte-level replay into Server.Handle / p9.Client with consumption counting + sweep of every request type x every body prefix")

CHECKS["C17"] = dict(
    engine="segments", category="model_checking",
    note=("Trusted base: TLC; the transcription of the two receive algorithms in spec/Segments.tla; the chunk reader and the "
          "socket-pair driver of harness/cmd/segments (FIONREAD polling to obtain the intended partial fills)."),
    text=("Segments.tla transcribes io.ReadAtLeast + the generic Buffers.ReadFrom loop and the recvmsg path with its iovec "
          "consumption loop at the level of byte positions; TLC checks for every delivery (cut points bounded, stream complete "
          "or ending anywhere) that both deliver exactly the frames' byte ranges or a connection error, never a partial message; "
          "every enumerated delivery is replayed into Server.Handle through an io.Reader returning exactly those chunks (both "
          "EOF conventions) and through a real AF_UNIX stream socket pair."),
    ref="DESIGN.md section 5 C17, section 3.3",
    technique="TLC exhaustive check of both receive algorithms over all bounded chunkings (Segments.tla) + replay through io.Reader and socket pair")

CHECKS["C18"] = dict(
    engine="msgcache", category="model_checking",
    note=("Trusted base: TLC (enumeration of histories; the model's decode is the ideal 'reset then append'); the unique-alphabet "
          "recognition of foreign elements in harness/cmd/msgcache."),
    text=("MsgCache.tla models the per-type cache of recycled message objects with residual content and the decode discipline; "
          "TLC enumerates all histories of 4/5 same-type messages with lengths {0,1,3} over two connections (NoCarryOver holds for "
          "the ideal decode); every history is replayed by raw peers on two connections of one server process, each request using "
          "an alphabet of its own, so that any element, string byte or payload byte from an earlier message is recognised at the "
          "backend or in the reply; lazy backend reads expose un-cleared read buffers."),
    ref="DESIGN.md section 5 C18, section 3.9",
    technique="TLC enumeration of message histories (MsgCache.tla) and of read-buffer interleavings (ReadBuf.tla) + replay with per-request alphabets on two connections, stalled-transport batches and short frames")

CHECKS["C19"] = dict(
    engine="listing", category="model_checking",
    note=("Trusted base: TLC; the paging loop and backend algorithms of spec/Readdir.tla; ground truth = the names the harness "
          "created; uniform name lengths per directory so byte counts can be computed without knowing localfs' OS order."),
    text=("Readdir.tla models the paging client loop (next offset = Offset of the last entry), whole-entry truncation to the "
          "requested byte count and the index / localfs backend algorithms; TLC checks completeness, uniqueness and termination "
          "for all directory sizes 0..6 and per-call fit sequences; every case is scaled to real directories (up to ~1500 entries, "
          "names 6..255 bytes) on localfs, staticfs, composefs and nested mounts, directly and through client+server, and each "
          "entry's QID/type is compared with Walk + GetAttr."),
    ref="DESIGN.md section 5 C19", technique="TLC model checking of the paging loop (Readdir.tla) + scaled replay on the real file systems")
CHECKS["C20"] = dict(
    engine="qid", category="model_checking",
    note=("Trusted base: TLC; Qid.tla's field-record statement of the compact encoding; the verif export of localToQid "
          "(hook); the Go race detector in the thorough tier for the memory-model side of concurrent lookups."),
    text=("Qid.tla states the compact (dev, ino) encoding and the fallback table over symbolic field magnitudes (TLC checks "
          "injectivity and disjointness on the grid), Mapper.QIDFor with the code's step granularity under 3 concurrent callers "
          "(Stable, Injective over all interleavings) and the mode round trip for all 28 672 (type, permission) values; the grid "
          "is replayed through localfs' verif export (stability, exact values, injectivity as the table grows), all modes through "
          "OSMode/ModeFromOS/QIDType, and concurrent lookups through composefs/staticfs in a child process."),
    ref="DESIGN.md section 5 C20", technique="TLC model checking of Qid.tla (mapper interleavings, tables) + grid/mode replay + concurrent stress in a child process")

ENGINES = [
    {"name": "listing", "path": "spec/Readdir.tla + harness/cmd/listing", "serves_properties": ["C19"],
     "kind_free_text": "paging loop model; scaled replay on localfs/staticfs/composefs"},
    {"name": "qid", "path": "spec/Qid.tla + harness/cmd/qidcheck + fsimpl/localfs/verif_export.go", "serves_properties": ["C20"],
     "kind_free_text": "tables and mapper interleavings; grid and mode replay"},
    {"name": "msgcache", "path": "spec/MsgCache.tla + spec/MC_MsgCache.tla + harness/cmd/msgcache", "serves_properties": ["C18"],
     "kind_free_text": "histories over recycled objects enumerated by TLC; replay with unique alphabets"},
    {"name": "segments", "path": "spec/Segments.tla + spec/MC_Segments.tla + harness/cmd/segments", "serves_properties": ["C17"],
     "kind_free_text": "two receive algorithms transcribed; all bounded chunkings checked by TLC and replayed on both real paths"},
    {"name": "frames", "path": "spec/Frames.tla + spec/MC_Frames.tla + harness/cmd/frames", "serves_properties": ["C02"],
     "kind_free_text": "receiver decision table; all short streams enumerated by TLC and replayed at byte level"},
    {"name": "transp", "path": "spec/Wire.tla + spec/ClientFile.tla + harness/wirecodec + harness/cmd/transp",
     "serves_properties": ["C01", "C03"],
     "kind_free_text": "specification tables checked by TLC; scenario grid replayed end to end with frames captured on the wire"},
    {"name": "chunk", "path": "spec/Chunk.tla + spec/MC_Chunk.tla + harness/cmd/chunkio", "serves_properties": ["C11"],
     "kind_free_text": "loop state machine explored exhaustively; behaviours replayed scaled"},
    {"name": "version", "path": "spec/Version.tla + spec/MC_Version.tla + harness/cmd/sizes",
     "serves_properties": ["C12", "C13"],
     "kind_free_text": "function/table specification evaluated by TLC over a finite grid; vectors replayed against server and client"},
    {"name": "client", "path": "spec/Client.tla + spec/MC_Client.tla + lib/bigstep.py + harness/cmd/clientsched",
     "serves_properties": ["C10"],
     "kind_free_text": "small-step TLA+ spec of the client multiplexer with a scripted server as environment; big-step conformance"},
    {"name": "concurrency", "path": "harness/cmd/workload + harness/cmd/isoreplay + spec/PathLocks.tla + spec/ConnLoop.tla + spec/Trace_Overlap.tla",
     "serves_properties": ["C16"],
     "kind_free_text": "progress model-checked on the lock/connection specs; concurrent replay of Session.tla histories; random workloads whose logs TLC validates"},
    {"name": "pathlocks", "path": "spec/PathLocks.tla + spec/Trace_Overlap.tla + harness/cmd/pairs",
     "serves_properties": ["C07"],
     "kind_free_text": "lock-plan TLA+ spec; TLC-derived may-overlap matrix; gated rendezvous experiments; TLC trace validation of enter/exit logs"},
    {"name": "connloop", "path": "spec/ConnLoop.tla + spec/MC_ConnLoop.tla + lib/bigstep.py + harness/cmd/connsched",
     "serves_properties": ["C06", "C14"],
     "kind_free_text": "small-step TLA+ spec of the connection loop; TLC's explored graph folded into quiescent big steps; "
                       "stimulus scripts executed against the real server with gated backend calls"},
    {"name": "session", "path": "spec/Session.tla + spec/MC_Session.tla + harness/cmd/sessionreplay",
     "serves_properties": ["C04", "C05", "C08", "C09", "C15"],
     "kind_free_text": "explicit TLA+ spec model-checked by TLC; TLC emits every explored edge with a witness history; "
                       "Go driver replays them against the real server with a scripted backend"},
]


def main():
    props = [json.loads(l) for l in open(os.path.join(ROOT, "properties.jsonl"))]
    commits = []
    try:
        out = subprocess.run(["git", "-C", "/repo", "log", "--format=%h %s"], capture_output=True, text=True).stdout
        commits = [l.split()[0] for l in out.splitlines() if l.split(" ", 1)[1].startswith("verif:")]
    except Exception:
        pass
    checks = []
    for p in props:
        c = CHECKS.get(p["id"])
        if not c:
            continue
        checks.append({
            "property_id": p["id"],
            "quick_cmd": "./check %s --tier quick" % p["id"],
            "thorough_cmd": "./check %s --tier thorough" % p["id"],
            "evidence_file": "evidence/%s.json" % p["id"],
            "replay_cmd_template": "./check %s --replay {path}" % p["id"],
            "engine": c["engine"],
            "level_claimed": {"category": c["category"], "text": c["text"], "design_ref": c["ref"]},
            "level_note": c.get("note", SESSION_NOTE),
            "technique": c["technique"],
        })
    na = [{"property_id": p["id"], "reason": NA.get(p["id"], "check under construction (DESIGN.md section 10); not claimed yet")}
          for p in props if p["id"] not in CHECKS]
    m = {
        "version": 1,
        "setup_cmd": "./setup.sh",
        "hooks": {"guard": "verif",
                  "enable": "go build -tags verif (harness module: replace github.com/hugelgupf/p9 => /repo)",
                  "baseline_off_cmd": "cd /repo && go test -mod=mod -json -vet=off -count=1 -timeout 25m ./...",
                  "source_commits": commits, "add_only": True},
        "engines": ENGINES,
        "checks": checks,
        "not_applicable": na,
        "notes": "Model-based verification with explicit TLA+ specifications (spec/), TLC, and Go conformance "
                 "harnesses (harness/). ./check <id> --tier quick|thorough; exit 0 held / 1 VIOLATION / 2 inconclusive. "
                 "known_findings.json lists fixed and open findings. See DESIGN.md.",
    }
    json.dump(m, open(os.path.join(ROOT, "MANIFEST.json"), "w"), indent=1)
    print("MANIFEST.json: %d checks, %d not claimed" % (len(checks), len(na)))


NA = {}

if __name__ == "__main__":
    main()
