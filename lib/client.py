"""C10: spec/Client.tla model-checked by TLC; its state graph folded into quiescent big steps; every stimulus
script of the bounded configurations executed against the real p9.Client by harness/cmd/clientsched."""
import json
import os
import time

from . import vlib, bigstep
from .vlib import Inconclusive

ALL_DEV = ["R14", "R15"]
STIM = ["Begin", "Answer", "Refuse", "badtag", "badtype", "badbody", "cut", "garbage", "Close", "FailWrites", "HoldWrites", "HoldReturns",
        "ReleaseReturns"]

INVARIANTS = ["DistinctTags", "OwnReply", "NoHang"]


def cfg(callers, twice, maxbad, holds, fixed, invariants=(), props=(), dump=False, refusals=False):
    l = ["SPECIFICATION Spec", "CONSTANTS",
         "  Callers = {%s}" % ", ".join(str(i) for i in range(1, callers + 1)),
         "  Objs = {1, 2, 3}", "  MaxBad = %d" % maxbad,
         "  Twice = {%s}" % ", ".join(str(i) for i in twice),
         "  Holds = {%s}" % ", ".join('"%s"' % h for h in (holds if isinstance(holds, (list, tuple)) else (["pre"] if holds else []))),
         "  Refusals = %s" % ("TRUE" if refusals else "FALSE"),
         "  Fixed = {%s}" % ", ".join('"%s"' % f for f in fixed), "VIEW View", "CHECK_DEADLOCK FALSE"]
    if dump:
        l.append("ACTION_CONSTRAINT EdgeDump")
    if invariants:
        l.append("INVARIANTS " + " ".join(invariants))
    if props:
        l.append("PROPERTIES " + " ".join(props))
    return "\n".join(l) + "\n"


def canon(o):
    return (tuple(o.get("callers") or []), tuple(o.get("wire") or []))


# name -> (callers, twice, maxbad, holds)
MC = {
    "3callers-1bad": (3, [], 1, False),
    "3callers-third-twice": (3, [3], 0, False),
    "2callers-hold-1bad": (2, [2], 1, True),
    "3callers-holdret": (3, [], 0, ["post"]),
    "3callers-refuse": (3, [], 0, False, True),
}
GEN = {
    "2callers-1bad": (2, [], 1, False),
    "2callers-twice-1bad": (2, [2], 1, False),
    "3callers-faults": (3, [], 0, False),
    "2callers-hold": (2, [2], 0, True),
    # a write that delivers its frame but returns late: the reply can be read before the sender resumes
    "2callers-holdret": (2, [2], 0, ["post"]),
    # every request answered or refused (Rlerror with an errno of its own), in every order
    "3callers-refuse": (3, [], 0, False, True),
    "2callers-refuse": (2, [2], 0, False, True),
}

# witness of the fixed finding R14 (TLC counterexample of NoHang with the old behaviour), as a harness script
R14_WITNESS = {"callers": 3, "script": [["Begin", 1], ["HoldWrites", 0], ["Begin", 2], ["Begin", 3], ["FailWrites", 0],
                                        ["Begin", 3], ["Close", 0]]}


def run_sched(s, inp, name, quiet="20ms", nshard=None, procs=2):
    inf = os.path.join(s, "cscripts-%s.json" % name)
    json.dump(inp, open(inf, "w"))
    outs = []

    def args(i, n):
        o = os.path.join(s, "cobs-%s-%d.json" % (name, i))
        outs.append(o)
        return ["-in", inf, "-out", o, "-shard", str(i), "-nshard", str(n), "-quiet", quiet, "-procs", str(procs)]
    res = vlib.run_shards("clientsched", args, nshard=nshard or min(vlib.NPROC, max(1, len(inp["scripts"]))))
    results = []
    for (rc, o, e), f in zip(res, outs):
        if rc != 0:
            raise Inconclusive("clientsched failed: " + (e or o)[-1500:])
        results += json.load(open(f)) or []
    return results


def wrong_reply(script, obs):
    """Model-independent monitor: a caller that returned success must carry the reply to its own request."""
    ncall = {}
    out = []
    for st, ob in zip(script, obs):
        if st[0] == "Begin":
            ncall[st[1]] = ncall.get(st[1], 0) + 1
        for k, v in enumerate(ob.get("callers") or [], start=1):
            # (1100 + id: refused with the errno the server made for request id)
            if v >= 100 and (v - 100) % 1000 != 10 * ncall.get(k, 0) + k:
                out.append("caller %d (request %d) returned the %s request %d" %
                           (k, 10 * ncall.get(k, 0) + k, "errno of the refusal of" if v >= 1100 else "reply to", (v - 100) % 1000))
    return out


def run(tier, seed):
    prop = "C10"
    t0 = time.time()
    verdict = vlib.Verdict(prop)
    vlib.ensure_setup()
    vlib.build_harness()
    fixed = [f for f in vlib.fixed_ids() if f in ALL_DEV]
    opens = {f["id"]: f for f in vlib.load_findings() if f.get("status") == "open"}
    states = trans = 0
    runs = []
    nscripts = accepted = 0
    samples = []
    known = set()
    limit = 200 if tier == "quick" else None
    with vlib.Scratch(prop) as s:
        mcs = ["3callers-1bad"] if tier == "quick" else list(MC)
        for name in mcs:
            c = MC[name]
            r = vlib.run_tlc(s, "MC_Client", cfg(*c[:4], fixed=ALL_DEV, invariants=INVARIANTS, refusals=len(c) > 4 and c[4]),
                             name="mc-" + name, timeout=3000)
            if "violated" in r:
                raise Inconclusive("Client.tla itself violates %s in %s" % (r["violated"], name))
            states += r.get("distinct", 0)
            trans += r.get("generated", 0)
            runs.append({"config": name, "distinct": r.get("distinct"), "generated": r.get("generated"), "wall_s": round(r["wall_s"], 1),
                         "invariants": INVARIANTS})
        gens = ["2callers-1bad", "2callers-hold", "2callers-holdret", "2callers-refuse"] if tier == "quick" else list(GEN)
        for name in gens:
            c = GEN[name]
            out = os.path.join(s, "edges-%s.ndjson" % name)
            vlib.run_tlc(s, "MC_Client", cfg(*c[:4], fixed=fixed, dump=True, refusals=len(c) > 4 and c[4]), workers=1,
                         env={"GEN_OUT": out}, name="gen-" + name, timeout=3000)
            g = bigstep.Graph(out, STIM, canon=canon)
            scripts = g.scripts(maxlen=9, limit=limit, seed=seed)
            # (configurations with refusals deliver runs of consecutive answers / refusals in one piece: the
            # replies are then read back to back, before the callers they wake have run)
            inp = {"name": name, "callers": c[0], "scripts": [[list(x) for x in sc] for sc in scripts], "burst": len(c) > 4 and bool(c[4])}
            results = run_sched(s, inp, name)
            runs.append({"config": "gen-" + name, "edges": g.nedges, "scripts": len(scripts)})
            for r_ in results:
                if len(verdict.violations) >= 5:
                    break       # enough confirmed rejections (each further one costs three long re-runs)
                sc = scripts[r_["script"]]
                nscripts += 1
                r_["obs"] = r_.get("obs") or []
                ok, at, allowed = g.accepts(sc, r_["obs"])
                bad = list(r_.get("monitor") or [])
                wr = wrong_reply(sc, r_["obs"])
                # a fid re-issued after the call that would have bound it was failed by an unacceptable frame is
                # the same continuing-after-a-protocol-error defect as a re-used tag (R15)
                hasbad = any(x[0] in ("badtag", "badtype", "badbody", "garbage") for x in sc)
                if hasbad:
                    wr += [b for b in bad if "re-issued" in b]
                    bad = [b for b in bad if "re-issued" not in b]
                if not r_["obs"]:
                    ok = True   # the monitor says why the script did not run
                if not ok:
                    bad.append("after stimulus %d %s the client showed %s; Client.tla allows only %s" %
                               (at, list(sc[at]), json.dumps(r_["obs"][at]), allowed[:6]))
                if not bad and not wr:
                    accepted += 1
                    if len(samples) < 2 and len(sc) > 4:
                        samples.append({"config": name, "script": [list(x) for x in sc], "observations": r_["obs"]})
                    continue
                if bad:
                    # confirm with longer idle windows (a busy machine must not turn into a verdict)
                    for quiet in ("120ms", "400ms", "1200ms"):
                        r2 = run_sched(s, dict(inp, scripts=[inp["scripts"][r_["script"]]]), name + "-confirm", quiet=quiet, nshard=1)[0]
                        r2["obs"] = r2.get("obs") or []
                        ok2, at2, allowed2 = g.accepts(sc, r2["obs"])
                        if ok2 and not r2.get("monitor"):
                            bad = []
                            wr = wrong_reply(sc, r2["obs"])
                            break
                if bad:
                    if len(verdict.violations) < 5:
                        p = vlib.save_replay(prop, {"config": name, "callers": c[0], "script": [list(x) for x in sc],
                                                    "observations": r_["obs"], "findings": bad}, "client")
                        verdict.violation(p, "%s: %s" % (name, bad[0]))
                    else:
                        verdict.extra = getattr(verdict, "extra", 0) + 1
                elif wr:
                    if "R15" in opens and hasbad:
                        known.add("R15")
                        accepted += 1
                    else:
                        p = vlib.save_replay(prop, {"config": name, "callers": c[0], "script": [list(x) for x in sc],
                                                    "observations": r_["obs"], "findings": wr}, "client")
                        verdict.violation(p, "%s: %s" % (name, wr[0]))
                else:
                    accepted += 1
        # regression script for the fixed finding R14 (needs writes that block and then fail)
        w = run_sched(s, {"name": "r14", "callers": 3, "scripts": [R14_WITNESS["script"]]}, "r14", quiet="60ms", nshard=1, procs=1)[0]
        nscripts += 1
        final = w["obs"][-1]["callers"] if w["obs"] else []
        if any(v == 1 for v in final):
            p = vlib.save_replay(prop, {"config": "r14-witness", "callers": 3, "script": R14_WITNESS["script"], "observations": w["obs"]}, "client")
            verdict.violation(p, "after the connection broke caller states are %s: a call never returned (two failed sends, a "
                              "recycled response object, then end of stream)" % final)
        else:
            accepted += 1
        # fid allocation against the server's view of bound fids (spec/FidPool.tla)
        depth = 5 if tier == "quick" else 6

        def fcfg(fx, inv):
            return "\n".join(["SPECIFICATION Spec", "CONSTANTS", "  MaxSteps = %d" % depth, "  MaxFids = 3",
                              "  Fixed = {%s}" % ", ".join('"%s"' % f for f in fx), "CHECK_DEADLOCK FALSE", "INVARIANTS " + inv, ""])
        r = vlib.run_tlc(s, "MC_FidPool", fcfg(["R15"], "NewFidUnbound HeldNotPooled PoolDistinct"), name="mc-fidpool", timeout=1500)
        if "violated" in r:
            raise Inconclusive("FidPool.tla itself violates " + r["violated"])
        states += r.get("distinct", 0)
        trans += r.get("generated", 0)
        runs.append({"config": "FidPool depth %d" % depth, "distinct": r.get("distinct"), "generated": r.get("generated"),
                     "invariants": ["NewFidUnbound", "HeldNotPooled", "PoolDistinct"]})
        fout = os.path.join(s, "fidpool.ndjson")
        vlib.run_tlc(s, "MC_FidPool", fcfg([f for f in fixed if f == "R15"], "Dump"), workers=1, env={"GEN_OUT": fout}, name="gen-fidpool", timeout=1500)
        fouts = []

        def fargs(i, n):
            o = os.path.join(s, "fid-%d.json" % i)
            fouts.append(o)
            return ["-in", fout, "-out", o, "-shard", str(i), "-nshard", str(n)]
        fres = vlib.run_shards("fidsched", fargs)
        fcases = fdiffs = 0
        for (rc, o, e), f in zip(fres, fouts):
            if rc != 0 or not os.path.exists(f):
                raise Inconclusive("fidsched failed: " + (e or o)[-1500:])
            d = json.load(open(f))
            fcases += d["cases"]
            fdiffs += d.get("policy_diffs", 0)
            nscripts += d["cases"]
            accepted += d["cases"] - len(d.get("findings") or [])
            if len(samples) < 3 and d.get("samples"):
                samples.append({"fidpool_history": d["samples"][0]})
            for fd in d.get("findings") or []:
                garbled_before = any(st["out"] == "garbled" for st in (fd.get("hist") or [])[:max(fd["step"], 0)])
                if fd.get("reuse") and garbled_before and "R15" in opens:
                    # predicted by the specification with the deviation: the client carries on after a frame it
                    # cannot accept and has put back the fid of the call that frame failed
                    known.add("R15")
                    accepted += 1
                    continue
                if len(verdict.violations) < 5:
                    p = vlib.save_replay(prop, {"kind": "fidpool", "history": fd.get("hist") or [], "step": fd["step"], "finding": fd["detail"]}, "fidpool")
                    verdict.violation(p, "fid / tag allocation, history %s, step %d: %s" %
                                      ([(x["op"], x["fid"], x["out"]) for x in (fd.get("hist") or [])], fd["step"], fd["detail"]))
        runs.append({"config": "gen-fidpool", "histories": fcases, "fid_numbers_differing_from_the_LIFO_pool": fdiffs})
    for k in known:
        verdict.known_finding("%s %s" % (k, opens[k].get("what", "")))
    cov = {"states": states, "transitions": trans, "traces_validated_against_impl": accepted,
           "samples": samples or [{"note": "none"}], "evaluations": nscripts, "distinct_nontrivial": nscripts,
           "rule": ("every stimulus script (start caller, answer the i-th request, unknown tag / wrong type / garbage frame, close, "
                    "failing and blocking writes) of the bounded Client.tla configurations - all reply orders and every fault "
                    "position - executed against p9.Client with a scripted server; per caller: blocked / error / success and "
                    "WHICH request's reply it carries; plus fid/tag monitors at the server side; plus every history of 5 (thorough: 6) File "
                    "operations (walk, attach, close, remove) x outcome (served, refused, write lost, reply replaced by an unacceptable "
                    "frame) of FidPool.tla against p9.Client: the fid number each request carries, and no binding request names a fid the "
                    "server still has bound"),
           "tlc_runs": runs, "exhaustive": limit is None,
           "checker_cmd": "tlc Client.tla, FidPool.tla + lib/bigstep.py + harness/cmd/clientsched, harness/cmd/fidsched"}
    vlib.write_evidence(prop, tier, seed, "model_checking", cov, [
        "quiescence judged by an idle window (20 ms; a rejected script is re-run once with 120 ms)",
        "tag values are not compared (any allocation policy that keeps outstanding tags distinct is accepted); the model uses the code's LIFO pool to find reuse hazards",
        "bounded: 2-3 callers, one or two calls each, at most one unacceptable frame",
    ], time.time() - t0, len(verdict.violations))
    return verdict.finish()


def replay(path):
    vlib.ensure_setup()
    vlib.build_harness()
    rep = json.load(open(path))
    if rep.get("kind") == "fidpool":
        with vlib.Scratch("replay") as s:
            f = os.path.join(s, "h.ndjson")
            open(f, "w").write(json.dumps({"hist": rep["history"], "reused": False}) + "\n")
            o = os.path.join(s, "o.json")
            res = vlib.run_shards("fidsched", lambda i, n: ["-in", f, "-out", o], nshard=1)
            if res[0][0] != 0:
                raise Inconclusive("fidsched failed: " + res[0][2][-800:])
            d = json.load(open(o))
            print(json.dumps(d.get("findings")))
            return 1 if d.get("findings") else 0
    with vlib.Scratch("replay") as s:
        r = run_sched(s, {"name": "replay", "callers": rep["callers"], "scripts": [rep["script"]]}, "replay", quiet="120ms", nshard=1)[0]
        print(json.dumps(r))
    return 0
