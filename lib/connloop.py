"""C06 / C14: spec/ConnLoop.tla model-checked by TLC; its explored state graph
is folded into quiescent big steps (lib/bigstep.py), every stimulus script of
the bounded configurations is executed against the real server by
harness/cmd/connsched, and the recorded observations must be a path of the
graph."""
import json
import os
import time

from . import vlib, bigstep
from .vlib import Inconclusive

ALL_DEV = ["R2"]

# name -> (requests: (tag, kind, old, op))
CONFIGS = {
    "flush-basic":   [(1, "op", 0, "read"), (2, "flush", 1, ""), (3, "op", 0, "getattr")],
    "flush-chain":   [(1, "op", 0, "write"), (2, "flush", 1, ""), (3, "flush", 2, "")],
    "flush-self":    [(1, "flush", 1, ""), (2, "op", 0, "getattr"), (3, "flush", 2, "")],
    "flush-twice":   [(1, "op", 0, "walk"), (2, "flush", 1, ""), (3, "flush", 1, "")],
    "flush-idle":    [(1, "flush", 9, ""), (2, "op", 0, "mkdir"), (3, "flush", 2, "")],
    "flush-rename":  [(1, "op", 0, "renameat"), (2, "flush", 1, ""), (3, "flush", 7, "")],
    # a Tflush that re-uses the busy tag it names: dropped like any request with a busy tag
    "flush-self-busy": [(1, "op", 0, "read"), (2, "flush", 1, ""), (1, "flush", 1, "")],
    # a Tclunk held inside File.Close (class "none": nothing is ordered after it) and independent requests
    "clunk-held":    [(1, "op", 0, "clunk"), (2, "op", 0, "getattr"), (3, "op", 0, "walk")],
    # extreme tag values are ordinary tags for every request but Tversion: a read carrying NOTAG (0xFFFF) flushed
    # by a request with tag 0, itself flushed
    "flush-notag":   [(65535, "op", 0, "read"), (0, "flush", 65535, ""), (3, "flush", 0, "")],
    # a walk that replaces a bound fid is held in the Close of the replaced File: its reply and the Rflush wait for it
    "flush-walkover": [(1, "op", 0, "walkover"), (2, "flush", 1, ""), (3, "op", 0, "getattr")],
    # a rename whose RenameAt has succeeded and that is held in the Renamed callback of an open file two levels below
    # the renamed entry: the callback is a backend call on the request's behalf, Rrenameat and Rflush wait for it
    # (no independent operation beside it: a rename excludes every other path operation - PathLocks.tla)
    "flush-renamedeep": [(1, "op", 0, "renamedeep"), (2, "flush", 1, ""), (3, "flush", 7, "")],
    # a frame of an unknown type that carries the tag of a request in progress is refused without touching that tag:
    # a flush of the tag still waits for the request
    "flush-badsametag": [(1, "op", 0, "read"), (1, "bad", 0, "type"), (2, "flush", 1, "")],
    "dup-tag":       [(1, "op", 0, "getattr"), (1, "op", 0, "read"), (2, "op", 0, "write")],
    "tag-reuse":     [(1, "op", 0, "getattr"), (2, "op", 0, "read"), (1, "op", 0, "walk")],
    "bad-frame":     [(1, "op", 0, "read"), (2, "bad", 0, ""), (3, "op", 0, "getattr")],
    "three-ops":     [(1, "op", 0, "read"), (2, "op", 0, "write"), (3, "op", 0, "getattr")],
    # read-class and write-class requests on unrelated paths: none delays another
    "mixed-ops":     [(1, "op", 0, "read"), (2, "op", 0, "mkdir"), (3, "op", 0, "setattr")],
}

INVARIANTS = ["AtMostOneReply", "Contiguous", "NoUnsolicitedReply", "OneReceiver", "ReceiverExists", "FlushAfterStop"]
LIVENESS = ["EventuallyAnswered", "HandleReturns"]


def module_text(name, reqs):
    n = len(reqs)
    return "\n".join([
        "---- MODULE %s ----" % name,
        "EXTENDS MC_ConnLoop",
        "cReqs == 1..%d" % n,
        "cG == 1..%d" % (n + 2),
        "cTag == <<%s>>" % ", ".join(str(r[0]) for r in reqs),
        "cKind == <<%s>>" % ", ".join('"%s"' % r[1] for r in reqs),
        "cOld == <<%s>>" % ", ".join(str(r[2]) for r in reqs),
        "====", ""])


def cfg(fixed, invariants=(), props=(), dump=False):
    l = ["SPECIFICATION Spec", "CONSTANTS", "  Reqs <- cReqs", "  G <- cG", "  Tag <- cTag", "  Kind <- cKind",
         "  Old <- cOld", "  Fixed = {%s}" % ", ".join('"%s"' % f for f in fixed), "VIEW View", "CHECK_DEADLOCK FALSE"]
    if dump:
        l.append("ACTION_CONSTRAINT EdgeDump")
    if invariants:
        l.append("INVARIANTS " + " ".join(invariants))
    if props:
        l.append("PROPERTIES " + " ".join(props))
    return "\n".join(l) + "\n"


def tlc(scratch, name, reqs, fixed, **kw):
    mod = "CL_" + name.replace("-", "_")
    # the generated constants module lives only in the run's private copy of spec/
    return vlib.run_tlc(scratch, mod, cfg(fixed, **{k: v for k, v in kw.items() if k in ("invariants", "props", "dump")}),
                        name=kw.get("runname", mod), workers=kw.get("workers"), env=kw.get("env"), timeout=1500,
                        extra_files={mod + ".tla": module_text(mod, reqs)})


def run(prop, tier, seed, configs, own, rule, maxscripts, batch=None):
    """own(detail) -> True if a rejected observation belongs to this property."""
    t0 = time.time()
    verdict = vlib.Verdict(prop)
    vlib.ensure_setup()
    vlib.build_harness()
    fixed = [f for f in vlib.fixed_ids() if f in ALL_DEV]
    states = transitions = 0
    runs = []
    nscripts = accepted = 0
    samples = []
    distinct = set()
    other = 0
    others = []
    with vlib.Scratch(prop) as s:
        for name in configs:
            reqs = CONFIGS[name]
            r = tlc(s, name, reqs, ALL_DEV, invariants=INVARIANTS, props=LIVENESS, runname="mc-" + name)
            if "violated" in r:
                raise Inconclusive("ConnLoop.tla itself violates %s in configuration %s" % (r["violated"], name))
            states += r.get("distinct", 0)
            transitions += r.get("generated", 0)
            runs.append({"config": name, "distinct": r.get("distinct"), "generated": r.get("generated"),
                         "wall_s": round(r["wall_s"], 1), "invariants": INVARIANTS, "liveness": LIVENESS})
            out = os.path.join(s, "edges-%s.ndjson" % name)
            tlc(s, name, reqs, fixed, dump=True, workers=1, env={"GEN_OUT": out}, runname="gen-" + name)
            g = bigstep.Graph(out, ["Deliver", "Release", "Hangup"])
            scripts = g.scripts(maxlen=2 * len(reqs) + 1, limit=maxscripts, seed=seed)
            inp = {"name": name, "reqs": [{"id": i + 1, "tag": q[0], "kind": q[1], "old": q[2], "op": q[3]}
                                          for i, q in enumerate(reqs)],
                   "scripts": [[list(x) for x in sc] for sc in scripts]}
            inf = os.path.join(s, "scripts-%s.json" % name)
            json.dump(inp, open(inf, "w"))
            outs = []

            def args(i, n):
                o = os.path.join(s, "obs-%s-%d.json" % (name, i))
                outs.append(o)
                return ["-in", inf, "-out", o, "-shard", str(i), "-nshard", str(n)]
            res = vlib.run_shards("connsched", args, nshard=min(vlib.NPROC, max(1, len(scripts))))
            results = []
            for (rc, o, e), f in zip(res, outs):
                if rc != 0:
                    raise Inconclusive("connsched failed: " + (e or o)[-1500:])
                results += json.load(open(f)) or []
            for r_ in results:
                if len(verdict.violations) >= 5:
                    break       # enough confirmed rejections (each further one costs three long re-runs)
                sc = scripts[r_["script"]]
                nscripts += 1
                distinct.add((name, tuple(sc)))
                ok, at, allowed = g.accepts(sc, r_["obs"])
                bad = []
                if not ok:
                    bad.append("after stimulus %d %s the server showed %s; ConnLoop.tla allows only %s" %
                               (at, sc[at], json.dumps(r_["obs"][at]), allowed))
                bad += r_.get("monitor") or []
                if not bad:
                    accepted += 1
                    if len(samples) < 2:
                        samples.append({"config": name, "requests": inp["reqs"], "script": sc, "observations": r_["obs"]})
                    continue
                # retry once: quiescence is a timing judgement
                rep = {"config": name, "requests": inp["reqs"], "script": [list(x) for x in sc],
                       "observations": r_["obs"], "findings": bad}
                if not confirm(s, inp, r_["script"], g, sc):
                    accepted += 1
                    continue
                detail = None
                if not ok:
                    detail = {"obs": r_["obs"][at], "allowed": allowed, "reqs": reqs}
                mine = [b for b in bad if own(name, sc, b, detail if b is bad[0] and not ok else None)]
                if mine:
                    p = vlib.save_replay(prop, rep, "connloop")
                    verdict.violation(p, "%s: %s" % (name, mine[0]))
                else:
                    other += 1
                    others.append("%s %s: %s" % (name, sc, bad[0]))
            runs.append({"config": "gen-" + name, "edges": g.nedges, "scripts": len(scripts)})
        batch_info = None
        if batch:
            n, rounds = batch
            outs = []

            def bargs(i, k):
                o = os.path.join(s, "batch-%d.json" % i)
                outs.append(o)
                return ["-batch", str(n), "-rounds", str(rounds), "-seed", str(seed), "-shard", str(i), "-out", o]
            res = vlib.run_shards("connsched", bargs, nshard=4)
            tot = {"rounds": 0, "requests": 0, "findings": [], "sample": None}
            for (rc, o, e), f in zip(res, outs):
                if rc != 0:
                    raise Inconclusive("connsched batch failed: " + (e or o)[-800:])
                b = json.load(open(f))
                tot["rounds"] += b["rounds"]
                tot["requests"] += b["requests"]
                tot["findings"] += b.get("findings") or []
                tot["sample"] = tot["sample"] or b.get("sample")
            batch_info = {"in_flight": n, "rounds": tot["rounds"], "requests": tot["requests"]}
            nscripts += tot["rounds"]
            if tot["findings"]:
                p = vlib.save_replay(prop, {"mode": "batch", "in_flight": n, "rounds": rounds, "seed": seed,
                                            "findings": tot["findings"][:10]}, "batch")
                verdict.violation(p, "batch of %d in-flight reads: %s" % (n, tot["findings"][0]))
            else:
                accepted += tot["rounds"]
    cov = {"states": states, "transitions": transitions, "traces_validated_against_impl": accepted,
           "samples": samples or [{"note": "none"}], "evaluations": nscripts, "distinct_nontrivial": len(distinct),
           "rule": rule, "scripts_owned_by_other_property_rejected": other, "rejected_owned_elsewhere": others[:5], "tlc_runs": runs,
           "concurrent_batches": batch_info,
           "exhaustive": maxscripts is None,
           "checker_cmd": "tlc ConnLoop.tla + lib/bigstep.py + harness/cmd/connsched"}
    vlib.write_evidence(prop, tier, seed, "model_checking", cov, [
        "quiescence is judged by an idle window (20 ms, a rejected script is re-run once with 100 ms before it counts)",
        "operations are single-backend-call requests on distinct paths (lock interactions are PathLocks.tla's subject)",
        "bounded: 3 requests per configuration; goroutine pool of 5 in the model",
    ], time.time() - t0, len(verdict.violations))
    return verdict.finish()


def flush_related(detail):
    """True if, against every alternative the specification allows, the observation differs in a
    request that is a Tflush or the target of one (C14's subject); a difference confined to other
    requests - e.g. an independent request not served while another is blocked - is C06's alone."""
    if not detail:
        return True
    reqs = detail["reqs"]
    tags_flushed = {q[2] for q in reqs if q[1] == "flush"}
    special = {i + 1 for i, q in enumerate(reqs) if q[1] == "flush" or q[0] in tags_flushed}
    ob = detail["obs"]
    got = (set(ob.get("replies", [])), set(ob.get("gated", [])), bool(ob.get("exited")))
    for a in detail["allowed"] or []:
        if a is None:
            continue
        diff = (got[0] ^ set(a[0])) | (got[1] ^ set(a[1]))
        if got[2] != a[2]:
            return True
        if not (diff & special):
            return False
    return True


def confirm(scratch, inp, idx, g, sc):
    """Re-run one script with longer idle windows (quiescence is a timing judgement and the machine may
    be busy); True only if it is rejected every time."""
    one = dict(inp, scripts=[inp["scripts"][idx]])
    f = os.path.join(scratch, "confirm.json")
    o = os.path.join(scratch, "confirm-out.json")
    json.dump(one, open(f, "w"))
    for quiet in ("100ms", "400ms", "1200ms"):
        res = vlib.run_shards("connsched", lambda i, n: ["-in", f, "-out", o, "-quiet", quiet], nshard=1)
        if res[0][0] != 0:
            raise Inconclusive("connsched failed on confirmation: " + res[0][2][-800:])
        r = json.load(open(o))[0]
        ok, _, _ = g.accepts(sc, r["obs"])
        if ok and not r.get("monitor"):
            return False
    return True


def replay(path):
    vlib.ensure_setup()
    vlib.build_harness()
    rep = json.load(open(path))
    if rep.get("mode") == "batch":
        with vlib.Scratch("replay") as s:
            o = os.path.join(s, "b.json")
            res = vlib.run_shards("connsched", lambda i, n: ["-batch", str(rep["in_flight"]), "-rounds", str(rep["rounds"]),
                                                              "-seed", str(rep["seed"]), "-out", o], nshard=1)
            b = json.load(open(o))
            print(json.dumps(b.get("findings")))
            return 1 if b.get("findings") else 0
    with vlib.Scratch("replay") as s:
        name = rep["config"]
        reqs = CONFIGS[name]
        fixed = [f for f in vlib.fixed_ids() if f in ALL_DEV]
        out = os.path.join(s, "edges.ndjson")
        tlc(s, name, reqs, fixed, dump=True, workers=1, env={"GEN_OUT": out}, runname="gen")
        g = bigstep.Graph(out, ["Deliver", "Release", "Hangup"])
        inp = {"name": name, "reqs": rep["requests"], "scripts": [rep["script"]]}
        sc = [tuple(x) for x in rep["script"]]
        if confirm(s, inp, 0, g, sc):
            print("script is still rejected")
            return 1
    print("script accepted")
    return 0
