#!/bin/bash
# usage: seedeval.sh <seed-name> <worktree> <check>...   verifies a seeded change, stores it under /verif/seeded/<name>/ and runs checks against it
set -u
name=$1; wt=$2; shift 2
export GOFLAGS=-mod=mod GOPROXY=off GOSUMDB=off GOTOOLCHAIN=local
out=/verif/seeded/$name; mkdir -p $out
cd $wt || exit 2
git diff > $out/patch.diff
demo=$(git status --short | grep zz_seeded_demo_test.go | awk '{print $2}')
cp $demo $out/ 2>/dev/null; cp SEEDED.md $out/ 2>/dev/null
pkg=./$(dirname $demo)
echo "== build"; go build ./... && go vet ./p9/ >/dev/null 2>&1; echo "build rc=$?"
echo "== existing tests with change (demo moved aside)"
mv $demo /tmp/zz_demo.go.aside
go test -count=1 ./p9/... ./vecnet/... ./linux/... ./fsimpl/composefs/... ./fsimpl/localfs/... ./fsimpl/qids/... ./fsimpl/staticfs/... ./fsimpl/readdir/... ./fsimpl/templatefs/... 2>&1 | grep -v "no test files" | tail -8
mv /tmp/zz_demo.go.aside $demo
echo "== demo with change (must FAIL)"; go test -count=1 -run 'Seeded' $pkg 2>&1 | tail -4
git stash -q
echo "== demo without change (must PASS)"; go test -count=1 -run 'Seeded' $pkg 2>&1 | tail -3
git stash pop -q
echo "== checks against the change"
cd /verif
git -C /repo apply $out/patch.diff || { echo "patch does not apply"; exit 2; }
for c in "$@"; do
  /usr/bin/time -f "%es" ./check $c --tier quick > /tmp/seed-$name-$c.out 2>/tmp/seed-$name-$c.err; rc=$?
  echo "check $c rc=$rc: $(grep -c VIOLATION /tmp/seed-$name-$c.out) violation lines; $(grep -m1 -A1 VIOLATION /tmp/seed-$name-$c.out /tmp/seed-$name-$c.err | tail -1 | cut -c1-300)"
done
git -C /repo checkout -- .
git -C /repo status --short | head -3
