"""C07 (and the blocking / progress clauses of C06, C16): spec/PathLocks.tla
model-checked by TLC; its may-overlap matrix drives harness/cmd/pairs, which
forces pairs of requests to rendezvous inside the real server's backend; the
recorded enter/exit log is validated by TLC against spec/Trace_Overlap.tla."""
import json
import os
import random
import time

from . import vlib
from .vlib import Inconclusive

ALL_DEV = ["R10", "R11", "R18"]
PLANS = ["read", "open", "write", "unlink", "walk", "walk2", "clone", "global", "remove", "none", "attach"]

# plan -> concrete requests and the backend method each is held at for the plan's call step
READ_OPS = {"getattr": "GetAttr", "read": "ReadAt", "readdir": "Readdir", "fsync": "FSync"}


def open_idx():
    """Step index of the Open call in plan open(n, f): after the fid's openMu unless R10 is still as found."""
    return 4 if "R10" in vlib.fixed_ids() else 3

WRITE_OPS = {"setattr": "SetAttr", "mkdir": "Mkdir", "create": "Create", "symlink": "Symlink", "mknod": "Mknod", "link": "Link"}


def cfg(h, plans, fixed, invariants=(), props=(), loop=True, deadlock=False):
    l = ["SPECIFICATION Spec", "CONSTANTS", "  H = {%s}" % ", ".join(str(i) for i in range(1, h + 1)),
         "  Plans = {%s}" % ", ".join('"%s"' % p for p in plans),
         "  Loop = %s" % ("TRUE" if loop else "FALSE"),
         "  Fixed = {%s}" % ", ".join('"%s"' % f for f in fixed), "CHECK_DEADLOCK " + ("TRUE" if deadlock else "FALSE")]
    if loop:
        l.append("VIEW View")
    if invariants:
        l.append("INVARIANTS " + " ".join(invariants))
    if props:
        l.append("PROPERTIES " + " ".join(props))
    return "\n".join(l) + "\n"


def instances():
    """(plan instance, [(step index, hold kind choices, occurrence)], first call index)"""
    out = []
    for n in (1, 2, 3, 4):
        out.append(({"p": "read", "n": n, "e": 0}, [(3, READ_OPS, 1)]))
        out.append(({"p": "open", "n": n, "e": 1}, [(open_idx(), {"lopen": "Open"}, 1)]))
        out.append(({"p": "write", "n": n, "e": 0}, [(3, WRITE_OPS, 1)]))
        out.append(({"p": "clone", "n": n, "e": 0}, [(6, {"clone": "Walk"}, 1)]))
    for e, par in ((2, 1), (3, 2), (4, 1)):
        out.append(({"p": "unlink", "n": par, "e": e}, [(4, {"unlinkat": "UnlinkAt"}, 1)]))
        out.append(({"p": "walk", "n": par, "e": e},
                    [(6, {"walk": "Walk", "walkgetattr": "Walk"}, 1), (7, {"walk": "GetAttr", "walkgetattr": "GetAttr"}, 1)]))
    out.append(({"p": "walk2", "n": 1, "e": 3},
                [(6, {"walk2": "Walk"}, 1), (7, {"walk2": "GetAttr"}, 1), (11, {"walk2": "Walk"}, 2), (12, {"walk2": "GetAttr"}, 2)]))
    for n in (1, 2):
        out.append(({"p": "global", "n": n, "e": 0}, [(2, {"renameat": "RenameAt"}, 1)]))
    for n in (2, 3):
        out.append(({"p": "remove", "n": n, "e": 0}, [(2, {"remove": "UnlinkAt"}, 1)]))
    out.append(({"p": "none", "n": 2, "e": 0}, [(1, {"statfs": "StatFS", "lock": "Lock"}, 1)]))
    out.append(({"p": "attach", "n": 1, "e": 0}, [(1, {"attach": "Attach"}, 1), (2, {"attach": "GetAttr"}, 1)]))
    return out


def key(d, i):
    return (d["p"], d["n"], d["e"], i)


def load_matrix(path):
    m = set()
    with open(path) as f:
        for line in f:
            line = line.strip()
            if not line:
                continue
            e = json.loads(line)
            if isinstance(e, str):
                e = json.loads(e)
            a, b = e["a"], e["b"]
            m.add((key(a, a["i"]), key(b, b["i"])))    # ordered: a was inside when b began
    return m


def make_cells(rng, full):
    cells = []
    inst = instances()
    cid = 0
    for (pa, stepsa) in inst:
        for (ia, opsa, occ) in stepsa:
            for (pb, stepsb) in inst:
                ib, opsb, _ = stepsb[0]
                achoices = sorted(opsa.items()) if full else [rng.choice(sorted(opsa.items()))]
                for (aop, ahold) in achoices:
                    bchoices = sorted(opsb.items()) if full else [rng.choice(sorted(opsb.items()))]
                    for (bop, bhold) in bchoices:
                        for cross in ([False, True] if full else [rng.random() < 0.4]):
                            cid += 1
                            a = dict(pa, op=aop if aop != "walk2" else "walk2", k="", hold=ahold, holdidx=occ, i=ia)
                            b = dict(pb, op=bop, k="", hold=bhold, holdidx=1, i=ib)
                            if b["p"] == "open":
                                b["e"] = 2      # B opens a fid of its own (the same-fid cells are separate)
                            cells.append({"id": cid, "a": a, "b": b, "cross": cross})
    return cells


def racy_cells(start_id, repeats):
    """Cells whose two fids on node a (and a/b) are created by walks that meet inside the backend
    and return together, so that both look the path node up for the first time at the same moment
    (pathNodeFor); the plans and the expected exclusion are the ordinary ones of PathLocks.tla,
    which has ONE lock per path."""
    cells = []
    cid = start_id
    combos = [("write", "setattr", "SetAttr", "write", "setattr", "SetAttr"), ("write", "setattr", "SetAttr", "read", "getattr", "GetAttr"),
              ("write", "mkdir", "Mkdir", "write", "symlink", "Symlink"), ("write", "mkdir", "Mkdir", "read", "getattr", "GetAttr")]
    for rep in range(repeats):
        for n in (2, 3):
            for (pa, aop, ahold, pb, bop, bhold) in combos:
                for cross in (False, True):
                    cid += 1
                    cells.append({"id": cid, "racy": True, "cross": cross,
                                  "a": {"p": pa, "n": n, "e": 0, "op": aop, "k": "", "hold": ahold, "holdidx": 1, "i": 3},
                                  "b": {"p": pb, "n": n, "e": 0, "op": bop, "k": "", "hold": bhold, "holdidx": 1, "i": 3}})
    return cells


def samefid_cells(start_id):
    """Both requests name the SAME fid (C07: 'same fid' path relation; 'Open is invoked at most once on a File')."""
    ops = [("open", "lopen", "Open"), ("read", "getattr", "GetAttr"), ("write", "setattr", "SetAttr"), ("write", "mkdir", "Mkdir")]
    cells = []
    cid = start_id
    for n in (2, 3):
        for (pa, aop, ahold) in ops:
            for (pb, bop, bhold) in ops:
                cid += 1
                cells.append({"id": cid, "samefid": True, "cross": False,
                              "a": {"p": pa, "n": n, "e": 1 if pa == "open" else 0, "op": aop, "k": "", "hold": ahold, "holdidx": 1,
                                    "i": open_idx() if pa == "open" else 3},
                              "b": {"p": pb, "n": n, "e": 1 if pb == "open" else 0, "op": bop, "k": "", "hold": bhold, "holdidx": 1,
                                    "i": open_idx() if pb == "open" else 3}})
    return cells


def racy_progress(s, repeats):
    """C16: requests that look a fresh name up at the same moment (walks released from the backend together)
    are all answered.  Returns (cells run, [(cell, what)] for every cell with an unanswered request)."""
    cells = racy_cells(0, repeats)
    cfile = os.path.join(s, "racy-cells.json")
    json.dump(cells, open(cfile, "w"))
    results, _ = run_pairs(s, cfile, "120ms", tag="racy")
    byid = {c["id"]: c for c in cells}
    stuck = []
    for r_ in results:
        if r_.get("err") and ("no Rwalk" in r_["err"] or "did not meet" in r_["err"]):
            stuck.append((byid[r_["id"]], "the two walks to the fresh name were not both answered (" + r_["err"] + ")"))
        elif r_.get("hang"):
            stuck.append((byid[r_["id"]], "requests %s / %s were not both answered" % (byid[r_["id"]]["a"]["op"], byid[r_["id"]]["b"]["op"])))
    return len(results), stuck


def triple_cells(start_id, repeats):
    """Rename held in the backend, unlink of the rename's target name and a read of the renamed entry queued behind
    it: after the rename the unlink and the read still exclude each other (see Cell.Triple in harness/cmd/pairs)."""
    return [{"id": start_id + 1 + i, "triple": True, "cross": False,
             "a": {"p": "global", "n": 2, "e": 0, "op": "renameat", "k": "", "hold": "RenameAt", "holdidx": 1, "i": 2},
             "b": {"p": "unlink", "n": 2, "e": 3, "op": "unlinkat", "k": "", "hold": "UnlinkAt", "holdidx": 1, "i": 4}}
            for i in range(repeats)]


def xopen_cells(start_id):
    """Tlopen of an xattr fid (which borrows the File of its source fid) followed by Tlopen of the source fid: Open is
    invoked at most once on a File.  In the code as it is the first request never reaches the backend (EINVAL), so the
    cell is counted as 'not set up'; a File.Open on behalf of the xattr fid makes the log violate OpenOnce."""
    cells = []
    for i, n in enumerate((2, 3)):
        cells.append({"id": start_id + 1 + i, "samefid": True, "cross": False,
                      "a": {"p": "open", "n": n, "e": 1, "op": "xlopen", "k": "", "hold": "Open", "holdidx": 1, "i": open_idx()},
                      "b": {"p": "open", "n": n, "e": 1, "op": "lopen", "k": "", "hold": "Open", "holdidx": 1, "i": open_idx()}})
    return cells


def writeop_cells(start_id):
    """Every write-class request type held inside its backend call on directory a, beside a second write-class and a
    read-class request on the same directory through another fid (and the reverse order): the quick tier samples the
    request type of an ordinary cell, these cells make sure each type (Tlink with a target fid of its own included)
    is seen excluding its directory's other calls."""
    cells = []
    cid = start_id
    for op, hold in sorted(WRITE_OPS.items()):
        a = {"p": "write", "n": 2, "e": 0, "op": op, "k": "", "hold": hold, "holdidx": 1, "i": 3}
        for b in ({"p": "write", "n": 2, "e": 0, "op": "mkdir" if op != "mkdir" else "symlink", "k": "",
                   "hold": "Mkdir" if op != "mkdir" else "Symlink", "holdidx": 1, "i": 3},
                  {"p": "read", "n": 2, "e": 0, "op": "getattr", "k": "", "hold": "GetAttr", "holdidx": 1, "i": 3}):
            for x, y in ((a, b), (b, a)):
                cid += 1
                cells.append({"id": cid, "a": dict(x), "b": dict(y), "cross": cid % 2 == 0})
    return cells


def run(prop, tier, seed, rule):
    t0 = time.time()
    verdict = vlib.Verdict(prop)
    vlib.ensure_setup()
    vlib.build_harness()
    fixed = [f for f in vlib.fixed_ids() if f in ALL_DEV]
    opens = {f["id"]: f for f in vlib.load_findings() if f.get("status") == "open"}
    rng = random.Random(seed)
    states = transitions = 0
    runs = []
    with vlib.Scratch(prop) as s:
        # 1. the lock protocol implies the contract (named deviations tolerated), no stuck handler
        r = vlib.run_tlc(s, "MC_PathLocks", cfg(2, PLANS, fixed, ["ContractInv", "LocksSane", "OpenOnceInv"], ["Terminates"]), name="mc-2h-live")
        if "violated" in r:
            raise Inconclusive("PathLocks.tla violates %s (2 handlers)" % r["violated"])
        states += r.get("distinct", 0)
        transitions += r.get("generated", 0)
        runs.append({"config": "2 handlers, safety+liveness", "distinct": r.get("distinct"), "generated": r.get("generated"), "wall_s": round(r["wall_s"], 1)})
        # (the open plan - 8 instances - is in the 2-handler run of both tiers; with three handlers only in thorough)
        plans3 = PLANS if tier == "thorough" else ["read", "write", "unlink", "walk", "clone", "global", "remove"]
        r = vlib.run_tlc(s, "MC_PathLocks", cfg(3, plans3, fixed, ["ContractInv", "LocksSane", "OpenOnceInv"]), name="mc-3h", timeout=2400)
        if "violated" in r:
            raise Inconclusive("PathLocks.tla violates %s (3 handlers)" % r["violated"])
        states += r.get("distinct", 0)
        transitions += r.get("generated", 0)
        runs.append({"config": "3 handlers, safety", "distinct": r.get("distinct"), "generated": r.get("generated"), "wall_s": round(r["wall_s"], 1)})
        # 1b. one path node (one opMu) per path also under concurrent first-time lookups
        r = vlib.run_tlc(s, "NodeFor", "\n".join(["SPECIFICATION Spec", "CONSTANTS", "  Callers = {1, 2, 3}", '  Names = {"a", "b"}',
                                                  "INVARIANTS OneNodePerName SameNameSameNode", "CHECK_DEADLOCK FALSE", ""]), name="nodefor")
        if "violated" in r:
            raise Inconclusive("NodeFor.tla violates " + r["violated"])
        states += r.get("distinct", 0)
        transitions += r.get("generated", 0)
        runs.append({"config": "NodeFor: 3 callers, 2 names", "distinct": r.get("distinct"), "generated": r.get("generated")})
        # 2. the may-overlap matrix
        mfile = os.path.join(s, "matrix.ndjson")
        vlib.run_tlc(s, "MC_PathLocks", cfg(2, PLANS, fixed, ["Pairs"], loop=False), workers=1, env={"GEN_OUT": mfile}, name="matrix")
        matrix = load_matrix(mfile)
        # 3. rendezvous experiments
        cells = make_cells(rng, tier == "thorough")
        cells += racy_cells(max(c["id"] for c in cells), 3 if tier == "quick" else 12)
        cells += samefid_cells(max(c["id"] for c in cells))
        cells += triple_cells(max(c["id"] for c in cells), 4 if tier == "quick" else 16)
        cells += xopen_cells(max(c["id"] for c in cells))
        cells += writeop_cells(max(c["id"] for c in cells))
        cfile = os.path.join(s, "cells.json")
        json.dump(cells, open(cfile, "w"))
        results, traces = run_pairs(s, cfile, "120ms")
        byid = {c["id"]: c for c in cells}
        # 4. TLC judges the recorded log
        judged = judge(s, traces, fixed)
        # 5. verdicts
        nover = nblock = 0
        unexpected_block = []
        not_in_matrix = []
        hangs = []
        errors = []
        for r_ in results:
            c = byid[r_["id"]]
            if r_.get("err"):
                errors.append((c, r_["err"]))
                continue
            exp = (key(c["a"], c["a"]["i"]), key(c["b"], c["b"]["i"])) in matrix
            if r_["hang"]:
                hangs.append((c, r_))
            if r_["overlap"]:
                nover += 1
                if not exp:
                    not_in_matrix.append((c, r_))
            else:
                nblock += 1
                if exp:
                    unexpected_block.append(c)
        if len(errors) > len(cells) // 20:
            raise Inconclusive("%d of %d rendezvous cells could not be set up: %s" % (len(errors), len(cells), errors[0][1]))
        # re-run unexpected blocking with a longer wait before believing it
        confirmed_block = []
        if unexpected_block:
            c2 = os.path.join(s, "cells2.json")
            json.dump(unexpected_block, open(c2, "w"))
            res2, _ = run_pairs(s, c2, "1500ms", tag="retry")
            confirmed_block = [byid[x["id"]] for x in res2 if not x["overlap"] and not x.get("err")]
        known = {}
        for j in judged:
            c = byid.get(j["cell"])
            desc = "%s inside the backend together with %s (paths %s / %s)" % (
                j["a"]["k"], j["b"]["k"], "/".join(j["a"]["path"]) or "/", "/".join(j["b"]["path"]) or "/")
            if j["dev"]:
                fid = finding_for(j)
                if fid in opens:
                    known.setdefault(fid, desc)
                    continue
            if prop == "C07":
                p = vlib.save_replay(prop, {"cell": c, "judgement": j}, "overlap")
                verdict.violation(p, "forbidden overlap: " + desc)
        for fid, d in known.items():
            verdict.known_finding("%s %s" % (fid, opens[fid].get("what", d)))
        if prop == "C16":
            for c, r_ in hangs[:5]:
                p = vlib.save_replay(prop, {"cell": c, "result": r_}, "hang")
                verdict.violation(p, "requests %s / %s were not both answered" % (c["a"]["op"], c["b"]["op"]))
        if prop == "C06":
            for c in confirmed_block[:5]:
                p = vlib.save_replay(prop, {"cell": c}, "blocking")
                verdict.violation(p, "%s on node %d did not reach the backend while %s on node %d was inside, although nothing "
                                  "in the File contract orders them" % (c["b"]["op"], c["b"]["n"], c["a"]["op"], c["a"]["n"]))
        samples = [{"cell": byid[r_["id"]], "observed": r_} for r_ in results[:2]]
        cov = {"states": states, "transitions": transitions,
               "traces_validated_against_impl": len(results) - len(errors),
               "samples": samples, "evaluations": len(results),
               "distinct_nontrivial": len({(c["a"]["p"], c["a"]["n"], c["a"]["i"], c["b"]["p"], c["b"]["n"], c["cross"]) for c in cells}),
               "rule": rule, "may_overlap_pairs": len(matrix), "cells": len(cells), "overlapped": nover, "blocked": nblock,
               "overlaps_judged_conflicting_by_TLC": len(judged), "known_deviation_overlaps": sum(1 for j in judged if j["dev"]),
               "overlap_not_in_matrix_but_allowed_by_contract": len(not_in_matrix),
               "blocking_not_predicted_by_model": len(confirmed_block), "unanswered": len(hangs), "setup_errors": len(errors),
               "tlc_runs": runs, "exhaustive": tier == "thorough",
               "checker_cmd": "tlc PathLocks.tla / Trace_Overlap.tla + harness/cmd/pairs"}
    vlib.write_evidence(prop, tier, seed, "model_checking", cov, [
        "non-overlap is observed through a timeout (120 ms, 1.5 s on retry) and only used to confirm what the model predicts or to report blocking; a forbidden overlap is a definite observation",
        "the backend is the permissive self-answering puppet; path nodes root, a, a/b, c",
        "RWMutex modelled with writer preference; 2-3 concurrent handlers",
    ], time.time() - t0, len(verdict.violations))
    return verdict.finish()


WALKREQS = {"walk", "walkgetattr", "walk2", "attach", "Twalk", "Twalkgetattr", "Tattach"}


def finding_for(j):
    for side in (j["a"], j["b"]):
        if side["k"] in ("Walk", "WalkGetAttr") and side.get("nonames") and side.get("req") in ("clone", "Twalk", "Twalkgetattr"):
            return "R11"
    for side in (j["a"], j["b"]):
        if side["k"] == "GetAttr" and side.get("req") in WALKREQS:
            return "R18"
    return None


def run_pairs(s, cfile, wait, tag="run"):
    outs, trs = [], []

    def args(i, n):
        o = os.path.join(s, "pairs-%s-%d.json" % (tag, i))
        t = os.path.join(s, "trace-%s-%d.ndjson" % (tag, i))
        outs.append(o)
        trs.append(t)
        return ["-in", cfile, "-out", o, "-trace", t, "-shard", str(i), "-nshard", str(n), "-wait", wait]
    res = vlib.run_shards("pairs", args)
    results = []
    for (rc, o, e), f in zip(res, outs):
        if rc != 0:
            raise Inconclusive("pairs driver failed: " + (e or o)[-1500:])
        results += json.load(open(f)) or []
    return results, trs


def judge(s, traces, fixed):
    """Concatenate the recorded logs and let TLC (Trace_Overlap.tla) judge every simultaneous pair."""
    allf = os.path.join(s, "trace-all.ndjson")
    n = 0
    with open(allf, "w") as out:
        for t in traces:
            if os.path.exists(t):
                for line in open(t):
                    out.write(line)
                    n += 1
    if n == 0:
        return []
    jf = os.path.join(s, "judged.ndjson")
    cfgt = "\n".join(["SPECIFICATION Spec", "CONSTANTS", "  Fixed = {%s}" % ", ".join('"%s"' % f for f in fixed),
                      "CHECK_DEADLOCK FALSE", "INVARIANTS Judge OpenOnce", ""])
    r = vlib.run_tlc(s, "Trace_Overlap", cfgt, workers=1, env={"TRACE_FILE": allf, "GEN_OUT": jf}, name="judge", timeout=1200)
    if r.get("violated") == "OpenOnce":
        return [{"cell": -1, "dev": False, "a": {"k": "Open", "path": [], "nonames": True}, "b": {"k": "Open", "path": [], "nonames": True}}]
    if "violated" in r:
        raise Inconclusive("trace validation failed unexpectedly: " + r["violated"])
    if r.get("depth", 0) != n + 1:
        raise Inconclusive("TLC consumed %s of %d trace events" % (r.get("depth"), n))
    out = []
    seen = set()
    if os.path.exists(jf):
        for line in open(jf):
            e = json.loads(line)
            if isinstance(e, str):
                e = json.loads(e)
            k = (e["cell"], e["a"]["call"], e["b"]["call"])
            if k not in seen:
                seen.add(k)
                out.append(e)
    return out


def debug_blocking(seed=1):
    """Development aid: print cells whose blocking the model did not predict."""
    import random as _r
    vlib.ensure_setup()
    vlib.build_harness()
    with vlib.Scratch("dbg") as s:
        mfile = os.path.join(s, "matrix.ndjson")
        vlib.run_tlc(s, "MC_PathLocks", cfg(2, PLANS, [], ["Pairs"], loop=False), workers=1, env={"GEN_OUT": mfile}, name="matrix")
        matrix = load_matrix(mfile)
        cells = make_cells(_r.Random(seed), False)
        cfile = os.path.join(s, "cells.json")
        json.dump(cells, open(cfile, "w"))
        results, _ = run_pairs(s, cfile, "400ms")
        byid = {c["id"]: c for c in cells}
        for r_ in results:
            c = byid[r_["id"]]
            exp = (key(c["a"], c["a"]["i"]), key(c["b"], c["b"]["i"])) in matrix
            if exp != r_["overlap"]:
                print("expected overlap" if exp else "expected blocking", json.dumps(c), json.dumps(r_))
