"""C01 / C03: spec/ClientFile.tla + spec/Wire.tla tables checked by TLC (ASSUMEs), scenario grid written out, and
harness/cmd/transp runs every scenario through client <-> proxy <-> server <-> backend."""
import json
import os
import time

from . import vlib
from .vlib import Inconclusive


def run(prop, tier, seed, rule, text):
    t0 = time.time()
    verdict = vlib.Verdict(prop)
    vlib.ensure_setup()
    vlib.build_harness()
    with vlib.Scratch(prop) as s:
        out = os.path.join(s, "scen.ndjson")
        r = vlib.run_tlc(s, "MC_ClientFile", "", workers=1, env={"GEN_OUT": out}, name="clientfile", timeout=600)
        if not os.path.exists(out):
            raise Inconclusive("no scenarios written")
        outs = []

        def args(i, n):
            o = os.path.join(s, "transp-%d.json" % i)
            outs.append(o)
            return ["-in", out, "-out", o, "-shard", str(i), "-nshard", str(n)]
        res = vlib.run_shards("transp", args, nshard=8)
        cases = frames = 0
        findings = []
        others = 0
        samples = []
        for (rc, o, e), f in zip(res, outs):
            if rc != 0 or not os.path.exists(f):
                raise Inconclusive("transp failed: " + (e or o)[-1500:])
            d = json.load(open(f))
            cases += d["cases"]
            frames += d["frames"]
            for k, v in (d.get("findings") or {}).items():
                if k == prop:
                    findings += v
                else:
                    others += len(v)
            samples += (d.get("samples") or [])[:1]
        dirfit = 0
        if prop in ("C01", "C03"):
            # "a directory reply carries only the whole entries that fit in the requested byte count":
            # the count / msize sweep of Version.tla's DirFitCases (shared with C13)
            from . import versioncheck
            env, _ = versioncheck.vectors(s, [f for f in vlib.fixed_ids() if f in versioncheck.ALL_DEV])
            t = versioncheck.replay(s, "dirfit", env["VEC_DIRFIT"])
            dirfit = t["cases"]
            findings += [f[5:] for f in t["findings"] if f.startswith(prop + ": ")]
            frames += t["cases"]
        for f in findings[:5]:
            p = vlib.save_replay(prop, {"finding": f}, "transp")
            verdict.violation(p, f)
    n = frames if prop == "C01" else cases
    cov = {"states": cases, "transitions": frames, "traces_validated_against_impl": max(0, n - len(findings)),
           "samples": samples[:2] or [{"note": "none"}], "evaluations": n, "distinct_nontrivial": n, "rule": rule,
           "scenarios": cases, "frames_checked_against_layout": frames, "findings_owned_by_the_other_property": others, "readdir_count_sweep_cases": dirfit,
           "explanation": text, "exhaustive": True,
           "checker_cmd": "tlc MC_ClientFile.tla (Wire.tla + ClientFile.tla ASSUMEs, scenario dump) + harness/cmd/transp"}
    vlib.write_evidence(prop, tier, seed, "model_checking" if prop == "C03" else "exploration", cov, [
        "values are drawn from the boundary / fingerprint grid of ClientFile.tla (Classes), not from all values",
        "the reference codec interprets the layout table exported from Wire.tla; positional comparison of struct fields with Wire.tla's field order",
    ], time.time() - t0, len(verdict.violations))
    return verdict.finish()
