"""Reference lifetime under concurrency (spec/Lifetime.tla): model-checked by
TLC per scenario; the explored graph is folded into quiescent big steps
(lib/bigstep.py), every stimulus script is executed against the real server by
harness/cmd/lifesched (backend calls held at gates), and the recorded
observations must be a path of the graph.  Used by C05 (closed exactly once,
never used after Close, under schedules) and C16 (every request completes)."""
import json
import os
import time

from . import vlib, bigstep
from .vlib import Inconclusive

ALL_DEV = ["R16", "R20", "R21"]

ROOT = dict(pa=0, name="", node=1)


def ref(pa, name, node, conn=1):
    return dict(pa=pa, name=name, node=node, conn=conn)


def thr(kind, conn=1, r=0, old="", tgt=0, new=""):
    return dict(kind=kind, conn=conn, r=r, old=old, tgt=tgt, new=new)


# name -> (refs, nodes, threads, gated)
CONFIGS = {
    # rename within one directory while the renamed entry's fid is clunked / used
    "samedir": ([ref(0, "", 1), ref(1, "x", 2)],
                [(0, ""), (1, "x")],
                [thr("rename", r=1, old="x", tgt=1, new="y"), thr("clunk", r=2), thr("op", r=2)],
                ["Renamed", "Close", "GetAttr"]),
    # rename within one directory of an entry held by a second connection that goes away meanwhile
    "samedir-stop": ([ref(0, "", 1), ref(0, "", 1, 2), ref(2, "x", 2, 2)],
                     [(0, ""), (1, "x")],
                     [thr("rename", r=1, old="x", tgt=1, new="y"), thr("stop", conn=2), thr("op", conn=2, r=3)],
                     ["Renamed", "Close", "GetAttr"]),
    # a directory is renamed while a second connection, holding entries below it, goes away
    "subtree-stop": ([ref(0, "", 1), ref(0, "", 1, 2), ref(2, "a", 2, 2), ref(3, "b", 3, 2)],
                     [(0, ""), (1, "a"), (2, "b")],
                     [thr("rename", r=1, old="a", tgt=1, new="z"), thr("stop", conn=2)],
                     ["Renamed", "Close"]),
    # rename into another directory, the entry held by a second connection that clunks it / goes away
    "crossdir": ([ref(0, "", 1), ref(1, "e", 3), ref(0, "", 1, 2), ref(3, "x", 2, 2)],
                 [(0, ""), (1, "x"), (1, "e")],
                 [thr("rename", r=1, old="x", tgt=2, new="y"), thr("clunk", conn=2, r=4), thr("stop", conn=2)],
                 ["Renamed", "Close"]),
    # a directory with two held entries is renamed while the entries are clunked
    "subtree": ([ref(0, "", 1), ref(1, "a", 2), ref(2, "b", 3), ref(2, "c", 4)],
                [(0, ""), (1, "a"), (2, "b"), (2, "c")],
                [thr("rename", r=1, old="a", tgt=1, new="z"), thr("clunk", r=3), thr("clunk", r=4)],
                ["Renamed", "Close"]),
    # an in-flight request keeps the last reference: clunk answered first, rename meanwhile
    "inflight": ([ref(0, "", 1), ref(1, "d", 2), ref(2, "a", 3), ref(1, "e", 4)],
                 [(0, ""), (1, "d"), (2, "a"), (1, "e")],
                 [thr("op", r=3), thr("clunk", r=3), thr("rename", r=2, old="a", tgt=4, new="b")],
                 ["GetAttr", "Close", "Renamed"]),
    # a request without path locks (Tlock, blocked in the backend) holds the last reference while its fid is clunked
    "inflight-lock": ([ref(0, "", 1), ref(1, "x", 2)],
                      [(0, ""), (1, "x")],
                      [thr("opn", r=2), thr("clunk", r=2), thr("op", r=2)],
                      ["Lock", "Close", "GetAttr"]),
    # rename over an existing, held target while source and target entries go away
    "overwrite": ([ref(0, "", 1), ref(1, "x", 2), ref(1, "y", 3)],
                  [(0, ""), (1, "x"), (1, "y")],
                  [thr("rename", r=1, old="x", tgt=1, new="y"), thr("clunk", r=3), thr("clunk", r=2)],
                  ["Renamed", "Close", "RenameAt"]),
}

INVARIANTS = ["ClosedAtMostOnce", "NoUseAfterClose", "RefsNonNeg", "ClosedOnlyAtZero", "LocksSane", "AtRest"]


def tla_rec(d):
    def v(x):
        return '"%s"' % x if isinstance(x, str) else str(x)
    return "[" + ", ".join("%s |-> %s" % (k, v(x)) for k, x in d.items()) + "]"


def module_text(mod, cfg):
    refs, nodes, threads, gated = cfg
    return "\n".join([
        "---- MODULE %s ----" % mod,
        "EXTENDS MC_Lifetime",
        "cRefs == <<%s>>" % ", ".join(tla_rec(r) for r in refs),
        "cNodes == <<%s>>" % ", ".join(tla_rec(dict(pa=p, name=n)) for p, n in nodes),
        "cThr == <<%s>>" % ", ".join(tla_rec(t) for t in threads),
        "====", ""])


def cfg_text(cfg, fixed, invariants=(), dump=False, deadlock=True):
    gated = cfg[3]
    l = ["SPECIFICATION Spec", "CONSTANTS", "  RefCfg <- cRefs", "  NodeCfg <- cNodes", "  ThrCfg <- cThr",
         "  Gated = {%s}" % ", ".join('"%s"' % g for g in gated),
         "  Fixed = {%s}" % ", ".join('"%s"' % f for f in fixed), "  defaultInitValue = 0",
         "CHECK_DEADLOCK %s" % ("TRUE" if deadlock else "FALSE")]
    if dump:
        l.append("ACTION_CONSTRAINT EdgeDump")
    if invariants:
        l.append("INVARIANTS " + " ".join(invariants))
    return "\n".join(l) + "\n"


def tlc(scratch, name, fixed, **kw):
    mod = "LT_" + name.replace("-", "_")
    cfg = CONFIGS[name]
    return vlib.run_tlc(scratch, mod, cfg_text(cfg, fixed, invariants=kw.get("invariants", ()), dump=kw.get("dump", False),
                                               deadlock=kw.get("deadlock", True)),
                        name=kw.get("runname", mod), workers=kw.get("workers"), env=kw.get("env"), timeout=1500,
                        extra_files={mod + ".tla": module_text(mod, cfg)})


def canon(o):
    return (tuple(sorted(o.get("replies", []))), tuple(sorted(o.get("gated", []))), tuple(o.get("closes", [])),
            tuple(sorted(o.get("uac", []))))


STIM = ["Start", "Release"]


def owners(ob, allowed):
    """Which property a rejected observation is evidence against: a request that is not answered
    (or a Handle that does not return) although the specification says it is -> C16 (and C05 for
    the Handle); a File closed at another moment / more than once / used after Close -> C05."""
    own = set()
    got = canon(ob)
    if not allowed:
        return {"C05", "C16"}
    if all(set(got[0]) < set(a[0]) for a in allowed if a):
        own.add("C16")
        if any(x.endswith(":exited") for a in allowed if a for x in set(a[0]) - set(got[0])):
            own.add("C05")
    if all(got[2] != a[2] or got[3] != a[3] for a in allowed if a):
        own.add("C05")
    return own or {"C05", "C16"}


def part(prop, tier, seed, verdict):
    """Runs the scenarios for `prop' (C05 or C16), reports its violations into verdict and returns the
    coverage to be merged into the property's evidence."""
    configs = list(CONFIGS)
    st, tr, ns, acc, samples, runs, viol = run(prop, tier, seed, configs, None if tier == "thorough" else 120)
    mine = [(rep, msg) for rep, msg in viol if prop in rep["owners"]]
    for rep, msg in mine[:5]:
        p = vlib.save_replay(prop, rep, "lifetime")
        verdict.violation(p, "Lifetime scenario " + msg)
    return {"states": st, "transitions": tr, "validated": acc, "evaluations": ns, "violations": len(mine),
            "cov": {"lifetime_scenarios": runs, "lifetime_scripts": ns, "lifetime_sample": samples[:1],
                    "lifetime_rejections_owned_by_other_property": len(viol) - len(mine)},
            "checker_cmd": "tlc MC_Lifetime.tla (spec/Lifetime.tla) + lib/bigstep.py + harness/cmd/lifesched"}


def applied(sc, observations):
    """Drops the stimuli the driver could not apply (see obs.Skipped in harness/cmd/lifesched)."""
    pairs = [(st, ob) for st, ob in zip(sc, observations) if not ob.get("skipped")]
    return [p[0] for p in pairs], [p[1] for p in pairs]


def driver_input(name, scripts):
    refs, nodes, threads, gated = CONFIGS[name]
    return {"name": name, "refs": refs, "threads": threads, "gated": gated, "scripts": [[list(x) for x in sc] for sc in scripts]}


def run_scripts(s, name, inp, quiet=None, tag=""):
    outs = []
    n = len(inp["scripts"])

    def args(i, k):
        o = os.path.join(s, "lobs-%s%s-%d.json" % (name, tag, i))
        outs.append(o)
        a = ["-in", os.path.join(s, "lscripts-%s%s.json" % (name, tag)), "-out", o, "-shard", str(i), "-nshard", str(k)]
        if quiet:
            a += ["-quiet", quiet]
        return a
    json.dump(inp, open(os.path.join(s, "lscripts-%s%s.json" % (name, tag)), "w"))
    res = vlib.run_shards("lifesched", args, nshard=min(vlib.NPROC, max(1, n)))
    results = []
    for (rc, o, e), f in zip(res, outs):
        if rc != 0:
            raise Inconclusive("lifesched failed: " + (e or o)[-1500:])
        results += json.load(open(f)) or []
    return results


def run(prop, tier, seed, configs, maxscripts, maxlen=None):
    """Returns (states, transitions, nscripts, accepted, samples, runs, violations) where violations is
    a list of (replay object, message)."""
    fixed = [f for f in vlib.fixed_ids() if f in ALL_DEV]
    states = transitions = nscripts = accepted = 0
    samples, runs, viol = [], [], []
    napplied = 0
    with vlib.Scratch(prop + "-life") as s:
        for name in configs:
            r = tlc(s, name, ALL_DEV, invariants=INVARIANTS, runname="mc-" + name)
            if "violated" in r or r.get("deadlock"):
                raise Inconclusive("Lifetime.tla (all deviations repaired) itself fails in scenario %s: %s" %
                                   (name, r.get("violated") or "deadlock"))
            states += r.get("distinct", 0)
            transitions += r.get("generated", 0)
            runs.append({"config": name, "distinct": r.get("distinct"), "generated": r.get("generated"),
                         "wall_s": round(r["wall_s"], 1), "invariants": INVARIANTS, "deadlock_check": True})
            out = os.path.join(s, "ledges-%s.ndjson" % name)
            tlc(s, name, fixed, dump=True, workers=1, env={"GEN_OUT": out}, runname="gen-" + name, deadlock=False)
            g = bigstep.Graph(out, STIM, canon=canon)
            nthr = len(CONFIGS[name][2])
            scripts = g.scripts(maxlen=maxlen or (4 * nthr + 4), limit=maxscripts, seed=seed)
            inp = driver_input(name, scripts)
            results = run_scripts(s, name, inp)
            for r_ in results:
                if len(viol) >= 5:
                    break       # enough confirmed rejections: every further one costs three long re-runs
                sc = scripts[r_["script"]]
                nscripts += 1
                asc, aobs = applied(sc, r_["obs"])
                ok, at, allowed = g.accepts(asc, aobs)
                napplied += len(asc)
                bad = []
                if not ok:
                    bad.append("after stimulus %d %s (of the applied stimuli %s) the server showed %s; Lifetime.tla allows only %s" %
                               (at, list(asc[at]), [list(x) for x in asc], json.dumps(aobs[at]), [list(map(list, a)) if a else a for a in allowed][:4]))
                bad += r_.get("monitor") or []
                if not bad:
                    accepted += 1
                    if len(samples) < 2:
                        samples.append({"config": name, "script": [list(x) for x in sc], "observations": r_["obs"]})
                    continue
                one = dict(inp, scripts=[inp["scripts"][r_["script"]]])
                confirmed = True
                for quiet in ("120ms", "400ms", "1200ms"):      # a busy machine must not turn into a verdict
                    again = run_scripts(s, name, one, quiet=quiet, tag="-confirm")[0]
                    ok2, at2, allowed2 = g.accepts(*applied(sc, again["obs"]))
                    if ok2 and not again.get("monitor"):
                        confirmed = False
                        break
                if not confirmed:
                    accepted += 1
                    continue
                asc2, aobs2 = applied(sc, again["obs"])
                rep = {"kind": "lifetime", "config": name, "scenario": driver_input(name, [sc]), "script": [list(x) for x in sc],
                       "observations": again["obs"], "findings": bad,
                       "owners": sorted(owners(aobs2[at2], allowed2) if not ok2 else {"C05", "C16"})}
                viol.append((rep, "%s: %s" % (name, bad[0])))
            runs.append({"config": "gen-" + name, "edges": g.nedges, "scripts": len(scripts), "stimuli_applied": napplied})
    return states, transitions, nscripts, accepted, samples, runs, viol


def replay_one(rep):
    """Re-runs one stored script; returns 1 if still rejected."""
    vlib.ensure_setup()
    vlib.build_harness()
    name = rep["config"]
    fixed = [f for f in vlib.fixed_ids() if f in ALL_DEV]
    with vlib.Scratch("replay-life") as s:
        out = os.path.join(s, "edges.ndjson")
        tlc(s, name, fixed, dump=True, workers=1, env={"GEN_OUT": out}, runname="gen", deadlock=False)
        g = bigstep.Graph(out, STIM, canon=canon)
        sc = [tuple(x) for x in rep["script"]]
        r = run_scripts(s, name, driver_input(name, [sc]), quiet="120ms")[0]
        ok, at, allowed = g.accepts(*applied(sc, r["obs"]))
        print(json.dumps({"accepted": ok, "at": at, "observations": r["obs"], "monitor": r.get("monitor")}))
        return 0 if ok and not r.get("monitor") else 1
